// pkfacts — rustc_private fact extractor for the /verif static checks.
//
// Injected with RUSTC_WORKSPACE_WRAPPER under `cargo +nightly check`.  For every workspace
// crate it exports (one write per process) a JSON file with: MIR bodies (resolved callees,
// constants, asserts, spans), HIR expression trees (literal tables), ADT type graph, impls,
// statics and attributes.  It does no judging.
#![feature(rustc_private)]
#![allow(unreachable_patterns)]

extern crate rustc_abi;
extern crate rustc_ast;
extern crate rustc_ast_pretty;
extern crate rustc_driver;
extern crate rustc_hir;
extern crate rustc_interface;
extern crate rustc_middle;
extern crate rustc_span;

mod hirx;
mod json;
mod mirx;
mod typesx;

use json::J;
use rustc_driver::Compilation;
use rustc_middle::ty::TyCtxt;

struct Cb;

impl rustc_driver::Callbacks for Cb {
    fn after_analysis<'tcx>(
        &mut self,
        _c: &rustc_interface::interface::Compiler,
        tcx: TyCtxt<'tcx>,
    ) -> Compilation {
        let out_dir = match std::env::var("PKFACTS_OUT") {
            Ok(d) => d,
            Err(_) => return Compilation::Continue,
        };
        let krate = tcx.crate_name(rustc_span::def_id::LOCAL_CRATE).to_string();
        let crate_types: Vec<String> =
            tcx.crate_types().iter().map(|t| format!("{:?}", t)).collect();
        let is_test = tcx.sess.opts.test;
        let kind = if is_test {
            "test"
        } else if crate_types.iter().any(|t| t == "Executable") {
            "bin"
        } else {
            "lib"
        };
        // src path of the crate root distinguishes integration tests
        let root_file = {
            let sp = tcx.def_span(rustc_span::def_id::CRATE_DEF_ID.to_def_id());
            mirx::span_file(tcx, sp)
        };

        let bodies = mirx::export_bodies(tcx);
        let hir = hirx::export_hir(tcx);
        let (types, impls, statics, adts) = typesx::export_types(tcx);

        let doc = J::obj(vec![
            ("crate", J::s(krate.clone())),
            ("kind", J::s(kind)),
            ("root_file", J::s(root_file.clone())),
            ("crate_types", J::Arr(crate_types.into_iter().map(J::s).collect())),
            ("bodies", bodies),
            ("hir", hir),
            ("types", types),
            ("adts", adts),
            ("impls", impls),
            ("statics", statics),
        ]);
        let mut s = String::new();
        doc.write(&mut s);
        let stem = root_file.replace('/', "_").replace(".rs", "");
        let fname = format!("{}/{}-{}-{}.json", out_dir, krate, kind, stem);
        let tmp = format!("{}.tmp{}", fname, std::process::id());
        std::fs::write(&tmp, s).expect("pkfacts: cannot write facts");
        std::fs::rename(&tmp, &fname).expect("pkfacts: cannot rename facts");
        Compilation::Continue
    }
}

fn main() {
    let mut args: Vec<String> = std::env::args().collect();
    // RUSTC_WORKSPACE_WRAPPER passes the real rustc as argv[1]
    if args.len() > 1 && (args[1].ends_with("rustc") || args[1].contains("/rustc")) {
        args.remove(1);
    }
    rustc_driver::run_compiler(&args, &mut Cb);
}
