// MIR export.
use crate::json::J;
use rustc_hir::def::DefKind;
use rustc_hir::def_id::DefId;
use rustc_middle::mir::{
    self, AggregateKind, BasicBlockData, Body, Const, Operand, Place, ProjectionElem, Rvalue,
    StatementKind, TerminatorKind,
};
use rustc_middle::ty::{self, Ty, TyCtxt, TypingEnv};
use rustc_span::Span;

pub fn ty_str<'tcx>(ty: Ty<'tcx>) -> String {
    ty::print::with_no_trimmed_paths!(format!("{}", ty))
}

pub fn span_file<'tcx>(tcx: TyCtxt<'tcx>, sp: Span) -> String {
    let sm = tcx.sess.source_map();
    let loc = sm.lookup_char_pos(sp.lo());
    let name = format!("{}", loc.file.name.prefer_local_unconditionally());
    name
}

pub fn span_json<'tcx>(tcx: TyCtxt<'tcx>, sp: Span) -> J {
    let sm = tcx.sess.source_map();
    let call = sp.source_callsite();
    let loc = sm.lookup_char_pos(call.lo());
    let file = format!("{}", loc.file.name.prefer_local_unconditionally());
    let mut v = vec![
        ("file", J::s(file)),
        ("line", J::Int(loc.line as i128)),
        ("col", J::Int(loc.col.0 as i128 + 1)),
    ];
    if sp.from_expansion() {
        let ed = sp.ctxt().outer_expn_data();
        let name = match ed.kind {
            rustc_span::ExpnKind::Macro(_, sym) => format!("macro:{}", sym),
            rustc_span::ExpnKind::Desugaring(k) => format!("desugar:{:?}", k),
            rustc_span::ExpnKind::AstPass(k) => format!("astpass:{:?}", k),
            rustc_span::ExpnKind::Root => "root".to_string(),
        };
        v.push(("exp", J::s(name)));
        // the whole macro backtrace, innermost first (e.g. assert <- debug_assert)
        let mut chain: Vec<J> = Vec::new();
        for ed in sp.macro_backtrace().take(8) {
            if let rustc_span::ExpnKind::Macro(_, sym) = ed.kind {
                chain.push(J::s(format!("{}", sym)));
            }
        }
        if chain.len() > 1 {
            v.push(("exps", J::Arr(chain)));
        }
    }
    J::obj(v)
}

pub fn canon_path<'tcx>(tcx: TyCtxt<'tcx>, did: DefId) -> String {
    format!("{}{}", tcx.crate_name(did.krate), tcx.def_path(did).to_string_no_crate_verbose())
}

pub fn def_path<'tcx>(tcx: TyCtxt<'tcx>, did: DefId) -> String {
    ty::print::with_no_trimmed_paths!(tcx.def_path_str(did))
}

struct Cx<'tcx, 'a> {
    tcx: TyCtxt<'tcx>,
    body: &'a Body<'tcx>,
    env: TypingEnv<'tcx>,
}

impl<'tcx, 'a> Cx<'tcx, 'a> {
    fn place(&self, p: &Place<'tcx>) -> J {
        let tcx = self.tcx;
        let mut pty = mir::PlaceTy::from_ty(self.body.local_decls[p.local].ty);
        let mut projs = Vec::new();
        for elem in p.projection.iter() {
            let j = match elem {
                ProjectionElem::Deref => J::s("deref"),
                ProjectionElem::Field(f, fty) => {
                    let mut name: Option<String> = None;
                    if let ty::Adt(adt, _) = pty.ty.kind() {
                        let vi = pty.variant_index.unwrap_or(rustc_abi::FIRST_VARIANT);
                        if vi.as_usize() < adt.variants().len() {
                            let v = adt.variant(vi);
                            if f.as_usize() < v.fields.len() {
                                name = Some(v.fields[f].name.to_string());
                            }
                        }
                    }
                    J::obj(vec![
                        ("f", J::Int(f.as_usize() as i128)),
                        ("n", J::opt_s(name)),
                        ("of", J::s(ty_str(pty.ty))),
                        ("ty", J::s(ty_str(fty))),
                    ])
                }
                ProjectionElem::Index(l) => J::obj(vec![("idx", J::Int(l.as_usize() as i128))]),
                ProjectionElem::ConstantIndex { offset, min_length, from_end } => J::obj(vec![
                    ("cidx", J::Int(offset as i128)),
                    ("min_length", J::Int(min_length as i128)),
                    ("from_end", J::Bool(from_end)),
                ]),
                ProjectionElem::Subslice { from, to, from_end } => J::obj(vec![
                    ("subslice", J::Int(from as i128)),
                    ("to", J::Int(to as i128)),
                    ("from_end", J::Bool(from_end)),
                ]),
                ProjectionElem::Downcast(name, vi) => J::obj(vec![
                    ("downcast", J::opt_s(name.map(|s| s.to_string()))),
                    ("vi", J::Int(vi.as_usize() as i128)),
                ]),
                other => J::obj(vec![("otherproj", J::s(format!("{:?}", other)))]),
            };
            projs.push(j);
            pty = pty.projection_ty(tcx, elem);
        }
        J::obj(vec![
            ("l", J::Int(p.local.as_usize() as i128)),
            ("p", J::Arr(projs)),
            ("ty", J::s(ty_str(pty.ty))),
        ])
    }

    fn fn_def(&self, did: DefId, args: ty::GenericArgsRef<'tcx>) -> Vec<(&'static str, J)> {
        let tcx = self.tcx;
        let mut v = vec![
            ("fn", J::s(def_path(tcx, did))),
            ("fn_canon", J::s(canon_path(tcx, did))),
            ("fn_local", J::Bool(did.is_local())),
            (
                "gargs",
                J::Arr(args.iter().map(|a| J::s(ty::print::with_no_trimmed_paths!(format!("{}", a)))).collect()),
            ),
        ];
        // closure / fn-item generic args that name closures: give their def paths
        let mut closures = Vec::new();
        for a in args.iter() {
            if let Some(t) = a.as_type() {
                match t.kind() {
                    ty::Closure(cd, _) => closures.push(J::s(def_path(tcx, *cd))),
                    ty::FnDef(fd, _) => closures.push(J::s(def_path(tcx, *fd))),
                    _ => {}
                }
            }
        }
        if !closures.is_empty() {
            v.push(("garg_fns", J::Arr(closures)));
        }
        // trait method?
        if let Some(tr) = tcx.trait_of_assoc(did) {
            v.push(("trait", J::s(def_path(tcx, tr))));
            v.push(("trait_canon", J::s(canon_path(tcx, tr))));
            if let Some(a0) = args.iter().next().and_then(|a| a.as_type()) {
                v.push(("self_ty", J::s(ty_str(a0))));
            }
        }
        match ty::Instance::try_resolve(tcx, self.env, did, args) {
            Ok(Some(inst)) => {
                let rd = inst.def_id();
                v.push(("resolved", J::s(def_path(tcx, rd))));
                v.push(("resolved_canon", J::s(canon_path(tcx, rd))));
                v.push(("resolved_local", J::Bool(rd.is_local())));
                v.push(("resolved_kind", J::s(format!("{:?}", inst.def).split('(').next().unwrap_or("").to_string())));
            }
            _ => {}
        }
        v
    }

    fn constant(&self, c: &mir::ConstOperand<'tcx>) -> J {
        let tcx = self.tcx;
        let ty = c.const_.ty();
        let mut v: Vec<(&str, J)> = vec![("k", J::s("const")), ("ty", J::s(ty_str(ty)))];
        match ty.kind() {
            ty::FnDef(did, args) => {
                v.extend(self.fn_def(*did, args));
                return J::obj(v);
            }
            ty::Closure(did, _) => {
                v.push(("closure", J::s(def_path(tcx, *did))));
                return J::obj(v);
            }
            _ => {}
        }
        if let Const::Unevaluated(uv, _) = c.const_ {
            v.push(("uneval", J::s(def_path(tcx, uv.def))));
            if uv.promoted.is_some() {
                v.push(("promoted", J::Int(uv.promoted.unwrap().as_usize() as i128)));
            }
        }
        if ty.is_primitive() {
            if let Some(si) = c.const_.try_eval_scalar_int(tcx, self.env) {
                let size = si.size();
                let bits = si.to_bits(size);
                match ty.kind() {
                    ty::Bool => v.push(("bool", J::Bool(bits != 0))),
                    ty::Char => v.push(("char", J::Int(bits as i128))),
                    ty::Int(_) => {
                        let sv = size.sign_extend(bits);
                        v.push(("int", J::s(format!("{}", sv as i128))));
                    }
                    ty::Uint(_) => v.push(("int", J::s(format!("{}", bits)))),
                    ty::Float(ft) => {
                        v.push(("bits", J::s(format!("{}", bits))));
                        let w = match ft {
                            ty::FloatTy::F32 => {
                                v.push(("f", J::s(format!("{:?}", f32::from_bits(bits as u32)))));
                                32
                            }
                            ty::FloatTy::F64 => {
                                v.push(("f", J::s(format!("{:?}", f64::from_bits(bits as u64)))));
                                64
                            }
                            _ => 0,
                        };
                        v.push(("fw", J::Int(w)));
                    }
                    _ => {}
                }
                return J::obj(v);
            }
        }
        // &str and byte slices
        if let ty::Ref(_, inner, _) = ty.kind() {
            if inner.is_str() {
                if let Const::Val(val, _) = c.const_ {
                    if let Some(bytes) = val.try_get_slice_bytes_for_diagnostics(tcx) {
                        v.push(("str", J::s(String::from_utf8_lossy(bytes).to_string())));
                        return J::obj(v);
                    }
                }
                if let Ok(val) = c.const_.eval(tcx, self.env, c.span) {
                    if let Some(bytes) = val.try_get_slice_bytes_for_diagnostics(tcx) {
                        v.push(("str", J::s(String::from_utf8_lossy(bytes).to_string())));
                        return J::obj(v);
                    }
                }
            }
        }
        // a reference to a static item: which one
        if let Const::Val(mir::ConstValue::Scalar(mir::interpret::Scalar::Ptr(ptr, _)), _) = c.const_ {
            let aid = ptr.provenance.alloc_id();
            if let Some(mir::interpret::GlobalAlloc::Static(sdid)) = tcx.try_get_global_alloc(aid) {
                v.push(("static", J::s(def_path(tcx, sdid))));
            }
        }
        v.push(("dbg", J::s(ty::print::with_no_trimmed_paths!(format!("{}", c.const_)))));
        J::obj(v)
    }

    fn operand(&self, o: &Operand<'tcx>) -> J {
        match o {
            Operand::Copy(p) => {
                let mut j = self.place(p);
                if let J::Obj(ref mut v) = j {
                    v.insert(0, ("k".to_string(), J::s("copy")));
                }
                j
            }
            Operand::Move(p) => {
                let mut j = self.place(p);
                if let J::Obj(ref mut v) = j {
                    v.insert(0, ("k".to_string(), J::s("move")));
                }
                j
            }
            Operand::Constant(c) => self.constant(c),
            other => J::obj(vec![("k", J::s("otherop")), ("dbg", J::s(format!("{:?}", other)))]),
        }
    }

    fn rvalue(&self, r: &Rvalue<'tcx>) -> J {
        let tcx = self.tcx;
        match r {
            Rvalue::Use(o, ..) => J::obj(vec![("r", J::s("use")), ("a", self.operand(o))]),
            Rvalue::Repeat(o, n) => J::obj(vec![
                ("r", J::s("repeat")),
                ("a", self.operand(o)),
                ("n", J::s(format!("{}", n))),
            ]),
            Rvalue::Ref(_, bk, p) => J::obj(vec![
                ("r", J::s("ref")),
                ("mut", J::Bool(matches!(bk, mir::BorrowKind::Mut { .. }))),
                ("bk", J::s(format!("{:?}", bk))),
                ("place", self.place(p)),
            ]),
            Rvalue::RawPtr(k, p) => J::obj(vec![
                ("r", J::s("rawptr")),
                ("kind", J::s(format!("{:?}", k))),
                ("place", self.place(p)),
            ]),
            Rvalue::Cast(k, o, t) => J::obj(vec![
                ("r", J::s("cast")),
                ("kind", J::s(format!("{:?}", k))),
                ("a", self.operand(o)),
                ("to", J::s(ty_str(*t))),
            ]),
            Rvalue::BinaryOp(op, ab) => J::obj(vec![
                ("r", J::s("binop")),
                ("op", J::s(format!("{:?}", op))),
                ("a", self.operand(&ab.0)),
                ("b", self.operand(&ab.1)),
            ]),
            Rvalue::UnaryOp(op, o) => J::obj(vec![
                ("r", J::s("unop")),
                ("op", J::s(format!("{:?}", op))),
                ("a", self.operand(o)),
            ]),
            Rvalue::Discriminant(p) => {
                J::obj(vec![("r", J::s("discr")), ("place", self.place(p))])
            }
            Rvalue::Aggregate(kind, ops) => {
                let mut v = vec![("r", J::s("aggr"))];
                match &**kind {
                    AggregateKind::Array(t) => {
                        v.push(("agg", J::s("array")));
                        v.push(("elem_ty", J::s(ty_str(*t))));
                    }
                    AggregateKind::Tuple => v.push(("agg", J::s("tuple"))),
                    AggregateKind::Adt(did, vi, _args, _, active) => {
                        v.push(("agg", J::s("adt")));
                        v.push(("adt", J::s(def_path(tcx, *did))));
                        let adt = tcx.adt_def(*did);
                        let var = adt.variant(*vi);
                        v.push(("variant", J::s(var.name.to_string())));
                        v.push(("vi", J::Int(vi.as_usize() as i128)));
                        let names: Vec<J> = match active {
                            Some(fi) => vec![J::s(var.fields[*fi].name.to_string())],
                            None => var.fields.iter().map(|f| J::s(f.name.to_string())).collect(),
                        };
                        v.push(("fields", J::Arr(names)));
                    }
                    AggregateKind::Closure(did, _) => {
                        v.push(("agg", J::s("closure")));
                        v.push(("closure", J::s(def_path(tcx, *did))));
                    }
                    other => {
                        v.push(("agg", J::s("other")));
                        v.push(("dbg", J::s(format!("{:?}", other))));
                    }
                }
                v.push(("ops", J::Arr(ops.iter().map(|o| self.operand(o)).collect())));
                J::obj(v)
            }
            Rvalue::CopyForDeref(p) => {
                J::obj(vec![("r", J::s("use")), ("cfd", J::Bool(true)), ("a", {
                    let mut j = self.place(p);
                    if let J::Obj(ref mut v) = j {
                        v.insert(0, ("k".to_string(), J::s("copy")));
                    }
                    j
                })])
            }
            other => J::obj(vec![("r", J::s("other")), ("dbg", J::s(format!("{:?}", other)))]),
        }
    }

    fn block(&self, bb: &BasicBlockData<'tcx>) -> J {
        let tcx = self.tcx;
        let mut stmts = Vec::new();
        for s in bb.statements.iter() {
            match &s.kind {
                StatementKind::Assign(b) => {
                    let (p, r) = &**b;
                    stmts.push(J::obj(vec![
                        ("s", J::s("assign")),
                        ("place", self.place(p)),
                        ("rv", self.rvalue(r)),
                        ("span", span_json(tcx, s.source_info.span)),
                    ]));
                }
                StatementKind::SetDiscriminant { place, variant_index } => {
                    stmts.push(J::obj(vec![
                        ("s", J::s("setdiscr")),
                        ("place", self.place(place)),
                        ("vi", J::Int(variant_index.as_usize() as i128)),
                        ("span", span_json(tcx, s.source_info.span)),
                    ]));
                }
                StatementKind::StorageLive(_)
                | StatementKind::StorageDead(_)
                | StatementKind::Nop
                | StatementKind::FakeRead(..)
                | StatementKind::AscribeUserType(..)
                | StatementKind::Coverage(..)
                | StatementKind::PlaceMention(..)
                | StatementKind::ConstEvalCounter => {}
                StatementKind::Intrinsic(i) => {
                    stmts.push(J::obj(vec![
                        ("s", J::s("intrinsic")),
                        ("dbg", J::s(format!("{:?}", i))),
                        ("span", span_json(tcx, s.source_info.span)),
                    ]));
                }
                other => {
                    stmts.push(J::obj(vec![
                        ("s", J::s("other")),
                        ("dbg", J::s(format!("{:?}", other))),
                        ("span", span_json(tcx, s.source_info.span)),
                    ]));
                }
            }
        }
        let term = bb.terminator();
        let tspan = span_json(tcx, term.source_info.span);
        let bbi = |b: mir::BasicBlock| J::Int(b.as_usize() as i128);
        let unw = |u: &mir::UnwindAction| match u {
            mir::UnwindAction::Cleanup(b) => J::Int(b.as_usize() as i128),
            _ => J::Null,
        };
        let t = match &term.kind {
            TerminatorKind::Goto { target } => {
                J::obj(vec![("t", J::s("goto")), ("target", bbi(*target)), ("span", tspan)])
            }
            TerminatorKind::SwitchInt { discr, targets } => {
                let mut arms = Vec::new();
                for (val, b) in targets.iter() {
                    arms.push(J::Arr(vec![J::s(format!("{}", val)), bbi(b)]));
                }
                J::obj(vec![
                    ("t", J::s("switch")),
                    ("discr", self.operand(discr)),
                    ("arms", J::Arr(arms)),
                    ("otherwise", bbi(targets.otherwise())),
                    ("span", tspan),
                ])
            }
            TerminatorKind::Return => J::obj(vec![("t", J::s("return")), ("span", tspan)]),
            TerminatorKind::Unreachable => {
                J::obj(vec![("t", J::s("unreachable")), ("span", tspan)])
            }
            TerminatorKind::UnwindResume => J::obj(vec![("t", J::s("resume")), ("span", tspan)]),
            TerminatorKind::UnwindTerminate(_) => {
                J::obj(vec![("t", J::s("terminate")), ("span", tspan)])
            }
            TerminatorKind::Drop { place, target, unwind, .. } => J::obj(vec![
                ("t", J::s("drop")),
                ("place", self.place(place)),
                ("target", bbi(*target)),
                ("unwind", unw(unwind)),
                ("span", tspan),
            ]),
            TerminatorKind::Call { func, args, destination, target, unwind, fn_span, .. } => {
                let mut v = vec![("t", J::s("call"))];
                v.push(("func", self.operand(func)));
                v.push(("args", J::Arr(args.iter().map(|a| self.operand(&a.node)).collect())));
                v.push(("dest", self.place(destination)));
                v.push(("target", match target {
                    Some(b) => bbi(*b),
                    None => J::Null,
                }));
                v.push(("unwind", unw(unwind)));
                v.push(("span", tspan));
                v.push(("fn_span", span_json(tcx, *fn_span)));
                J::obj(v)
            }
            TerminatorKind::TailCall { func, args, .. } => J::obj(vec![
                ("t", J::s("tailcall")),
                ("func", self.operand(func)),
                ("args", J::Arr(args.iter().map(|a| self.operand(&a.node)).collect())),
                ("span", tspan),
            ]),
            TerminatorKind::Assert { cond, expected, msg, target, unwind } => {
                let kind = format!("{:?}", msg);
                let kind_short = kind.split('(').next().unwrap_or("").to_string();
                let mut ops = Vec::new();
                use rustc_middle::mir::AssertKind as AK;
                match &**msg {
                    AK::BoundsCheck { len, index } => {
                        ops.push(self.operand(len));
                        ops.push(self.operand(index));
                    }
                    AK::Overflow(_, a, b) => {
                        ops.push(self.operand(a));
                        ops.push(self.operand(b));
                    }
                    AK::OverflowNeg(a) | AK::DivisionByZero(a) | AK::RemainderByZero(a) => {
                        ops.push(self.operand(a));
                    }
                    _ => {}
                }
                let binop = match &**msg {
                    AK::Overflow(op, ..) => J::s(format!("{:?}", op)),
                    _ => J::Null,
                };
                J::obj(vec![
                    ("t", J::s("assert")),
                    ("cond", self.operand(cond)),
                    ("expected", J::Bool(*expected)),
                    ("kind", J::s(kind_short)),
                    ("binop", binop),
                    ("ops", J::Arr(ops)),
                    ("target", bbi(*target)),
                    ("unwind", unw(unwind)),
                    ("span", tspan),
                ])
            }
            TerminatorKind::FalseEdge { real_target, .. } => {
                J::obj(vec![("t", J::s("goto")), ("target", bbi(*real_target)), ("span", tspan)])
            }
            TerminatorKind::FalseUnwind { real_target, .. } => {
                J::obj(vec![("t", J::s("goto")), ("target", bbi(*real_target)), ("span", tspan)])
            }
            other => J::obj(vec![
                ("t", J::s("other")),
                ("dbg", J::s(format!("{:?}", other))),
                ("span", tspan),
            ]),
        };
        J::obj(vec![
            ("stmts", J::Arr(stmts)),
            ("term", t),
            ("cleanup", J::Bool(bb.is_cleanup)),
        ])
    }
}

pub fn parent_impl_info<'tcx>(tcx: TyCtxt<'tcx>, did: DefId) -> Vec<(&'static str, J)> {
    // walk parents to the nearest impl/trait
    let mut v = Vec::new();
    let mut cur = did;
    loop {
        match tcx.def_kind(cur) {
            DefKind::Impl { of_trait } => {
                v.push(("impl", J::s(def_path(tcx, cur))));
                let self_ty = tcx.type_of(cur).instantiate_identity().skip_norm_wip();
                v.push(("impl_self", J::s(ty_str(self_ty))));
                if let ty::Adt(adt, _) = self_ty.kind() {
                    v.push(("impl_self_adt", J::s(def_path(tcx, adt.did()))));
                }
                if of_trait {
                    let tr = tcx.impl_trait_ref(cur).instantiate_identity().skip_norm_wip();
                    v.push(("impl_trait", J::s(def_path(tcx, tr.def_id))));
                    v.push(("impl_trait_canon", J::s(canon_path(tcx, tr.def_id))));
                    v.push(("impl_trait_full", J::s(ty::print::with_no_trimmed_paths!(format!("{}", tr)))));
                }
                v.push(("derived", J::Bool(tcx.is_automatically_derived(cur))));
                break;
            }
            DefKind::Trait => {
                v.push(("in_trait", J::s(def_path(tcx, cur))));
                break;
            }
            DefKind::Mod => break,
            _ => {}
        }
        match tcx.opt_parent(cur) {
            Some(p) => cur = p,
            None => break,
        }
    }
    v
}

pub fn export_bodies<'tcx>(tcx: TyCtxt<'tcx>) -> J {
    let mut out = Vec::new();
    for id in tcx.mir_keys(()) {
        let did = id.to_def_id();
        let dk = tcx.def_kind(did);
        let is_const = matches!(dk, DefKind::Const { .. } | DefKind::AssocConst { .. } | DefKind::Static { .. });
        if !matches!(dk, DefKind::Fn | DefKind::AssocFn | DefKind::Closure) && !is_const {
            continue;
        }
        // named constants / statics: their initialiser (the rule engine evaluates tables such as `const RULES: [Rule; 2]`)
        let body: &Body<'tcx> = if is_const { tcx.mir_for_ctfe(did) } else { tcx.optimized_mir(did) };
        let env = TypingEnv::post_analysis(tcx, did);
        let cx = Cx { tcx, body, env };
        let mut v: Vec<(&str, J)> = vec![
            ("path", J::s(def_path(tcx, did))),
            ("canon", J::s(canon_path(tcx, did))),
            ("def_kind", J::s(format!("{:?}", dk))),
            ("span", span_json(tcx, tcx.def_span(did))),
            ("arg_count", J::Int(body.arg_count as i128)),
        ];
        if matches!(dk, DefKind::Fn | DefKind::AssocFn) {
            v.push(("vis", J::s(format!("{:?}", tcx.visibility(did)))));
        }
        if let Some(p) = tcx.opt_parent(did) {
            v.push(("parent", J::s(def_path(tcx, p))));
        }
        if matches!(dk, DefKind::Closure) {
            // the enclosing fn
            let tb = tcx.typeck_root_def_id(did);
            v.push(("closure_of", J::s(def_path(tcx, tb))));
        }
        v.extend(parent_impl_info(tcx, did));
        // locals
        let mut names: Vec<Option<String>> = vec![None; body.local_decls.len()];
        let mut dbg = Vec::new();
        for vdi in body.var_debug_info.iter() {
            if let mir::VarDebugInfoContents::Place(p) = &vdi.value {
                if p.projection.is_empty() {
                    names[p.local.as_usize()] = Some(vdi.name.to_string());
                }
                dbg.push(J::obj(vec![("name", J::s(vdi.name.to_string())), ("place", cx.place(p))]));
            }
        }
        let mut locals = Vec::new();
        for (i, ld) in body.local_decls.iter_enumerated() {
            let mut lv = vec![
                ("ty", J::s(ty_str(ld.ty))),
                ("name", J::opt_s(names[i.as_usize()].clone())),
                ("mut", J::Bool(ld.mutability.is_mut())),
            ];
            match ld.ty.kind() {
                ty::Closure(cd, _) => lv.push(("closure", J::s(def_path(tcx, *cd)))),
                ty::FnDef(fd, _) => lv.push(("fndef", J::s(def_path(tcx, *fd)))),
                ty::Adt(adt, _) => lv.push(("adt", J::s(def_path(tcx, adt.did())))),
                ty::Ref(_, inner, _) => match inner.kind() {
                    ty::Adt(adt, _) => lv.push(("ref_adt", J::s(def_path(tcx, adt.did())))),
                    ty::Closure(cd, _) => lv.push(("ref_closure", J::s(def_path(tcx, *cd)))),
                    _ => {}
                },
                _ => {}
            }
            locals.push(J::obj(lv));
        }
        v.push(("locals", J::Arr(locals)));
        v.push(("debug", J::Arr(dbg)));
        let blocks: Vec<J> = body.basic_blocks.iter().map(|bb| cx.block(bb)).collect();
        v.push(("blocks", J::Arr(blocks)));
        // promoted bodies (constants like &[true,true,true])
        let mut proms = Vec::new();
        for (pi, pb) in tcx.promoted_mir(did).iter_enumerated() {
            let pcx = Cx { tcx, body: pb, env };
            let mut plocals = Vec::new();
            for ld in pb.local_decls.iter() {
                plocals.push(J::obj(vec![("ty", J::s(ty_str(ld.ty)))]));
            }
            proms.push(J::obj(vec![
                ("index", J::Int(pi.as_usize() as i128)),
                ("locals", J::Arr(plocals)),
                ("blocks", J::Arr(pb.basic_blocks.iter().map(|bb| pcx.block(bb)).collect())),
            ]));
        }
        v.push(("promoted", J::Arr(proms)));
        out.push(J::obj(v));
    }
    J::Arr(out)
}
