// HIR export: one simplified expression tree per fn body (used for literal tables and
// for structural idiom recognition where MIR is too lowered), plus attributes of ADTs/fields.
use crate::json::J;
use crate::mirx::{def_path, span_json, ty_str};
use rustc_hir as hir;
use rustc_hir::def::{DefKind, Res};
use rustc_middle::ty::{TyCtxt, TypeckResults};

struct Hx<'tcx> {
    tcx: TyCtxt<'tcx>,
    tr: &'tcx TypeckResults<'tcx>,
    depth: usize,
}

impl<'tcx> Hx<'tcx> {
    fn res(&self, r: Res) -> J {
        match r {
            Res::Def(k, did) => J::obj(vec![
                ("def", J::s(def_path(self.tcx, did))),
                ("dk", J::s(format!("{:?}", k).split('(').next().unwrap_or("").to_string())),
            ]),
            Res::Local(id) => {
                J::obj(vec![("local", J::s(self.tcx.hir_name(id).to_string()))])
            }
            Res::SelfCtor(_) | Res::SelfTyAlias { .. } | Res::SelfTyParam { .. } => {
                J::obj(vec![("self", J::Bool(true))])
            }
            other => J::obj(vec![("otherres", J::s(format!("{:?}", other)))]),
        }
    }

    fn qpath(&self, q: &hir::QPath<'tcx>, id: hir::HirId) -> J {
        let r = self.tr.qpath_res(q, id);
        let mut j = self.res(r);
        if let J::Obj(ref mut v) = j {
            let txt = match q {
                hir::QPath::Resolved(_, p) => {
                    p.segments.iter().map(|s| s.ident.to_string()).collect::<Vec<_>>().join("::")
                }
                hir::QPath::TypeRelative(_, seg) => format!("<_>::{}", seg.ident),
            };
            v.push(("text".to_string(), J::s(txt)));
        }
        j
    }

    fn pat(&mut self, p: &hir::Pat<'tcx>) -> J {
        use hir::PatKind as P;
        match &p.kind {
            P::Wild => J::obj(vec![("p", J::s("wild"))]),
            P::Binding(_, _, ident, sub) => J::obj(vec![
                ("p", J::s("bind")),
                ("name", J::s(ident.to_string())),
                ("sub", match sub {
                    Some(s) => self.pat(s),
                    None => J::Null,
                }),
            ]),
            P::Struct(q, fields, _) => J::obj(vec![
                ("p", J::s("struct")),
                ("path", self.qpath(q, p.hir_id)),
                (
                    "fields",
                    J::Arr(
                        fields
                            .iter()
                            .map(|f| J::obj(vec![("name", J::s(f.ident.to_string())), ("pat", self.pat(f.pat))]))
                            .collect(),
                    ),
                ),
            ]),
            P::TupleStruct(q, pats, _) => J::obj(vec![
                ("p", J::s("tstruct")),
                ("path", self.qpath(q, p.hir_id)),
                ("pats", J::Arr(pats.iter().map(|x| self.pat(x)).collect())),
            ]),
            P::Or(pats) => J::obj(vec![
                ("p", J::s("or")),
                ("pats", J::Arr(pats.iter().map(|x| self.pat(x)).collect())),
            ]),
            P::Tuple(pats, _) => J::obj(vec![
                ("p", J::s("tuple")),
                ("pats", J::Arr(pats.iter().map(|x| self.pat(x)).collect())),
            ]),
            P::Ref(inner, ..) | P::Box(inner) | P::Deref(inner) => {
                J::obj(vec![("p", J::s("ref")), ("pat", self.pat(inner))])
            }
            P::Expr(pe) => J::obj(vec![("p", J::s("expr")), ("e", self.pat_expr(pe))]),
            P::Range(a, b, end) => J::obj(vec![
                ("p", J::s("range")),
                ("lo", match a {
                    Some(a) => self.pat_expr(a),
                    None => J::Null,
                }),
                ("hi", match b {
                    Some(b) => self.pat_expr(b),
                    None => J::Null,
                }),
                ("end", J::s(format!("{:?}", end))),
            ]),
            other => J::obj(vec![
                ("p", J::s("other")),
                ("dbg", J::s(format!("{:?}", other).chars().take(80).collect::<String>())),
            ]),
        }
    }

    fn pat_expr(&mut self, pe: &hir::PatExpr<'tcx>) -> J {
        match &pe.kind {
            hir::PatExprKind::Lit { lit, negated } => {
                let mut j = self.lit(lit);
                if let J::Obj(ref mut v) = j {
                    v.push(("negated".to_string(), J::Bool(*negated)));
                }
                j
            }
            hir::PatExprKind::Path(q) => {
                let mut j = self.qpath(q, pe.hir_id);
                if let J::Obj(ref mut v) = j {
                    v.insert(0, ("k".to_string(), J::s("path")));
                }
                j
            }
            other => J::obj(vec![
                ("k", J::s("otherpatexpr")),
                ("dbg", J::s(format!("{:?}", other).chars().take(80).collect::<String>())),
            ]),
        }
    }

    fn lit(&self, l: &hir::Lit) -> J {
        use rustc_ast::LitKind as L;
        match &l.node {
            L::Str(s, _) => J::obj(vec![("k", J::s("lit")), ("lt", J::s("str")), ("v", J::s(s.to_string()))]),
            L::Char(c) => J::obj(vec![("k", J::s("lit")), ("lt", J::s("char")), ("v", J::s(c.to_string()))]),
            L::Int(n, _) => J::obj(vec![("k", J::s("lit")), ("lt", J::s("int")), ("v", J::s(format!("{}", n.get())))]),
            L::Float(s, _) => J::obj(vec![("k", J::s("lit")), ("lt", J::s("float")), ("v", J::s(s.to_string()))]),
            L::Bool(b) => J::obj(vec![("k", J::s("lit")), ("lt", J::s("bool")), ("v", J::Bool(*b))]),
            L::ByteStr(b, _) => J::obj(vec![
                ("k", J::s("lit")),
                ("lt", J::s("bytestr")),
                ("v", J::Arr(b.as_byte_str().iter().map(|x| J::Int(*x as i128)).collect())),
            ]),
            other => J::obj(vec![("k", J::s("lit")), ("lt", J::s("other")), ("v", J::s(format!("{:?}", other)))]),
        }
    }

    fn block(&mut self, b: &hir::Block<'tcx>) -> J {
        let mut stmts = Vec::new();
        for s in b.stmts.iter() {
            match &s.kind {
                hir::StmtKind::Let(l) => stmts.push(J::obj(vec![
                    ("k", J::s("let")),
                    ("pat", self.pat(l.pat)),
                    ("init", match l.init {
                        Some(e) => self.expr(e),
                        None => J::Null,
                    }),
                    ("els", match l.els {
                        Some(b) => self.block(b),
                        None => J::Null,
                    }),
                ])),
                hir::StmtKind::Expr(e) | hir::StmtKind::Semi(e) => stmts.push(self.expr(e)),
                hir::StmtKind::Item(_) => {}
            }
        }
        J::obj(vec![
            ("k", J::s("block")),
            ("stmts", J::Arr(stmts)),
            ("expr", match b.expr {
                Some(e) => self.expr(e),
                None => J::Null,
            }),
        ])
    }

    fn expr(&mut self, e: &hir::Expr<'tcx>) -> J {
        self.depth += 1;
        let j = if self.depth > 200 { J::obj(vec![("k", J::s("toodeep"))]) } else { self.expr_inner(e) };
        self.depth -= 1;
        j
    }

    fn expr_inner(&mut self, e: &hir::Expr<'tcx>) -> J {
        use hir::ExprKind as E;
        let mut v: Vec<(&str, J)> = Vec::new();
        match &e.kind {
            E::Lit(l) => {
                let mut j = self.lit(l);
                if let J::Obj(ref mut o) = j {
                    o.push(("span".to_string(), span_json(self.tcx, e.span)));
                }
                return j;
            }
            E::Path(q) => {
                let mut j = self.qpath(q, e.hir_id);
                if let J::Obj(ref mut o) = j {
                    o.insert(0, ("k".to_string(), J::s("path")));
                }
                return j;
            }
            E::Call(f, args) => {
                v.push(("k", J::s("call")));
                v.push(("f", self.expr(f)));
                v.push(("args", J::Arr(args.iter().map(|a| self.expr(a)).collect())));
            }
            E::MethodCall(seg, recv, args, _) => {
                v.push(("k", J::s("mcall")));
                v.push(("name", J::s(seg.ident.to_string())));
                if let Some(did) = self.tr.type_dependent_def_id(e.hir_id) {
                    v.push(("callee", J::s(def_path(self.tcx, did))));
                }
                v.push(("recv", self.expr(recv)));
                v.push(("args", J::Arr(args.iter().map(|a| self.expr(a)).collect())));
            }
            E::Struct(q, fields, tail) => {
                v.push(("k", J::s("struct")));
                v.push(("path", self.qpath(q, e.hir_id)));
                v.push((
                    "fields",
                    J::Arr(
                        fields
                            .iter()
                            .map(|f| J::obj(vec![("name", J::s(f.ident.to_string())), ("e", self.expr(f.expr))]))
                            .collect(),
                    ),
                ));
                if let hir::StructTailExpr::Base(b) = tail {
                    v.push(("base", self.expr(b)));
                }
            }
            E::Array(xs) => {
                v.push(("k", J::s("array")));
                v.push(("elems", J::Arr(xs.iter().map(|a| self.expr(a)).collect())));
            }
            E::Tup(xs) => {
                v.push(("k", J::s("tup")));
                v.push(("elems", J::Arr(xs.iter().map(|a| self.expr(a)).collect())));
            }
            E::Binary(op, a, b) => {
                v.push(("k", J::s("binary")));
                v.push(("op", J::s(format!("{:?}", op.node))));
                v.push(("a", self.expr(a)));
                v.push(("b", self.expr(b)));
            }
            E::Unary(op, a) => {
                v.push(("k", J::s("unary")));
                v.push(("op", J::s(format!("{:?}", op))));
                v.push(("a", self.expr(a)));
            }
            E::Cast(a, _) | E::Type(a, _) => {
                v.push(("k", J::s("cast")));
                v.push(("a", self.expr(a)));
                v.push(("to", J::s(ty_str(self.tr.expr_ty(e)))));
            }
            E::DropTemps(a) | E::Use(a, _) => return self.expr(a),
            E::Let(l) => {
                v.push(("k", J::s("letexpr")));
                v.push(("pat", self.pat(l.pat)));
                v.push(("init", self.expr(l.init)));
            }
            E::If(c, t, f) => {
                v.push(("k", J::s("if")));
                v.push(("cond", self.expr(c)));
                v.push(("then", self.expr(t)));
                v.push(("else", match f {
                    Some(f) => self.expr(f),
                    None => J::Null,
                }));
            }
            E::Loop(b, _, src, _) => {
                v.push(("k", J::s("loop")));
                v.push(("source", J::s(format!("{:?}", src))));
                v.push(("body", self.block(b)));
            }
            E::Match(s, arms, src) => {
                v.push(("k", J::s("match")));
                v.push(("source", J::s(format!("{:?}", src).split('(').next().unwrap_or("").to_string())));
                v.push(("scrut", self.expr(s)));
                v.push(("scrut_ty", J::s(ty_str(self.tr.expr_ty(s)))));
                let mut av = Vec::new();
                for a in arms.iter() {
                    av.push(J::obj(vec![
                        ("pat", self.pat(a.pat)),
                        ("guard", match a.guard {
                            Some(g) => self.expr(g),
                            None => J::Null,
                        }),
                        ("body", self.expr(a.body)),
                    ]));
                }
                v.push(("arms", J::Arr(av)));
            }
            E::Closure(c) => {
                v.push(("k", J::s("closure")));
                v.push(("def", J::s(def_path(self.tcx, c.def_id.to_def_id()))));
                let body = self.tcx.hir_body(c.body);
                v.push(("params", J::Arr(body.params.iter().map(|p| self.pat(p.pat)).collect())));
                v.push(("body", self.expr(body.value)));
            }
            E::Block(b, _) => return {
                let mut j = self.block(b);
                if let J::Obj(ref mut o) = j {
                    o.push(("span".to_string(), span_json(self.tcx, e.span)));
                }
                j
            },
            E::Assign(a, b, _) => {
                v.push(("k", J::s("assign")));
                v.push(("a", self.expr(a)));
                v.push(("b", self.expr(b)));
            }
            E::AssignOp(op, a, b) => {
                v.push(("k", J::s("assignop")));
                v.push(("op", J::s(format!("{:?}", op.node))));
                v.push(("a", self.expr(a)));
                v.push(("b", self.expr(b)));
            }
            E::Field(a, ident) => {
                v.push(("k", J::s("field")));
                v.push(("name", J::s(ident.to_string())));
                v.push(("a", self.expr(a)));
            }
            E::Index(a, b, _) => {
                v.push(("k", J::s("index")));
                v.push(("a", self.expr(a)));
                v.push(("b", self.expr(b)));
            }
            E::AddrOf(_, m, a) => {
                v.push(("k", J::s("addrof")));
                v.push(("mut", J::Bool(m.is_mut())));
                v.push(("a", self.expr(a)));
            }
            E::Break(_, a) => {
                v.push(("k", J::s("break")));
                v.push(("a", match a {
                    Some(a) => self.expr(a),
                    None => J::Null,
                }));
            }
            E::Continue(_) => v.push(("k", J::s("continue"))),
            E::Ret(a) => {
                v.push(("k", J::s("ret")));
                v.push(("a", match a {
                    Some(a) => self.expr(a),
                    None => J::Null,
                }));
            }
            E::Repeat(a, _) => {
                v.push(("k", J::s("repeat")));
                v.push(("a", self.expr(a)));
            }
            other => {
                v.push(("k", J::s("other")));
                v.push(("dbg", J::s(format!("{:?}", other).chars().take(60).collect::<String>())));
            }
        }
        if let Some(t) = self.tr.expr_ty_opt(e) {
            v.push(("ty", J::s(ty_str(t))));
        }
        v.push(("span", span_json(self.tcx, e.span)));
        J::obj(v)
    }
}

pub fn attr_strings<'tcx>(tcx: TyCtxt<'tcx>, id: hir::HirId) -> Vec<J> {
    let mut out = Vec::new();
    for a in tcx.hir_attrs(id) {
        if let Some(s) = rustc_hir_pretty_attr(a) {
            out.push(J::s(s));
        }
    }
    out
}

fn rustc_hir_pretty_attr(a: &hir::Attribute) -> Option<String> {
    match a {
        hir::Attribute::Unparsed(item) => {
            let path = item.path.segments.iter().map(|s| s.to_string()).collect::<Vec<_>>().join("::");
            let args = match &item.args {
                hir::AttrArgs::Empty => String::new(),
                hir::AttrArgs::Delimited(d) => {
                    format!("({})", rustc_ast_pretty::pprust::tts_to_string(&d.tokens))
                }
                hir::AttrArgs::Eq { expr, .. } => format!(" = {:?}", expr.kind),
            };
            Some(format!("{}{}", path, args))
        }
        hir::Attribute::Parsed(k) => {
            let d = format!("{:?}", k);
            if d.starts_with("DocComment") {
                return None;
            }
            Some(d.chars().take(160).collect())
        }
    }
}

pub fn export_hir<'tcx>(tcx: TyCtxt<'tcx>) -> J {
    let mut out = Vec::new();
    for owner in tcx.hir_body_owners() {
        let did = owner.to_def_id();
        let dk = tcx.def_kind(did);
        if !matches!(dk, DefKind::Fn | DefKind::AssocFn) {
            continue;
        }
        let body = tcx.hir_body_owned_by(owner);
        let tr = tcx.typeck(owner);
        let mut hx = Hx { tcx, tr, depth: 0 };
        let params: Vec<J> = body.params.iter().map(|p| hx.pat(p.pat)).collect();
        let tree = hx.expr(body.value);
        out.push(J::obj(vec![
            ("path", J::s(def_path(tcx, did))),
            ("params", J::Arr(params)),
            ("body", tree),
        ]));
    }
    J::Arr(out)
}
