// Type graph, impls, statics and ADT/field attributes.
use crate::hirx::attr_strings;
use crate::json::J;
use crate::mirx::{canon_path, def_path, span_json, ty_str};
use rustc_hir::def::DefKind;
use rustc_middle::ty::{self, Ty, TyCtxt, TypingEnv};
use std::collections::BTreeMap;

struct Tg<'tcx> {
    tcx: TyCtxt<'tcx>,
    nodes: BTreeMap<String, J>,
}

impl<'tcx> Tg<'tcx> {
    fn visit(&mut self, t: Ty<'tcx>) -> String {
        let key = ty_str(t);
        if self.nodes.contains_key(&key) {
            return key;
        }
        self.nodes.insert(key.clone(), J::Null); // placeholder (cycle guard)
        let tcx = self.tcx;
        let node = match t.kind() {
            ty::Bool | ty::Char | ty::Int(_) | ty::Uint(_) | ty::Float(_) | ty::Str | ty::Never => {
                J::obj(vec![("kind", J::s("prim"))])
            }
            ty::Adt(adt, args) => {
                let mut variants = Vec::new();
                for v in adt.variants().iter() {
                    let mut fields = Vec::new();
                    for f in v.fields.iter() {
                        let fty = f.ty(tcx, args);
                        let fk = self.visit(fty);
                        fields.push(J::obj(vec![
                            ("name", J::s(f.name.to_string())),
                            ("ty", J::s(fk)),
                            ("vis", J::s(format!("{:?}", f.vis).split('(').next().unwrap_or("").to_string())),
                        ]));
                    }
                    variants.push(J::obj(vec![("name", J::s(v.name.to_string())), ("fields", J::Arr(fields))]));
                }
                let targs: Vec<J> = args
                    .iter()
                    .filter_map(|a| a.as_type())
                    .map(|a| {
                        let k = self.visit(a);
                        J::s(k)
                    })
                    .collect();
                J::obj(vec![
                    ("kind", J::s("adt")),
                    ("path", J::s(def_path(tcx, adt.did()))),
                    ("canon", J::s(canon_path(tcx, adt.did()))),
                    ("local", J::Bool(adt.did().is_local())),
                    ("adt_kind", J::s(format!("{:?}", adt.adt_kind()))),
                    ("is_unsafe_cell", J::Bool(adt.is_unsafe_cell())),
                    ("is_box", J::Bool(adt.is_box())),
                    ("is_phantom", J::Bool(adt.is_phantom_data())),
                    ("targs", J::Arr(targs)),
                    ("variants", J::Arr(variants)),
                ])
            }
            ty::Ref(_, inner, m) => {
                let k = self.visit(*inner);
                J::obj(vec![("kind", J::s("ref")), ("mut", J::Bool(m.is_mut())), ("inner", J::s(k))])
            }
            ty::RawPtr(inner, m) => {
                let k = self.visit(*inner);
                J::obj(vec![("kind", J::s("rawptr")), ("mut", J::Bool(m.is_mut())), ("inner", J::s(k))])
            }
            ty::Array(inner, _) | ty::Slice(inner) => {
                let k = self.visit(*inner);
                J::obj(vec![("kind", J::s("array")), ("inner", J::s(k))])
            }
            ty::Tuple(ts) => {
                let ks: Vec<J> = ts.iter().map(|x| J::s(self.visit(x))).collect();
                J::obj(vec![("kind", J::s("tuple")), ("elems", J::Arr(ks))])
            }
            ty::Param(_) => J::obj(vec![("kind", J::s("param"))]),
            ty::Alias(..) => J::obj(vec![("kind", J::s("alias"))]),
            ty::FnPtr(..) => J::obj(vec![("kind", J::s("fnptr"))]),
            ty::FnDef(..) => J::obj(vec![("kind", J::s("fndef"))]),
            ty::Closure(..) => J::obj(vec![("kind", J::s("closure"))]),
            ty::Dynamic(..) => J::obj(vec![("kind", J::s("dyn"))]),
            _ => J::obj(vec![("kind", J::s("other")), ("dbg", J::s(format!("{:?}", t.kind())))]),
        };
        self.nodes.insert(key.clone(), node);
        key
    }
}

pub fn export_types<'tcx>(tcx: TyCtxt<'tcx>) -> (J, J, J, J) {
    let mut tg = Tg { tcx, nodes: BTreeMap::new() };
    let mut impls = Vec::new();
    let mut statics = Vec::new();
    let mut adts = Vec::new();
    let items = tcx.hir_crate_items(());
    for ldid in items.definitions() {
        let did = ldid.to_def_id();
        match tcx.def_kind(did) {
            DefKind::Struct | DefKind::Enum | DefKind::Union => {
                let t = tcx.type_of(did).instantiate_identity().skip_norm_wip();
                let key = tg.visit(t);
                let adt = tcx.adt_def(did);
                let hid = tcx.local_def_id_to_hir_id(ldid);
                let mut fields = Vec::new();
                for v in adt.variants().iter() {
                    for f in v.fields.iter() {
                        let mut fv = vec![("variant", J::s(v.name.to_string())), ("name", J::s(f.name.to_string()))];
                        let fty = tcx.type_of(f.did).instantiate_identity().skip_norm_wip();
                        fv.push(("ty", J::s(format!("{}", fty))));
                        if let Some(fl) = f.did.as_local() {
                            let fh = tcx.local_def_id_to_hir_id(fl);
                            fv.push(("attrs", J::Arr(attr_strings(tcx, fh))));
                        }
                        fv.push(("vis", J::s(format!("{:?}", f.vis).split('(').next().unwrap_or("").to_string())));
                        fields.push(J::obj(fv));
                    }
                }
                // size in bytes of types without type parameters (lifetimes erased): bounds the length of a Vec of them
                let only_lifetimes = tcx
                    .generics_of(did)
                    .own_params
                    .iter()
                    .all(|p| matches!(p.kind, ty::GenericParamDefKind::Lifetime));
                let size: i64 = if only_lifetimes {
                    let t2 = tcx.erase_and_anonymize_regions(t);
                    match tcx.layout_of(TypingEnv::fully_monomorphized().as_query_input(t2)) {
                        Ok(l) => l.size.bytes() as i64,
                        Err(_) => -1,
                    }
                } else {
                    -1
                };
                adts.push(J::obj(vec![
                    ("path", J::s(def_path(tcx, did))),
                    ("size", J::Int(size as i128)),
                    ("ty", J::s(key)),
                    ("span", span_json(tcx, tcx.def_span(did))),
                    ("attrs", J::Arr(attr_strings(tcx, hid))),
                    ("fields", J::Arr(fields)),
                    (
                        "variants",
                        J::Arr(adt.variants().iter().map(|v| J::s(v.name.to_string())).collect()),
                    ),
                    // discriminant values of an enum (what `x as usize` yields), in variant order
                    (
                        "discrs",
                        J::Arr(if adt.is_enum() {
                            adt.discriminants(tcx).map(|(_, d)| J::Int(d.val as i128)).collect()
                        } else {
                            Vec::new()
                        }),
                    ),
                ]));
            }
            DefKind::Impl { of_trait } => {
                let self_ty = tcx.type_of(did).instantiate_identity().skip_norm_wip();
                let mut v = vec![
                    ("path", J::s(def_path(tcx, did))),
                    ("self_ty", J::s(ty_str(self_ty))),
                    ("span", span_json(tcx, tcx.def_span(did))),
                    ("derived", J::Bool(tcx.is_automatically_derived(did))),
                ];
                if let ty::Adt(adt, _) = self_ty.kind() {
                    v.push(("self_adt", J::s(def_path(tcx, adt.did()))));
                }
                if of_trait {
                    let hdr = tcx.impl_trait_header(did);
                    let tr = hdr.trait_ref.instantiate_identity().skip_norm_wip();
                    v.push(("trait", J::s(def_path(tcx, tr.def_id))));
                    v.push(("trait_canon", J::s(canon_path(tcx, tr.def_id))));
                    v.push(("unsafe", J::Bool(hdr.safety.is_unsafe())));
                    v.push(("polarity", J::s(format!("{:?}", hdr.polarity))));
                }
                let mut fns = Vec::new();
                for ai in tcx.associated_item_def_ids(did) {
                    if matches!(tcx.def_kind(*ai), DefKind::AssocFn) {
                        fns.push(J::s(def_path(tcx, *ai)));
                    }
                }
                v.push(("fns", J::Arr(fns)));
                impls.push(J::obj(v));
            }
            DefKind::Static { mutability, nested, .. } => {
                let t = tcx.type_of(did).instantiate_identity().skip_norm_wip();
                let env = TypingEnv::fully_monomorphized();
                statics.push(J::obj(vec![
                    ("path", J::s(def_path(tcx, did))),
                    ("ty", J::s(ty_str(t))),
                    ("mutable", J::Bool(mutability.is_mut())),
                    ("nested", J::Bool(nested)),
                    ("freeze", J::Bool(t.is_freeze(tcx, env))),
                    ("thread_local", J::Bool(tcx.is_thread_local_static(did))),
                    ("span", span_json(tcx, tcx.def_span(did))),
                ]));
            }
            _ => {}
        }
    }
    let types = J::Obj(tg.nodes.into_iter().collect());
    (types, J::Arr(impls), J::Arr(statics), J::Arr(adts))
}
