#!/bin/bash
# usage: run_probe.sh <outdir> [cargo target selectors...]
export LD_LIBRARY_PATH=$(rustc +nightly --print sysroot)/lib
out=$1; shift
mkdir -p $out
rm -rf /verif/.cache/target/debug/.fingerprint/packing-*
cd /repo && PKFACTS_OUT=$out RUSTFLAGS="-Zmir-opt-level=0 -Awarnings" RUSTC_WORKSPACE_WRAPPER=/verif/driver/target/release/pkfacts CARGO_TARGET_DIR=/verif/.cache/target CARGO_NET_OFFLINE=true cargo +nightly check --offline "${@:---lib --bins}" 2>&1 | grep -v auto_activate
