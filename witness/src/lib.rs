//! Compile-fail witnesses (type-level remainder that makes the MIR rules sound for downstream users).
//! Each `compile_fail,E0xxx` block has a `no_run` twin that differs only by the offending line and MUST compile,
//! so a witness cannot pass because of a wrong path or a missing import.  Nothing here is executed.

/// W1 (C06/C09): a basis handle cannot outlive the state whose cells it points into.
/// ```compile_fail,E0505
/// use packing::traits::State;
/// use packing::wallpaper::{get_wallpaper_group, WallpaperGroups};
/// use packing::{LineShape, PackedState2};
/// let wg = get_wallpaper_group(WallpaperGroups::p1).unwrap();
/// let state = PackedState2::from_group(LineShape::polygon(4).unwrap(), &wg).unwrap();
/// let basis = state.generate_basis();
/// drop(state); // the cells would be freed while `basis` still points at them
/// let _n = basis.len();
/// ```
/// twin:
/// ```no_run
/// use packing::traits::State;
/// use packing::wallpaper::{get_wallpaper_group, WallpaperGroups};
/// use packing::{LineShape, PackedState2};
/// let wg = get_wallpaper_group(WallpaperGroups::p1).unwrap();
/// let state = PackedState2::from_group(LineShape::polygon(4).unwrap(), &wg).unwrap();
/// let basis = state.generate_basis();
/// let _n = basis.len();
/// drop(state);
/// ```
pub struct W1BasisCannotOutliveState;

/// W2 (C09): a state handed to the optimiser is moved; the only way to keep the original is Clone.
/// ```compile_fail,E0382
/// use packing::traits::State;
/// use packing::wallpaper::{get_wallpaper_group, WallpaperGroups};
/// use packing::{BuildOptimiser, LineShape, PackedState2};
/// let wg = get_wallpaper_group(WallpaperGroups::p1).unwrap();
/// let state = PackedState2::from_group(LineShape::polygon(4).unwrap(), &wg).unwrap();
/// let opt = BuildOptimiser::default().seed(0).build();
/// let out = opt.optimise_state(state);
/// let _s = state.score(); // use after move
/// let _t = out.score();
/// ```
/// twin:
/// ```no_run
/// use packing::traits::State;
/// use packing::wallpaper::{get_wallpaper_group, WallpaperGroups};
/// use packing::{BuildOptimiser, LineShape, PackedState2};
/// let wg = get_wallpaper_group(WallpaperGroups::p1).unwrap();
/// let state = PackedState2::from_group(LineShape::polygon(4).unwrap(), &wg).unwrap();
/// let opt = BuildOptimiser::default().seed(0).build();
/// let out = opt.optimise_state(state);
/// let _t = out.score();
/// ```
pub struct W2StateIsMoved;

/// W3a (C08/C06): the parameter cell is private to its module.
/// ```compile_fail,E0616
/// let v = packing::SharedValue::new(1.0);
/// let _c = &v.value;
/// ```
/// twin:
/// ```no_run
/// let v = packing::SharedValue::new(1.0);
/// let _c = v.get_value();
/// ```
pub struct W3aCellIsPrivate;

/// W3b: a basis handle cannot be forged with arbitrary bounds / old value.
/// ```compile_fail,E0451
/// let v = packing::SharedValue::new(1.0);
/// let _b = packing::StandardBasis { value: &v, old: 5.0, min: 0.0, max: 1.0 };
/// ```
/// twin:
/// ```no_run
/// let v = packing::SharedValue::new(1.0);
/// let _b = packing::StandardBasis::new(&v, 0.0, 1.0);
/// ```
pub struct W3bBasisFieldsArePrivate;

/// W3c: the built optimiser's schedule fields cannot be altered from outside.
/// ```compile_fail,E0616
/// let opt = packing::BuildOptimiser::default().seed(0).build();
/// let _r = opt.kt_ratio;
/// ```
/// twin:
/// ```no_run
/// let opt = packing::BuildOptimiser::default().seed(0).build();
/// let _o = &opt;
/// ```
pub struct W3cOptimiserFieldsArePrivate;
