"""Abstract model of the optimiser configuration: the builder's field expressions per
configuration family (symbolic execution of build()), their abstract values, and a
flow-insensitive abstract fixpoint over the locals of the stepping function."""
from .absval import (AbsEval, B, BTOP, F, FTOP, IVL, TOP, fadd, fdiv, fexp, fmin, fmul, fneg, fpowf, fsub, fcmp,
                     i_bin, i_join, int_to_float, class_of_number, show)
from .cfg import CFG
from .mirutil import const_value, field_path, call_matches
from .sym import SYM, SymEx, sfield
from .terms import Norm

U64 = IVL(0, 2 ** 64 - 1)
INT_RANGE = {'u8': (0, 255), 'u16': (0, 65535), 'u32': (0, 2 ** 32 - 1), 'u64': (0, 2 ** 64 - 1),
             'usize': (0, 2 ** 64 - 1), 'u128': (0, 2 ** 128 - 1), 'i8': (-128, 127), 'i16': (-32768, 32767),
             'i32': (-2 ** 31, 2 ** 31 - 1), 'i64': (-2 ** 63, 2 ** 63 - 1), 'isize': (-2 ** 63, 2 ** 63 - 1),
             'i128': (-2 ** 127, 2 ** 127 - 1)}


def top_of(ty):
    if ty in ('f64', 'f32'):
        return ('f', FTOP)
    if ty in INT_RANGE:
        lo, hi = INT_RANGE[ty]
        return IVL(lo, hi)
    if ty == 'bool':
        return BTOP
    return TOP


def build_families(f):
    """Symbolically execute the (single) builder -> MCOptimiser and group the paths by configuration family."""
    cands = [b for b in f.bodies.values() if not b.is_closure and b.crate_kind == 'lib' and not b.derived and not b.impl_trait
             and b.raw['locals'][0]['ty'].replace('packing::', '') == 'optimisation::MCOptimiser']
    if len(cands) != 1:
        return None, 'expected exactly one non-test function returning MCOptimiser, found %d' % len(cands), None
    b = cands[0]
    sx = SymEx(f)
    outs = sx.run(b, [SYM('self')])
    if sx.aborted or not outs:
        return None, 'the builder is not loop-free', b
    n = Norm()
    fams = {}
    for o in outs:
        r = sx.deep(o.st, o.ret)
        if r[0] != 'struct':
            return None, 'the builder does not return a struct literal', b
        fields = dict(r[3])
        fam = {}
        for c in o.pc:
            if c[0] in ('switch', 'switch-not') and c[1][0] == 'app' and c[1][1] == 'discr':
                who = c[1][2][0]
                if who[0] == 'sym' and who[1].startswith('self.'):
                    nm = who[1][5:]
                    if c[0] == 'switch':
                        fam[nm] = 'Some' if c[2] == 1 else 'None'
                    else:
                        fam[nm] = 'Some' if 1 not in c[2] else 'None'
        conds = [c for c in o.pc if c[0] == 'cond' and 'self.' in repr(c[1]) and 'app' not in repr(c[1])[:0]]
        conds = [c for c in conds if not _mentions_opaque(c[1])]
        key = tuple(sorted(fam.items())) + tuple(sorted((k, n.canon_value(v)) for k, v in fields.items())) + \
            tuple(sorted(repr(n.cond(c)) for c in conds))
        fams.setdefault(key, {'family': fam, 'fields': fields, 'conds': conds})
    return list(fams.values()), None, b


def _mentions_opaque(v):
    """Does a condition depend on an opaque application (logging level checks etc.)?"""
    if not isinstance(v, tuple):
        return False
    if v[0] == 'app' and not v[1].startswith(('as:', 'imin', 'imax', 'idiv', 'min', 'max', 'powf', 'exp', 'abs', 'discr')):
        return True
    return any(_mentions_opaque(x) for x in v[1:] if isinstance(x, tuple)) or \
        (v[0] == 'app' and any(_mentions_opaque(x) for x in v[2]))


def feasible(fam, env):
    """Is the builder path of this family entry feasible under the abstract environment?"""
    for c in fam.get('conds', []):
        v = AbsEval(env).ev(c[1])
        if v[0] == 'b' and c[2] not in v[1]:
            return False
    return True


def field_values(fields, env, float_fields=('kt_start', 'kt_ratio', 'max_step_size')):
    out = {}
    for k, v in fields.items():
        ae = AbsEval(env)
        r = ae.ev(v)
        if r[0] == 'n':
            if k in float_fields:
                r = F(class_of_number(r[1]))
            else:
                r = IVL(int(r[1]), int(r[1]))
        out[k] = r
    return out


class LocalFix:
    """Flow-insensitive abstract fixpoint: value of a local = join over all its definitions."""

    def __init__(self, body, field_env, self_local=1, init=None):
        self.body = body
        self.fenv = field_env
        self.self_local = self_local
        self.env = dict(init or {})
        self.cfg = CFG(body)
        self.iter = 0
        self.run()

    # -- reading -------------------------------------------------------------------------
    def read(self, op):
        if op.get('k') == 'const':
            v = const_value(op)
            ty = op.get('ty')
            if isinstance(v, bool):
                return B(v)
            if isinstance(v, int):
                return IVL(v, v)
            if isinstance(v, float):
                if v != v:
                    return F('nan')
                if v in (float('inf'), float('-inf')):
                    return F('+inf' if v > 0 else '-inf')
                if v == 0:
                    import math
                    return F('-0' if math.copysign(1, v) < 0 else '+0')
                from fractions import Fraction
                return F(class_of_number(Fraction(v)))
            return top_of(ty)
        l, p = op['l'], op['p']
        ty = op.get('ty')
        if p and l != self.self_local:
            # a field of a struct / closure environment held in a local (a captured copy of an optimiser field, a value carried
            # in a spliced helper's struct): where definition tracing resolves the place, read that instead
            if not hasattr(self, '_tr'):
                from .mirutil import Tracer
                self._tr = Tracer(self.body)
            o = self._tr.origin(op)
            if o['o'] == 'const' and not o.get('p'):
                return self.read(dict(o['c'], k='const'))
            if o['o'] == 'arg' and o['l'] == self.self_local:
                return self.read({'k': 'copy', 'l': o['l'], 'p': o['p'], 'ty': ty})
            if o['o'] in ('local', 'call', 'rvalue') and not [e for e in o.get('p', []) if e not in ('deref', 'ref')] and \
                    o.get('l') is not None and o['l'] != l:
                return self.read({'k': 'copy', 'l': o['l'], 'p': [], 'ty': ty})
        if l == self.self_local:
            fp = field_path(p)
            if len(fp) >= 1 and fp[0] in self.fenv:
                v = self.fenv[fp[0]]
                if len(fp) == 1:
                    return v
                return top_of(ty)
        v = self.env.get(l)
        if v is None:
            return None
        for e in p:
            if e == 'deref':
                continue
            if isinstance(e, dict) and 'f' in e:
                if v is not None and v[0] == 't' and e['f'] < len(v[1]):
                    v = v[1][e['f']]
                else:
                    return top_of(ty)
            elif isinstance(e, dict) and 'downcast' in e:
                continue
            else:
                return top_of(ty)
        return v

    # -- evaluation ------------------------------------------------------------------------
    def rvalue(self, rv, dest_ty):
        r = rv['r']
        if r == 'use':
            return self.read(rv['a'])
        if r == 'binop':
            a, b = self.read(rv['a']), self.read(rv['b'])
            if a is None or b is None:
                return None
            op = rv['op']
            ov = op.endswith('WithOverflow')
            base = op.replace('WithOverflow', '').replace('Unchecked', '')
            aty = rv['a'].get('ty', '')
            if base in ('Lt', 'Le', 'Gt', 'Ge', 'Eq', 'Ne'):
                if a[0] == 'f' and b[0] == 'f':
                    return ('b', fcmp(base, a[1], b[1]))
                if a[0] == 'i' and b[0] == 'i':
                    return AbsEval.icmp(base, a, b)
                return BTOP
            if aty in INT_RANGE:
                if a[0] != 'i' or b[0] != 'i':
                    res = top_of(aty)
                else:
                    res = i_bin(base, a, b)
                    lo, hi = INT_RANGE[aty]
                    # wrap-around is a panic in debug builds; clamp to the type's range
                    rlo = lo if res[1] is None else max(lo, res[1])
                    rhi = hi if res[2] is None else min(hi, res[2])
                    res = IVL(rlo, rhi)
                if ov:
                    return ('t', (res, BTOP))
                return res
            if a[0] == 'f' and b[0] == 'f':
                fn = {'Add': fadd, 'Sub': fsub, 'Mul': fmul, 'Div': fdiv}.get(base)
                if fn:
                    return ('f', fn(a[1], b[1]))
            return top_of(dest_ty)
        if r == 'unop':
            a = self.read(rv['a'])
            if a is None:
                return None
            if rv['op'] == 'Neg' and a[0] == 'f':
                return ('f', fneg(a[1]))
            if rv['op'] == 'Not' and a[0] == 'b':
                return ('b', frozenset(not x for x in a[1]))
            return top_of(dest_ty)
        if r == 'cast':
            a = self.read(rv['a'])
            if a is None:
                return None
            if rv['kind'].startswith('IntToFloat') and a[0] == 'i':
                return ('f', int_to_float(a))
            if rv['kind'].startswith('IntToInt') and a[0] == 'i':
                return a
            return top_of(rv['to'])
        if r == 'aggr' and rv.get('agg') == 'tuple':
            vs = [self.read(o) for o in rv['ops']]
            if any(v is None for v in vs):
                return None
            return ('t', tuple(vs))
        return top_of(dest_ty)

    def call(self, t):
        f = t['func']
        name = (f.get('resolved') or f.get('fn') or '').replace('packing::', '')
        last = name.rsplit('::', 1)[-1]
        args = [self.read(a) for a in t['args']]
        dty = t['dest']['ty']
        if any(a is None for a in args):
            # an argument has no value yet (bottom): the call has not been reached
            if '<impl f64>::' in name or 'Ord::m' in name:
                return None
        if '<impl f64>::' in name and all(a is not None and a[0] == 'f' for a in args):
            if last in ('min', 'max'):
                return ('f', fmin(args[0][1], args[1][1], last == 'min'))
            if last == 'exp':
                return ('f', fexp(args[0][1]))
            if last == 'powf':
                return ('f', fpowf(args[0][1], args[1][1]))
            if last == 'abs':
                return ('f', frozenset(c if not c.startswith('-') and c not in ('nb', 'ns') else
                                       {'nb': 'pb', 'ns': 'ps', '-1': '1', '-0': '+0', '-inf': '+inf'}[c] for c in args[0][1]))
        if (name.endswith(('cmp::Ord::min', 'cmp::Ord::max')) or ('Ord' in name and last in ('min', 'max'))) \
                and all(a is not None and a[0] == 'i' for a in args):
            return i_bin('i' + last, args[0], args[1])
        return top_of(dty)

    def join(self, a, b):
        if a is None:
            return b
        if b is None:
            return a
        if a[0] == 'f' and b[0] == 'f':
            return ('f', a[1] | b[1])
        if a[0] == 'i' and b[0] == 'i':
            return i_join(a, b)
        if a[0] == 'b' and b[0] == 'b':
            return ('b', a[1] | b[1])
        if a[0] == 't' and b[0] == 't' and len(a[1]) == len(b[1]):
            return ('t', tuple(self.join(x, y) for x, y in zip(a[1], b[1])))
        if a == b:
            return a
        return TOP

    def widen(self, old, new, ty):
        if new is not None and old is not None and new[0] == 'i' and old[0] == 'i' and new != old:
            lo, hi = INT_RANGE.get(ty, (None, None))
            return IVL(new[1] if new[1] == old[1] else lo, new[2] if new[2] == old[2] else hi)
        return new

    def run(self):
        body = self.body
        changed = True
        while changed and self.iter < 60:
            changed = False
            self.iter += 1
            for bi in sorted(self.cfg.reach):
                bb = body.blocks[bi]
                if bb['cleanup']:
                    continue
                for s in bb['stmts']:
                    if s['s'] != 'assign' or s['place']['p']:
                        continue
                    d = s['place']['l']
                    v = self.rvalue(s['rv'], s['place']['ty'])
                    changed |= self._update(d, v, s['place']['ty'])
                t = bb['term']
                if t['t'] == 'call' and not t['dest']['p']:
                    v = self.call(t)
                    changed |= self._update(t['dest']['l'], v, t['dest']['ty'])

    def _update(self, d, v, ty):
        if v is None:
            return False
        old = self.env.get(d)
        new = self.join(old, v)
        if self.iter > 4:
            new = self.widen(old, new, ty)
        if new != old:
            self.env[d] = new
            return True
        return False


def mir_expr(tr, op, self_prefix='F.', depth=0):
    """Symbolic value of an operand in a (possibly looping) body, following single-definition temporaries only:
    constants, fields of `self` (-> SYM(self_prefix+field)), binary ops and numeric casts.  Anything else -> None."""
    from .sym import NUM, APP, float_const, INT_TYS
    if depth > 30:
        return None
    if op.get('k') == 'const':
        if 'int' in op:
            return NUM(int(op['int']))
        if 'bits' in op:
            return float_const(op)
        if 'bool' in op:
            return NUM(1 if op['bool'] else 0)
        return None
    o = tr.origin(op)
    if o['o'] == 'const':
        return mir_expr(tr, o['c'], self_prefix, depth + 1)
    if o['o'] == 'arg' and o['l'] == 1:
        fp = field_path(o['p'])
        if len(fp) == 1:
            return SYM(self_prefix + fp[0])
        return None
    if o['o'] == 'rvalue' and (not o['p'] or (o['rv']['r'] == 'binop' and o['rv']['op'].endswith('WithOverflow')
                                             and field_path(o['p']) == ['0'] and len(o['p']) == 1)):
        rv = o['rv']
        if rv['r'] == 'binop':
            a = mir_expr(tr, rv['a'], self_prefix, depth + 1)
            b = mir_expr(tr, rv['b'], self_prefix, depth + 1)
            if a is None or b is None:
                return None
            opn = rv['op'].replace('WithOverflow', '')
            if opn in ('Div', 'Rem') and rv['a'].get('ty') in INT_TYS:
                return APP('i' + opn.lower(), a, b)
            return ('bin', opn, a, b)
        if rv['r'] == 'cast' and rv['kind'].startswith(('IntToFloat', 'IntToInt')):
            a = mir_expr(tr, rv['a'], self_prefix, depth + 1)
            return None if a is None else APP('as:' + rv['to'], a)
    if o['o'] == 'call' and not o['p'] and call_matches(o['term'], 'cmp::Ord::min', 'cmp::Ord::max') and len(o['term']['args']) == 2:
        a = mir_expr(tr, o['term']['args'][0], self_prefix, depth + 1)
        b = mir_expr(tr, o['term']['args'][1], self_prefix, depth + 1)
        if a is None or b is None:
            return None
        nm = (o['term']['func'].get('fn') or '').rsplit('::', 1)[-1]
        return APP('i' + nm, a, b)
    return None


def subst_syms(v, mapping):
    """Replace SYM(name) by mapping[name] in a sym value tree."""
    if not isinstance(v, tuple):
        return v
    if v[0] == 'sym':
        return mapping.get(v[1], v)
    if v[0] in ('bin', 'cmp'):
        return (v[0], v[1], subst_syms(v[2], mapping), subst_syms(v[3], mapping))
    if v[0] == 'un':
        return (v[0], v[1], subst_syms(v[2], mapping))
    if v[0] == 'app':
        return (v[0], v[1], tuple(subst_syms(x, mapping) for x in v[2]))
    return v


def loop_range(oa, loop):
    """For a `for x in a..b` / `a..=b` natural loop: (kind, lo operand, hi operand, next-call bb) or None."""
    b, tr = oa.body, oa.tr
    hdr = loop['header']
    blk = b.blocks[hdr]
    t = blk['term']
    if t['t'] != 'call' or not call_matches(t, 'Iterator>::next', 'Iterator::next', '::next'):
        return counting_loop(oa, loop)
    it = tr.origin(t['args'][0])
    # iterator local <- into_iter(range)
    from .lineage import through
    o, steps = through(tr, t['args'][0])
    if o['o'] == 'call' and call_matches(o['term'], 'RangeInclusive::<Idx>::new'):
        return ('inclusive', o['term']['args'][0], o['term']['args'][1], hdr)
    if o['o'] == 'rvalue' and o['rv']['r'] == 'aggr' and str(o['rv'].get('adt', '')).endswith('ops::Range'):
        return ('exclusive', o['rv']['ops'][0], o['rv']['ops'][1], hdr)
    return None


def counting_loop(oa, loop):
    """A hand-written counting loop read as the range loop it is:

        i = c;  loop { if i == N { break }  i += 1;  .. }        (also `i >= N`, or `while i < N { i += 1; .. }`)

    runs exactly like `for _ in c..N`: the test sits in the loop header, i has one definition outside the loop (the constant c),
    one inside (i + 1, in a block that dominates every latch), and N does not change inside the loop.  Returns the same tuple as
    loop_range, or None."""
    b, tr, cfg = oa.body, oa.tr, oa.cfg
    from .mirutil import Defs
    defs = getattr(oa, 'defs', None) or Defs(b)
    hdr = loop['header']
    body = loop['body']
    # the header (or the straight-line blocks it falls through) ends in a switch on a comparison of i with N
    cur = hdr
    for _ in range(4):
        t = b.blocks[cur]['term']
        if t['t'] == 'goto' and t['target'] in body:
            cur = t['target']
            continue
        break
    t = b.blocks[cur]['term']
    if t['t'] != 'switch' or t['discr'].get('ty') != 'bool':
        return None
    o = tr.origin(t['discr'])
    if not (o['o'] == 'rvalue' and o['rv']['r'] == 'binop' and o['rv']['op'] in ('Eq', 'Ge', 'Lt')):
        return None
    false_t = [tg for v, tg in t['arms'] if v == '0']
    if not false_t:
        return None
    true_t, false_t = t['otherwise'], false_t[0]
    exit_on_true = o['rv']['op'] in ('Eq', 'Ge')
    leave, stay = (true_t, false_t) if exit_on_true else (false_t, true_t)
    if leave in body or stay not in body:
        return None
    io, no_ = tr.origin(o['rv']['a']), o['rv']['b']
    i = io.get('l') if io['o'] == 'local' and not io.get('p') else None
    if i is None:
        return None
    ds = [d for d in defs.of(i) if d[0] in cfg.reach]
    outside = [d for d in ds if d[0] not in body]
    inside = [d for d in ds if d[0] in body]
    if len(outside) != 1 or len(inside) != 1:
        return None
    d0 = outside[0]
    if not (d0[2] == 'assign' and d0[3]['r'] == 'use' and d0[3]['a'].get('k') == 'const' and 'int' in d0[3]['a']):
        return None
    d1 = inside[0]
    inc = False
    if d1[2] == 'assign' and d1[3]['r'] == 'use' and 'l' in d1[3]['a']:
        # i = move (tmp.0) with tmp = AddWithOverflow(copy i, const 1)
        so = tr.origin(d1[3]['a'])
        rv = so.get('rv') if so['o'] == 'rvalue' else None
        if rv and rv['r'] == 'binop' and rv['op'] in ('Add', 'AddWithOverflow', 'AddUnchecked'):
            x, y = rv['a'], rv['b']
            for p_, q_ in ((x, y), (y, x)):
                if q_.get('k') == 'const' and str(q_.get('int')) == '1' and 'l' in p_ and tr.origin(p_).get('l') == i:
                    inc = True
    elif d1[2] == 'assign' and d1[3]['r'] == 'binop' and d1[3]['op'] == 'Add':
        x, y = d1[3]['a'], d1[3]['b']
        for p_, q_ in ((x, y), (y, x)):
            if q_.get('k') == 'const' and str(q_.get('int')) == '1' and p_.get('l') == i and not p_.get('p'):
                inc = True
    if not inc or not all(cfg.dominates(d1[0], lt) for lt in loop['latches']):
        return None
    # N is loop invariant
    if 'l' in no_:
        nn = tr.origin(no_)
        if nn['o'] == 'local':
            if any(d[0] in body for d in defs.of(nn['l'])):
                return None
        elif nn['o'] not in ('arg', 'const', 'rvalue', 'call'):
            return None
        if nn['o'] in ('rvalue', 'call') and nn.get('bb') in body:
            return None
    return ('exclusive', d0[3]['a'], no_, hdr)
