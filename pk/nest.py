"""Loop nests of a body in nest form (pk/loopform.py): which `for` loops enclose a site, what each ranges over, whether
the site is reached on every iteration, and how a reduction (any / sum) combines the per-item results.

All questions are asked of the normalised body, so `for`, `.any(..)`, `.map(..).sum()`, `.fold(..)`, `iproduct!`,
`flat_map` and helper functions unknown to the reference tree give the same answers."""
from .cfg import CFG
from .lineage import through
from .loops import for_loops, item_of, lift
from .mirutil import Tracer, callee_name, field_path
from .sym import SYM

IDENT_ADAPTORS = ('iter', 'into_iter', 'deref', 'iter_mut', 'by_ref', 'as_slice')


class Nest:
    def __init__(self, facts, body, yields=True, collects=False):
        self.f = facts
        self.orig = body
        self.b = facts.nest_form(body, yields=yields, collects=collects)
        self.cfg = CFG(self.b)
        self.tr = Tracer(self.b)
        self.loops = for_loops(self.b, self.cfg, self.tr)
        self.by_header = {d['header']: d for d in self.loops}
        for d in self.loops:
            self._decorate(d)
        self._fill = {}
        self._fill_key = None

    # ------------------------------------------------------------------------------------------------------
    def _decorate(self, d):
        b = self.b
        t = d['next_term']
        sw = t.get('target')
        d['some'] = d['exit'] = None
        if sw is not None and b.blocks[sw]['term']['t'] == 'switch':
            st = b.blocks[sw]['term']
            arms = dict((v, x) for v, x in st['arms'])
            d['exit'] = arms.get('0')
            d['some'] = arms.get('1', st['otherwise'])
        # where the iterator value is created (the call/aggregate that defines the local next() borrows)
        o = self.tr.origin(t['args'][0])
        d['iter_local'] = o.get('l')
        d['iter_def_bb'] = o.get('bb') if o['o'] in ('call', 'rvalue') else None
        d['adaptors'] = [c for c in d['chain'] if c not in IDENT_ADAPTORS]

    def loops_around(self, bb):
        out = [d for d in self.loops if bb in d['loop']['body']]
        out.sort(key=lambda d: len(d['loop']['body']), reverse=True)
        return out

    def calls(self, pred):
        return [(bi, t) for bi, t in self.b.calls() if bi in self.cfg.reach and pred(t)]

    def item(self, op):
        """(loop record, field path below the item) if the operand is (part of) the item of a for loop."""
        h, fp = item_of(self.tr, op)
        if h is None:
            return None, None
        return self.by_header.get(h), fp

    def every_iteration_reaches(self, d, bb):
        """Every path from the start of an iteration of loop d to its next iteration (or out of the function) passes bb."""
        if d['some'] is None:
            return False
        ok, _ = self.cfg.all_paths_pass_through([d['some']], {bb}, until={d['header']})
        return ok

    def always_entered(self, d, within=None):
        """Every path from the function entry (or from the start of an iteration of `within`) to a return / to the next
        iteration passes the header of d."""
        if within is None:
            ok, _ = self.cfg.all_paths_pass_through([0], {d['header']}, until=set())
            return ok
        return self.every_iteration_reaches(within, d['header'])

    def recreated_per_iteration(self, inner, outer):
        """The inner loop's iterator is built inside the outer loop's body (a fresh pass per outer item)."""
        if not (inner['iter_def_bb'] is not None and inner['iter_def_bb'] in outer['loop']['body']):
            return False
        return self._shared_iterator(inner, outer) is None

    def _shared_iterator(self, inner, outer):
        """The local of a partly consumed iterator the inner loop draws from, if any: walking the inner iterator's construction
        backwards through adaptors (`skip`, `take`, `into_iter`, `by_ref`, ...) and borrows, a mutable borrow of an ITERATOR
        (not a collection) all of whose definitions lie outside the outer loop means every outer item continues where the
        previous one stopped (`others.by_ref().skip(i + 1)` with `others` built before the loop)."""
        b, defs = self.b, self.tr.defs
        body = outer['loop']['body']

        def iterator_ty(ty):
            ty = (ty or '').replace('&mut ', '').replace('&', '').strip()
            return ty.startswith(('std::iter::', 'core::iter::', 'impl ')) or '::Iter<' in ty.split('<', 1)[0] + '<' or \
                ty.startswith(('std::slice::Iter', 'std::vec::IntoIter', 'std::vec::Drain', 'std::ops::Range'))

        seen, work = set(), [(inner.get('iter_local'), False)]
        while work:
            l, via_mut = work.pop()
            if l is None or (l, via_mut) in seen or len(seen) > 40:
                continue
            seen.add((l, via_mut))
            ds = [d for d in defs.of(l) if d[0] in self.cfg.reach]
            if via_mut and ds and all(d[0] not in body for d in ds) and iterator_ty(b.local_ty(l)):
                return l
            for (bi, si, kind, pl) in ds:
                if kind == 'call':
                    a = pl.get('args') or []
                    if a and 'l' in a[0] and self.f.body_of_fnconst(pl['func']) is None:
                        # an adaptor of the standard library: what it is built from is its receiver
                        work.append((a[0]['l'], via_mut or (b.local_ty(a[0]['l']) or '').startswith('&mut ')))
                elif kind == 'assign':
                    rv = pl
                    if rv['r'] == 'use' and 'l' in rv['a']:
                        work.append((rv['a']['l'], via_mut))
                    elif rv['r'] == 'ref' and 'l' in rv.get('a', rv.get('place', {})):
                        pla = rv.get('a', rv.get('place'))
                        work.append((pla['l'], via_mut or rv.get('mut') in (True, 'mut', 'Mut')))
        return None

    # ------------------------------------------------------------------------------------------------------
    def _guided_model(self, enclosing):
        """Model of Iterator::next for guided execution: enclosing loops yield one symbolic item (the element expression of a
        symbolic sequence if the loop ranges over one), fill loops hand their sequence to the Vecs they fill, every other loop
        is exhausted."""
        from .sym import SYM, STRUCT, APP, NUM
        enc_terms = {id(d['next_term']): d for d in enclosing}
        all_next = {id(d['next_term']): d for d in self.loops}
        fills = self._fill

        def next_model(sx, st, name, declared, args, t):
            from .sym import subst_value
            if id(t) in enc_terms:
                h = enc_terms[id(t)]['header']
                item = SYM('item%d' % h)
                it = args[0] if args else None
                for _ in range(4):
                    if isinstance(it, tuple) and it[0] == 'ref':
                        it = sx.load(st, it)
                if isinstance(it, tuple) and it[0] == 'sseq':
                    # the loop ranges over a symbolic sequence: remember which, and hand out its element expression
                    sub = {'$x': SYM('item%d' % h), '$i': SYM('idx%d' % h), '$o': SYM('outer%d' % h)}
                    note = {'base': subst_value(it[1], sub), 'start': it[3]}
                    if not hasattr(sx, 'loop_seq'):
                        sx.loop_seq = {}
                    sx.loop_seq[h] = note
                    st.notes[('loop', h)] = note
                    item = subst_value(it[2], sub)
                return STRUCT('std::option::Option', ('Some', 1), [('0', item)])
            if id(t) in all_next:
                d = all_next[id(t)]
                h = d['header']
                it0 = args[0] if args else None
                for _ in range(4):
                    if isinstance(it0, tuple) and it0[0] == 'ref':
                        it0 = sx.load(st, it0)
                if isinstance(it0, tuple) and it0[0] == 'seq':
                    return None         # a known finite sequence (a constant table): the executor iterates it item by item
                if h in fills and d['some'] is not None and getattr(sx, '_fill_depth', 0) < 3:
                    # a loop that may only fill Vecs (`for x in s { v.push(f(x)) }`, possibly nested): execute ONE iteration from
                    # the current state with a symbolic item; if all it does is append the same thing to Vecs that were
                    # empty, those Vecs receive the sequence the loop builds (v = s.map(f).collect())
                    it = args[0] if args else None
                    for _ in range(4):
                        if isinstance(it, tuple) and it[0] == 'ref':
                            it = sx.load(st, it)
                    if isinstance(it, tuple) and it[0] == 'sseq':
                        fid = min(st.frames)
                        empties = [l for l, v in st.frames[fid].items() if v == ('seq', ())]
                        # (the one iteration below starts from the EMPTY Vecs: it stands for every iteration only if the body
                        # does not look at what it has filled so far — `if !v.contains(x)`, `v.len() < n` — but only appends)
                        empties = [l for l in empties if self._only_appended_in(d, l)]
                        if empties:
                            s2 = st.fork()
                            sub = {'$x': SYM('item%d' % h), '$i': SYM('idx%d' % h), '$o': SYM('outer%d' % h)}
                            s2.frames[fid][t['dest']['l']] = STRUCT('std::option::Option', ('Some', 1), [('0', subst_value(it[2], sub))])
                            sx._fill_depth = getattr(sx, '_fill_depth', 0) + 1
                            saved_stop = sx.stop_blocks
                            try:
                                outs2 = sx.run_from(self.b, d['some'], s2, fid, {h})
                            finally:
                                sx._fill_depth -= 1
                                sx.stop_blocks = saved_stop
                            ch = None
                            ok = bool(outs2)
                            for o2 in outs2:
                                if not (isinstance(o2.ret, tuple) and o2.ret[0] == 'stopped' and o2.ret[1] == h):
                                    ok = False
                                    break
                                c2 = []
                                for l in empties:
                                    v = sx.deep(o2.st, o2.st.frames[fid].get(l))
                                    if v != ('seq', ()):
                                        c2.append((l, v))
                                if ch is None:
                                    ch = c2
                                elif repr(ch) != repr(c2):
                                    ok = False
                            if ok and ch:
                                if not hasattr(self, '_fill_done'):
                                    self._fill_done = {}
                                self._fill_done[(id(st), h)] = True
                                back = {'item%d' % h: SYM('$x'), 'idx%d' % h: SYM('$i')}
                                for l, v in ch:
                                    if v[0] == 'seq' and len(v[1]) == 1:
                                        e1 = subst_value(subst_value(v[1][0], {'item%d' % h: it[2]}), back)
                                        st.frames[fid][l] = ('sseq', it[1], e1, it[3])
                                    elif v[0] == 'sseq':
                                        backo = {'item%d' % h: subst_value(it[2], {'$x': SYM('$o')}), 'idx%d' % h: SYM('$oi')}
                                        st.frames[fid][l] = ('sseq', APP('flat', it[1], subst_value(v[1], backo)), subst_value(v[2], backo), NUM(0))
                # a loop that is passed over (it does not enclose the site of interest): its iterations are not executed, so what
                # they may have written is unknown from here on -- unless the fill summary above accounted for it
                if not (h in fills and getattr(self, '_fill_done', {}).get((id(st), h))):
                    # ... and if it can be left other than by exhaustion (`break`, a `found = true` of any/find/position) towards
                    # the site of interest, passing it over loses those paths: the evaluation is not valid
                    if self._side_exit_rejoins(d):
                        sx.aborted.append((self.b.path, h, 'a loop that is passed over has a side exit that leads on'))
                    fid0 = min(st.frames)
                    if st is not None and fid0 in st.frames and getattr(self, 'skip_havoc', True):
                        for l in self.carried_locals([d], all_written=True):
                            if l in st.frames[fid0] and l != (t.get('dest') or {}).get('l'):
                                st.frames[fid0][l] = SYM('after%d_%d' % (h, l))
                return STRUCT('std::option::Option', ('None', 0), [])
            return None
        return next_model

    def _only_appended_in(self, d, l):
        """Inside loop d, local l (a Vec) is used only as the receiver of an appending call (push / extend / append / reserve)."""
        from .mirutil import uses_of_local
        b = self.b
        body = d['loop']['body']
        key = (d['header'], l)
        cache = self.__dict__.setdefault('_append_cache', {})
        if key in cache:
            return cache[key]
        APPENDERS = ('Vec::<T, A>::push', 'Extend::extend', '::extend', 'Vec::<T, A>::append', 'Vec::<T, A>::reserve',
                     'Vec::<T, A>::extend_from_slice', 'Extend<T>>::extend')
        ok = True
        refs, todo = set(), [l]
        seen = set()
        while todo and ok:
            x = todo.pop()
            if x in seen:
                continue
            seen.add(x)
            for bi, si, role in uses_of_local(b, x):
                if bi not in body:
                    continue
                if si == 'term':
                    t = b.blocks[bi]['term']
                    if x == l:
                        ok = False        # the Vec itself handed to a call (by value)
                        break
                    if t['t'] == 'call' and (callee_name(t) or '').endswith(APPENDERS) and t['args'] and t['args'][0].get('l') == x:
                        continue
                    ok = False
                    break
                st = b.blocks[bi]['stmts'][si]
                if role == 'ref' and st['rv'].get('mut') and not st['place']['p']:
                    todo.append(st['place']['l'])       # `r = &mut v` / `r2 = &mut *r`
                    continue
                if role == 'operand' and x != l and st['rv']['r'] == 'use' and not st['place']['p']:
                    todo.append(st['place']['l'])       # the reference moved on
                    continue
                ok = False
                break
        cache[key] = ok
        return ok

    def _side_exit_rejoins(self, d):
        """Loop d (not executed by guided evaluation) has an exit other than exhaustion of its iterator from which the blocks of
        interest of the current evaluation (self._targets) can be reached."""
        key = (d['header'], tuple(sorted(getattr(self, '_targets', ()) or ())))
        cache = self.__dict__.setdefault('_side_cache', {})
        if key in cache:
            return cache[key]
        b, cfg = self.b, self.cfg
        body = d['loop']['body']
        # the exhaustion exit: the None arm of the switch that follows next()
        normal = set()
        nt = d['next_term']
        sw = b.blocks[nt['target']]['term'] if nt.get('target') is not None else None
        if sw is not None and sw['t'] == 'switch':
            for v, tgt in sw['arms']:
                if v == '0' and tgt not in body:
                    normal.add(tgt)
            if sw['otherwise'] not in body:
                normal.add(sw['otherwise'])
        side = set()
        for bi in body:
            for sc in cfg.succ[bi]:
                if sc not in body and sc not in normal:
                    side.add(sc)
        targets = set(getattr(self, '_targets', ()) or ())
        res = False
        if side and targets:
            reach = cfg.reachable_from(side)
            res = bool(reach & targets)
        cache[key] = res
        return res

    def carried_locals(self, loops, all_written=False):
        """Locals of the function that carry state from one iteration of (any of) `loops` to the next: written inside a loop body
        (assigned whole or in part, the destination of a call, or borrowed `&mut` there, directly or through a reference made
        outside) AND defined outside it (or a parameter).  The loops' own iterators are not included (guided execution hands out
        their items)."""
        b, tr = self.b, self.tr
        from .mirutil import Defs
        defs = getattr(self, '_defs', None) or Defs(b)
        self._defs = defs
        out = set()
        for d in loops:
            body = d['loop']['body']
            iters = set()
            nt = d.get('next_term')
            if nt is not None and nt.get('args') and 'l' in nt['args'][0]:
                x = nt['args'][0]['l']
                for _ in range(6):
                    iters.add(x)
                    ds = [dd for dd in defs.of(x) if dd[2] == 'assign']
                    nx = None
                    for dd in ds:
                        rv = dd[3]
                        if rv['r'] == 'ref':
                            nx = rv['place']['l']
                        elif rv['r'] == 'use' and 'l' in rv['a']:
                            nx = rv['a']['l']
                    if nx is None or nx in iters:
                        break
                    x = nx
            written = set()

            def root(pl):
                """the local whose storage a write to place pl changes"""
                if not any(e == 'deref' for e in pl['p']):
                    return pl['l']
                o = tr.origin({'k': 'copy', 'l': pl['l'], 'p': []})
                if o['o'] == 'rvalue' and o['rv']['r'] == 'ref' and not any(e == 'deref' for e in o['rv']['place']['p']):
                    return o['rv']['place']['l']
                return None
            for bi in body:
                bb = b.blocks[bi]
                for st in bb['stmts']:
                    if st['s'] == 'assign':
                        r = root(st['place'])
                        if r is not None:
                            written.add(r)
                        rv = st['rv']
                        if rv['r'] == 'ref' and rv.get('mut'):
                            r2 = root(rv['place'])
                            if r2 is not None:
                                written.add(r2)
                    elif st['s'] == 'setdiscr':
                        r = root(st['place'])
                        if r is not None:
                            written.add(r)
                t = bb['term']
                if t['t'] == 'call':
                    if t.get('dest'):
                        r = root(t['dest'])
                        if r is not None:
                            written.add(r)
                    # a `&mut X` made outside the loop and handed to a call inside it
                    for a in t['args']:
                        if 'l' in a and (a.get('ty') or '').startswith('&mut'):
                            o = tr.origin(a)
                            if o['o'] == 'rvalue' and o['rv']['r'] == 'ref' and o['rv'].get('mut') and \
                                    not any(e == 'deref' for e in o['rv']['place']['p']):
                                written.add(o['rv']['place']['l'])
            if all_written:
                out |= written
                continue
            args = set(b.args())
            for l in written - iters:
                if l == 0:
                    continue
                ds = defs.of(l)
                if l in args or any(dd[0] not in body for dd in ds):
                    out.add(l)
        return out

    def iteration(self, inner, stops, models=(), params=None, max_paths=5000, opaque=(), havoc=None, seq_sources=(), first=False):
        """Symbolic execution of ONE iteration of loop `inner` (a loop record): the function is executed from its entry with
        symbolic parameters, every enclosing loop is entered once with a fresh symbolic item `item<header>`, loops that do
        not enclose `inner` are skipped (their iterator is exhausted), and from the start of inner's body execution runs
        until a block of `stops`, the next iteration (inner's header) or a return.
        Returns (sx, [Outcome]) with Outcome.ret = ('stopped', bb) | return value; Outcome.pc holds the branch conditions."""
        from .sym import SymEx, SYM, STRUCT
        b = self.b
        enclosing = [d for d in self.loops if inner['header'] in d['loop']['body']]
        enc_terms = {id(d['next_term']): d for d in enclosing}
        all_next = {id(d['next_term']): d for d in self.loops}

        next_model = self._guided_model(enclosing)
        sx = SymEx(self.f, models=[next_model] + list(models), max_paths=max_paths, opaque=opaque, seq_sources=seq_sources)
        sx.aliases = dict(getattr(self, 'aliases', None) or {})
        sx.loop_seq = {}
        names = params or {}
        from .sym import APP, NUM
        argv = [SYM(names.get(i) or b.local_name(i) or 'arg%d' % i) for i in b.args()]
        self._targets = set(stops) | {inner['some'], inner['header']}
        sx.stop_blocks = {inner['some']}
        outs0 = sx.run(b, argv)
        sx.stop_blocks = set()
        res = []
        for o in outs0:
            if not (isinstance(o.ret, tuple) and o.ret[0] == 'stopped'):
                continue
            fid = min(o.st.frames)          # the outermost frame is the function's own
            starts = [o.st]
            if not first:
                # ANY iteration, not the first: what earlier iterations left in the loop-carried locals is either one of finitely
                # many values found by induction (a memo, a flag set once), or unknown
                carried = sorted(l for l in self.carried_locals(enclosing) if l in o.st.frames[fid] and l not in (havoc or {}))
                vals = self._inductive_values(sx, inner, enclosing, o.st, fid, carried) if carried else None
                if vals is not None:
                    starts = []
                    for v in vals:
                        s2 = o.st.fork()
                        for l, x in zip(carried, v):
                            s2.frames[fid][l] = x
                        starts.append(s2)
                else:
                    for l in carried:
                        o.st.frames[fid][l] = SYM('carried%d' % l)
            for st0 in starts:
                for l, v in (havoc or {}).items():
                    st0.frames[fid][l] = v
                st0.notes['empty-at-start'] = tuple(sorted(l for l, v in st0.frames[fid].items() if v == ('seq', ())))
                st0.notes['pc-at-start'] = len(st0.pc)
                if inner['some'] in stops:
                    # the site of interest is the first block of the body: the arrival state is the outcome
                    from .sym import Outcome
                    res.append(Outcome(('stopped', inner['some']), list(st0.pc), list(st0.effects), st0))
                    continue
                res += sx.run_from(b, inner['some'], st0, fid, set(stops) | {inner['header']})
        return sx, res

    def _inductive_values(self, sx, inner, enclosing, st, fid, carried):
        """All values the loop-carried locals can have at the start of an iteration of `inner`, if that is a small set closed under
        one iteration: [valuation tuple, ...] (the first is the value before the loop), else None.  V1 = the values one iteration
        from the initial state can leave (as functions of that iteration's own item, renamed prev_*); the set is accepted when an
        iteration from each member of V1 leaves a member of V1 or the initial value again, syntactically, and no value depends on
        an item two iterations back.  Only for locals written nowhere but in `inner` itself (not by an enclosing loop's body)."""
        from .sym import subst_value
        b = self.b
        h = inner['header']
        if not carried or inner['some'] is None:
            return None
        own = self.carried_locals([inner])
        body = inner['loop']['body']
        outer_written = set()
        for d in enclosing:
            if d is inner:
                continue
            shell = {'header': d['header'], 'next_term': d['next_term'], 'loop': {'body': set(d['loop']['body']) - set(body)}}
            outer_written |= self.carried_locals([shell], all_written=True)
        if any(l not in own or l in outer_written for l in carried):
            return None
        ren = {'item%d' % h: SYM('prev_item%d' % h), 'idx%d' % h: SYM('prev_idx%d' % h)}
        n_ab = len(sx.aborted)

        def posts(state):
            s2 = state.fork()
            try:
                outs = sx.run_from(b, inner['some'], s2, fid, {h})
            except Exception:      # noqa: BLE001
                return None
            if len(sx.aborted) > n_ab:
                del sx.aborted[n_ab:]
                return None
            out = []
            for o2 in outs:
                if isinstance(o2.ret, tuple) and o2.ret[0] == 'stopped' and o2.ret[1] == h:
                    v = tuple(sx.deep(o2.st, o2.st.frames[fid].get(l)) for l in carried)
                    if 'prev_' in repr(v) or 'unk' in repr(v)[:0]:
                        return None
                    out.append(tuple(subst_value(x, ren) for x in v))
            return out
        init = tuple(sx.deep(st, st.frames[fid].get(l)) for l in carried)
        p1 = posts(st)
        if p1 is None:
            return None
        V, seen = [], {repr(init)}
        for v in p1:
            if repr(v) not in seen:
                seen.add(repr(v))
                V.append(v)
        if len(V) > 4:
            return None
        for v in V:
            s3 = st.fork()
            for l, x in zip(carried, v):
                s3.frames[fid][l] = x
            p2 = posts(s3)
            if p2 is None or any(repr(w) not in seen for w in p2):
                return None
        return [init] + V

    def summarise_fill_loops(self, opaque=(), seq_sources=()):
        """Mark the loops that may be fill loops (`for x in s { v.push(f(x)) }`, possibly nested): loops whose body contains a
        Vec::push / extend.  Whether one really is a fill loop is decided when guided execution meets it (see
        _guided_model): one iteration is executed from the state at hand and must do nothing but append to empty Vecs."""
        self._fill = {}
        for d in self.loops:
            for bi in d['loop']['body']:
                t = self.b.blocks[bi]['term']
                if t['t'] == 'call' and (callee_name(t) or '').endswith(('Vec::<T, A>::push', 'Extend::extend', '::extend', 'Vec::<T, A>::append')):
                    self._fill[d['header']] = True
        return self._fill

    def reach(self, bb, models=(), opaque=(), max_paths=5000, seq_sources=()):
        """Symbolic execution from the function entry to the entry of block bb: loops that enclose bb are entered once with a
        fresh symbolic item, every other loop is skipped.  Returns (sx, [Outcome stopped at bb])."""
        from .sym import SymEx, SYM, STRUCT
        b = self.b
        enclosing = [d for d in self.loops if bb in d['loop']['body']]
        next_model = self._guided_model(enclosing)
        sx = SymEx(self.f, models=[next_model] + list(models), max_paths=max_paths, opaque=opaque, seq_sources=seq_sources)
        sx.aliases = dict(getattr(self, 'aliases', None) or {})
        sx.loop_seq = {}
        argv = [SYM(b.local_name(i) or 'arg%d' % i) for i in b.args()]
        self._targets = {bb}
        sx.stop_blocks = {bb}
        outs = sx.run(b, argv)
        sx.stop_blocks = set()
        return sx, [o for o in outs if isinstance(o.ret, tuple) and o.ret[0] == 'stopped' and o.ret[1] == bb]

    def arg_values(self, sx, o, bb):
        """Argument values of the call that ends block bb, for an outcome stopped at the entry of bb."""
        st = o.st.fork()
        fid = min(st.frames)
        blk = self.b.blocks[bb]
        for s in blk['stmts']:
            if s['s'] == 'assign':
                sx.write_place(st, fid, s['place'], sx.rvalue(st, fid, s['rv']))
        return [sx.deep(st, sx.operand(st, fid, a)) for a in blk['term']['args']]

    def bool_reduction(self, leaf_bbs):
        """How the function's bool result depends on the leaf calls' results: returns (ok, description).  ok means:
        returns true on every path that saw a leaf return true, false on every path that did not."""
        b, cfg, tr = self.b, self.cfg, self.tr
        leaf_bbs = set(leaf_bbs)

        def hit_edges(bi):
            """{successor: hit?} for a switch on a leaf result."""
            t = b.blocks[bi]['term']
            if t['t'] != 'switch':
                return None
            o = tr.origin(t['discr'])
            neg = False
            if o['o'] == 'rvalue' and o['rv']['r'] == 'unop' and o['rv']['op'] == 'Not' and not o['p']:
                neg = True
                o = tr.origin(o['rv']['a'])
            if o['o'] == 'call' and o.get('bb') in leaf_bbs and not o['p']:
                out = {}
                for v, x in t['arms']:
                    out[x] = (v != '0') != neg
                vals = {v for v, _ in t['arms']}
                if '0' in vals:
                    out[t['otherwise']] = (not neg)
                else:
                    out[t['otherwise']] = neg
                return out
            return None

        # forward dataflow over (block, hit) with sets of possible bool constants per local
        from collections import deque
        start = (0, False)
        env = {start: {}}
        work = deque([start])
        rets = {}
        steps = 0

        def join(a, c):
            out = dict(a)
            ch = False
            for k, v in c.items():
                if k in out:
                    nv = out[k] | v
                    if nv != out[k]:
                        out[k] = nv
                        ch = True
                else:
                    out[k] = v
                    ch = True
            return out, ch

        while work:
            steps += 1
            if steps > 20000:
                return False, 'bool dataflow did not converge'
            node = work.popleft()
            bi, hit = node
            e = dict(env[node])
            blk = b.blocks[bi]
            for s in blk['stmts']:
                if s['s'] != 'assign' or s['place']['p']:
                    continue
                rv = s['rv']
                l = s['place']['l']
                if rv['r'] == 'use':
                    a = rv['a']
                    if a.get('k') == 'const' and 'bool' in a:
                        e[l] = frozenset(['T' if a['bool'] else 'F'])
                    elif 'l' in a and not a['p'] and a['l'] in e:
                        e[l] = e[a['l']]
                    else:
                        e[l] = frozenset(['?'])
                else:
                    e[l] = frozenset(['?'])
            t = blk['term']
            if t['t'] == 'call' and not t['dest']['p']:
                e[t['dest']['l']] = frozenset(['L' if bi in leaf_bbs else '?'])
            if t['t'] == 'return':
                rets.setdefault(hit, set()).update(e.get(0, frozenset(['?'])))
                continue
            he = hit_edges(bi)
            feas = None
            leaf_hit = {}
            if t['t'] == 'switch' and he is None and 'l' in t['discr'] and not t['discr']['p']:
                vs = e.get(t['discr']['l'])
                if vs is not None and vs <= frozenset(['T', 'F', 'L']) and t['discr'].get('ty') == 'bool':
                    # a switch on a tracked bool: only the edges its possible values select are feasible; a value that is
                    # "the leaf's result or false" (x && leaf(..)) selects the true edge only when the leaf returned true
                    feas = {}
                    arms = dict((v, x) for v, x in t['arms'])
                    zero_t = arms.get('0', t['otherwise'])
                    one_t = arms.get('1', t['otherwise'])
                    if 'F' in vs or 'L' in vs:
                        feas.setdefault(zero_t, set()).add('F')
                    if 'T' in vs or 'L' in vs:
                        feas.setdefault(one_t, set()).add('T')
                        if 'T' not in vs:
                            leaf_hit[one_t] = True
            for s2 in cfg.succ[bi]:
                if feas is not None and s2 not in feas:
                    continue
                h2 = hit or bool(he and he.get(s2)) or bool(leaf_hit.get(s2))
                n2 = (s2, h2)
                if feas is not None:
                    e = dict(e)
                    e[t['discr']['l']] = frozenset(feas[s2])
                if n2 not in env:
                    env[n2] = dict(e)
                    work.append(n2)
                else:
                    ne, ch = join(env[n2], e)
                    if ch:
                        env[n2] = ne
                        work.append(n2)
        ok = rets.get(True) == {'T'} and rets.get(False) == {'F'}
        return ok, 'returns %s after a true leaf, %s otherwise' % (sorted(rets.get(True, [])), sorted(rets.get(False, [])))

    def sum_reduction(self, leaf_bbs, ret_op=None):
        """Is the result `0 + sum of the leaf results`?  (ok, description, accumulator local)"""
        b, tr = self.b, self.tr
        leaf_bbs = set(leaf_bbs)
        o = tr.origin(ret_op or {'k': 'move', 'l': 0, 'p': []})
        if o['o'] == 'rvalue' and not o['p'] and o['rv'].get('r') == 'aggr' and o['rv'].get('agg') == 'adt' and \
                o['rv'].get('variant') in ('Some', 'Ok') and len(o['rv']['ops']) == 1 and 'l' in o['rv']['ops'][0]:
            o = tr.origin(o['rv']['ops'][0])        # `Some(sum)` / `Ok(sum)`: the reduction is the payload
        if o['o'] != 'local' or o['p']:
            return False, 'the result is not an accumulator variable (%s)' % o['o'], None
        acc = o['l']
        inits, updates, bad = [], [], []

        def leaf(org):
            if org['o'] == 'local' and org.get('l') == acc and not org['p']:
                return SYM('acc')
            if org['o'] == 'call' and org.get('bb') in leaf_bbs and not org['p']:
                return SYM('leaf')
            return None
        loops_of_leaf = set()
        for lb in leaf_bbs:
            for d in self.loops_around(lb):
                loops_of_leaf.add(d['header'])
        in_loops = set()
        for h in loops_of_leaf:
            in_loops |= self.by_header[h]['loop']['body']
        for (bi, si, kind, rv) in tr.defs.of(acc):
            if bi not in self.cfg.reach:
                continue
            if kind != 'assign':
                bad.append('bb%d: call result' % bi)
                continue
            if rv['r'] == 'use' and rv['a'].get('k') == 'const':
                c = rv['a']
                z = c.get('f') in ('0.0', '-0.0') or c.get('int') == '0'
                (inits if z and bi not in in_loops else bad).append('bb%d: const %s' % (bi, c.get('f') or c.get('int')))
                continue
            e = lift(tr, {'k': 'copy', 'l': rv['a']['l'], 'p': rv['a']['p']}, leaf) if rv['r'] == 'use' and 'l' in rv['a'] else None
            if e is None and rv['r'] == 'binop':
                a1 = lift(tr, rv['a'], leaf)
                b1 = lift(tr, rv['b'], leaf)
                e = ('bin', rv['op'].replace('WithOverflow', ''), a1, b1) if a1 is not None and b1 is not None else None
            if e is not None and e[0] == 'bin' and e[1] == 'Add' and sorted([repr(e[2]), repr(e[3])]) == sorted([repr(SYM('acc')), repr(SYM('leaf'))]):
                updates.append(bi)
            else:
                bad.append('bb%d: %s' % (bi, 'not acc + leaf'))
        if tr.defs.pwrites.get(acc):
            bad.append('partial writes')
        ok = not bad and len(inits) >= 1 and len(updates) >= 1 and all(u in in_loops for u in updates)
        return ok, 'accumulator _%d: init %s, updates acc+leaf at %s%s' % (acc, inits, ['bb%d' % u for u in updates],
                                                                         ('; other definitions: %s' % bad) if bad else ''), acc


def items_source(f, t, op, depth=0):
    """(param local, field path) an iterator operand ranges over; follows std iter/into_iter/deref and workspace helper
    functions (Shape::iter, IntoIterator for &Shape) whose body simply iterates a field of their receiver."""
    path = []
    cur = op
    for _ in range(12):
        o = t.origin(cur)
        if o['o'] == 'arg':
            return (o['l'], field_path(o['p']) + path)
        if o['o'] != 'call' or not o['term']['args']:
            return 'a factor of the product does not come from a parameter (%s)' % o['o']
        term = o['term']
        cb = f.body_of_fnconst(term['func'])
        if cb is not None:
            if depth >= 4:
                return 'helper nesting too deep'
            inner = items_source(f, Tracer(cb), {'k': 'copy', 'l': 0, 'p': []}, depth + 1)
            if isinstance(inner, str):
                return inner
            if inner[0] != 1:
                return 'helper %s does not iterate its receiver' % cb.path
            path = inner[1] + path
            cur = term['args'][0]
            continue
        nm = (callee_name(term) or '').rsplit('::', 1)[-1]
        if nm in IDENT_ADAPTORS or nm in ('borrow', 'as_ref', 'enumerate'):
            cur = term['args'][0]          # (enumerate numbers the elements of the same sequence)
            continue
        return 'a factor of the product passes through %s' % nm
    return 'source chain too long'


def full_product_reduction(f, body, is_leaf, kind, want_sources):
    """Decide: the body reduces (`kind` = 'any' | 'sum') the leaf call over the FULL product of two sequences.
    want_sources: set of (param local, field path tuple) the two loops must range over.
    Returns (ok, why)."""
    n = Nest(f, body, yields=False)
    leafs = n.calls(is_leaf)
    if len(leafs) != 1:
        return False, 'expected one pairwise call, found %d' % len(leafs)
    lbi, lt = leafs[0]
    around = n.loops_around(lbi)
    if len(around) != 2:
        return False, 'the pairwise call is inside %d loop(s), expected the two component loops' % len(around)
    outer, inner = around
    srcs = []
    for d in (outer, inner):
        # (`enumerate` numbers the elements, it neither drops nor reorders them: the element is component .1 of the item)
        if [a for a in d['adaptors'] if a != 'enumerate']:
            return False, 'a component loop passes through adaptor(s) %s that can drop, truncate or pair up elements' % d['adaptors']
        s = items_source(f, n.tr, {'k': 'copy', 'l': d['iter_local'], 'p': []}) if d['iter_local'] is not None else 'no iterator local'
        if isinstance(s, str):
            return False, s
        srcs.append((s[0], tuple(s[1])))
    if set(srcs) != set(want_sources) or len(set(srcs)) != 2:
        return False, 'the loops range over %s, not over both operands\' components %s' % (srcs, sorted(want_sources))
    if not n.recreated_per_iteration(inner, outer):
        return False, 'the inner iterator is not rebuilt for every outer item (it would be exhausted after the first)'
    if not n.always_entered(outer):
        return False, 'the component loops are skipped on some path'
    if not n.always_entered(inner, within=outer):
        return False, 'some outer item skips the inner loop'
    if not n.every_iteration_reaches(inner, lbi):
        return False, 'some pair of components is skipped (the pairwise call is conditional)'
    da, fa = n.item(lt['args'][0])
    db, fb = n.item(lt['args'][1])
    def elem_path(d_, fp_):
        want_ = ['1'] if (d_ is not None and d_['adaptors'] == ['enumerate']) else []
        return [x for x in (fp_ or []) if not str(x).startswith('#')] == want_
    if da is None or db is None or {da['header'], db['header']} != {outer['header'], inner['header']} or \
            not elem_path(da, fa) or not elem_path(db, fb):
        return False, 'the pairwise call is not applied to (item of one loop, item of the other)'
    if kind == 'any':
        ok, why = n.bool_reduction([lbi])
        return ok, ('any over the full product: ' if ok else 'the result is not "any pair": ') + why
    ok, why, _ = n.sum_reduction([lbi])
    return ok, ('sum over the full product: ' if ok else 'the result is not the sum over pairs: ') + why


def single_loop_sum(f, body, models=(), opaque=(), ret_op=None, nest=None, allow_adaptors=()):
    """Decide: the body returns  0 + sum over ALL items of ONE source sequence of a per-item term.
    Returns (ok, why, info) with info = {'nest', 'loop', 'source': items_source(..), 'terms': [(pc, sym value)], 'item': symbol name}.
    The term is obtained by executing one iteration symbolically with the accumulator set to the symbol `acc`."""
    from .sym import SYM
    from .terms import Norm, NotNumeric
    n = nest or Nest(f, body, yields=False)
    o = n.tr.origin(ret_op or {'k': 'move', 'l': 0, 'p': []})
    if o['o'] != 'local' or o['p']:
        return False, 'the result is not an accumulator variable (%s)' % o['o'], None
    acc = o['l']
    defs = [d for d in n.tr.defs.of(acc) if d[0] in n.cfg.reach]
    loops = [d for d in n.loops if any(x[0] in d['loop']['body'] for x in defs)]
    loops.sort(key=lambda d: len(d['loop']['body']))
    if not loops:
        return False, 'the accumulator is not updated in a loop', None
    d = loops[0]
    if [x for x in n.loops if x is not d and d['header'] in x['loop']['body']]:
        return False, 'the accumulating loop is nested inside another loop', None
    if [a for a in d['adaptors'] if a not in allow_adaptors]:
        return False, 'the loop passes through adaptor(s) %s that can drop, truncate or pair up elements' % d['adaptors'], None
    inits = [x for x in defs if x[0] not in d['loop']['body']]
    ok_init = len(inits) >= 1 and all(x[2] == 'assign' and x[3]['r'] == 'use' and x[3]['a'].get('k') == 'const'
                                      and (x[3]['a'].get('f') in ('0.0', '-0.0') or x[3]['a'].get('int') == '0') for x in inits)
    if not ok_init:
        return False, 'the accumulator does not start at 0', None
    if not n.always_entered(d):
        return False, 'the loop is skipped on some path', None
    src = items_source(f, n.tr, {'k': 'copy', 'l': d['iter_local'], 'p': []}) if d['iter_local'] is not None else 'no iterator local'
    sx, outs = n.iteration(d, set(), models=models, opaque=opaque, havoc={acc: SYM('acc')})
    if not outs or sx.aborted:
        return False, 'one iteration of the loop is not loop-free', None
    terms = []
    nm = Norm()
    for oc in outs:
        if not (isinstance(oc.ret, tuple) and oc.ret[0] == 'stopped' and oc.ret[1] == d['header']):
            return False, 'an iteration can leave the loop early', None
        v = sx.deep(oc.st, oc.st.frames[min(oc.st.frames)].get(acc))
        try:
            inc = nm.rf(v) - nm.atom('acc')
        except NotNumeric as ex:
            return False, 'the accumulator update is not arithmetic: %s' % str(ex)[:80], None
        if 'acc' in inc.canon().replace('acc(', ''):
            # the increment must not depend on the running total
            import re
            if re.search(r'(?<![A-Za-z_.])acc(?![A-Za-z_(.])', inc.canon()):
                return False, 'the update is not acc + term: %s' % inc.canon()[:120], None
        terms.append((oc.pc, inc))
    return True, 'result = 0 + sum over every item of the term', {'nest': n, 'loop': d, 'source': src, 'terms': terms,
                                                                 'item': 'item%d' % d['header'], 'norm': nm, 'sx': sx}
