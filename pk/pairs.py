"""The two pair nests of a State::score path (overlap test / energy sum), decided by VALUE.

One iteration of the innermost loop around each pairwise call is evaluated symbolically (pk/nest.py); collections are
symbolic sequences (pk/sym.py `sseq`), so the analysis sees, for every loop, WHICH sequence it ranges over and from which
index, and for the pairwise call WHAT its two operands are — whatever mix of iterator chains, cached Vecs, slices, zips,
fill loops, helper functions and structs the source uses:

  in-cell nest    leaf( T(C(x_o)), T(C(x_i)) ),  x_o over relative_positions(self) from 0,
                                                 x_i over relative_positions(self) from idx(x_o) + c        (c must be 1)
  periodic nest   leaf( T(C(x_o)), T(y) ),       x_o over relative_positions(self) from 0,
                                                 y over periodic_images(self.cell, x_m, shells, zero), x_m over
                                                 relative_positions(self) from 0 (possibly flattened into one sequence)

with T(p) = self.shape.transform(p), C(x) = self.cell.to_cartesian_isometry(x).
"""
from .anchors import is_trait_call
from .nest import Nest
from .sym import APP, NUM, SYM
from .terms import Norm, NotNumeric

OPAQUE = ('relative_positions', 'periodic_images', 'to_cartesian_isometry', 'enclosing_radius', 'total_shapes')
SEQS = ('relative_positions', 'periodic_images')


def _is_app(v, suffix, nargs=None):
    return isinstance(v, tuple) and v[0] == 'app' and v[1].endswith(suffix) and (nargs is None or len(v[2]) == nargs)


def _item_header(v, prefix='item'):
    if isinstance(v, tuple) and v[0] == 'sym' and v[1].startswith(prefix) and v[1][len(prefix):].isdigit():
        return int(v[1][len(prefix):])
    return None


class PairNests:
    def __init__(self, f, body, leaf_trait, leaf_method):
        self.f = f
        self.n = Nest(f, body, yields=False)
        self.b, self.cfg, self.tr = self.n.b, self.n.cfg, self.n.tr
        self.loops = self.n.loops
        self.leafs = self.n.calls(lambda t: is_trait_call(t, leaf_trait, leaf_method))
        self.problems = []
        self.tri = None
        self.per = None
        self.n.aliases = self._sequence_aliases(body)
        self.n.summarise_fill_loops(opaque=OPAQUE, seq_sources=SEQS)
        for bi, t in self.leafs:
            self._analyse(bi, t)

    def _sequence_aliases(self, body):
        """The state's relative placements spelled out (`occupied_sites.iter().flat_map(OccupiedSite::positions)`, e.g. a shared
        helper spliced into cartesian_positions) are the sequence `relative_positions(self)`: the value of the accessor's own
        body, evaluated once, is an alias of the call."""
        from .sym import SymEx
        out = {}
        adt = self.f.norm(body.impl_self_adt or '')
        rp = self.f.one(self_adt=adt, name='relative_positions') if adt else None
        if rp is None:
            return out
        sx = SymEx(self.f)
        try:
            outs = sx.run(rp, [SYM('self')])
        except Exception:      # noqa: BLE001
            return out
        if len(outs) == 1 and not sx.aborted:
            v = sx.deep(outs[0].st, outs[0].ret)
            if isinstance(v, tuple) and v[0] == 'app':
                out[repr(v)] = APP('%s::relative_positions' % adt.rsplit('::', 1)[-1], SYM('self'))
        return out

    # ------------------------------------------------------------------------------------------------------
    def _rel_base(self, v):
        return _is_app(v, 'relative_positions', 1) and v[2][0] == SYM('self')

    def _placement(self, v, notes):
        """('cell', header) if v = C(self.cell, item of a loop over relative_positions); ('image', header) if v is the item of a
        loop over periodic images; else None."""
        if _is_app(v, 'to_cartesian_isometry', 2) and v[2][0] == SYM('self.cell'):
            h = _item_header(v[2][1])
            if h is not None and ('loop', h) in notes and self._rel_base(notes[('loop', h)]['base']):
                return ('cell', h)
            return None
        h = _item_header(v)
        if h is not None and ('loop', h) in notes:
            base = notes[('loop', h)]['base']
            if _is_app(base, 'periodic_images', 4) or (_is_app(base, 'flat', 2) and _is_app(base[2][1], 'periodic_images', 4)):
                return ('image', h)
        return None

    def _shape(self, v, notes):
        if _is_app(v, 'Shape::transform', 2) and v[2][0] == SYM('self.shape'):
            return self._placement(v[2][1], notes), v[2][1]
        return None, None

    def _analyse(self, lbi, lt):
        n = self.n
        around = n.loops_around(lbi)
        if not around:
            self.problems.append('pairwise call at bb%d is not inside a loop' % lbi)
            return
        try:
            sx, outs = n.iteration(around[-1], {lbi}, opaque=OPAQUE, seq_sources=SEQS)
        except Exception as ex:      # noqa: BLE001
            self.problems.append('pairwise call at bb%d: one iteration could not be evaluated (%s)' % (lbi, str(ex)[:80]))
            return
        if not outs or sx.aborted:
            self.problems.append('pairwise call at bb%d: one iteration of its loop nest is not loop-free' % lbi)
            return
        hits = [o for o in outs if isinstance(o.ret, tuple) and o.ret[0] == 'stopped' and o.ret[1] == lbi]
        misses = [o for o in outs if o not in hits]
        if not hits:
            self.problems.append('pairwise call at bb%d is never reached within one iteration' % lbi)
            return
        kinds = set()
        rec = None
        for o in hits:
            a, b2 = n.arg_values(sx, o, lbi)[:2]
            ka, pa = self._shape(a, o.st.notes)
            kb, pb = self._shape(b2, o.st.notes)
            kinds.add((ka, kb))
            rec = {'bb': lbi, 'term': lt, 'sx': sx, 'hits': hits, 'misses': misses, 'A': ka, 'B': kb, 'PA': pa, 'PB': pb,
                   'notes': o.st.notes, 'around': around, 'why': []}
        if len(kinds) != 1:
            self.problems.append('pairwise call at bb%d: its operands differ between paths' % lbi)
            return
        ka, kb = rec['A'], rec['B']
        if ka is None or kb is None:
            self.problems.append('pairwise call at bb%d: an operand is not self.shape placed at a placement of this state (%s / %s)'
                                 % (lbi, 'ok' if ka else 'unrecognised', 'ok' if kb else 'unrecognised'))
            return
        if ka[0] == 'cell' and kb[0] == 'cell':
            rec['kind'] = 'triangular'
            self._triangular(rec)
            self.tri = rec
        elif 'cell' in (ka[0], kb[0]) and 'image' in (ka[0], kb[0]):
            if ka[0] == 'image':
                rec['A'], rec['B'], rec['PA'], rec['PB'] = kb, ka, rec['PB'], rec['PA']
            rec['kind'] = 'periodic'
            self._periodic(rec)
            self.per = rec
        else:
            self.problems.append('pairwise call at bb%d: loop nest not recognised (%s x %s)' % (lbi, ka, kb))

    # ------------------------------------------------------------------------------------------------------
    def _nesting(self, rec, headers):
        """The loops around the call are exactly `headers`, each entered on every iteration of the one outside it."""
        n = self.n
        why = rec['why']
        got = [d['header'] for d in rec['around']]
        if set(got) != set(headers):
            why.append('the call is inside loops %s, its operands come from loops %s' % (got, sorted(headers)))
            return
        outer = rec['around'][0]
        if not self._entered_unless_decided(outer):
            why.append('the outer loop is skipped on some path')
        for a, c in zip(rec['around'], rec['around'][1:]):
            if not n.always_entered(c, within=a):
                why.append('an inner loop is skipped for some outer item')
            if not n.recreated_per_iteration(c, a):
                why.append('an inner sequence is not restarted for every outer item')

    def _entered_unless_decided(self, d):
        """Every path from the entry to a return passes the loop's header, except paths on which the answer is already `true`
        (an overlap found earlier: blocks that assign the constant true to the result)."""
        b, cfg = self.b, self.cfg
        decided = set()
        for bi, bb in enumerate(b.blocks):
            for s in bb['stmts']:
                if s['s'] == 'assign' and s['place']['l'] == 0 and not s['place']['p'] and s['rv']['r'] == 'use' and \
                        s['rv']['a'].get('k') == 'const' and s['rv']['a'].get('bool') is True:
                    decided.add(bi)
        r = cfg.reachable_from([0], avoid={d['header']} | decided)
        return not (r & set(cfg.exits()))

    def _triangular(self, rec):
        nm = Norm()
        notes = rec['notes']
        ho, hi = rec['A'][1], rec['B'][1]
        rec['c'] = None
        why = rec['why']
        if ho == hi:
            why.append('both operands are the same item')
            return
        # which is the outer loop: the one whose index the other loop's start refers to
        so, si = notes[('loop', ho)]['start'], notes[('loop', hi)]['start']
        if 'idx%d' % hi in repr(so):
            ho, hi, so, si = hi, ho, si, so
        rec['outer'], rec['inner'] = ho, hi
        try:
            if not nm.rf(so).is_zero():
                why.append('the outer loop does not start at the first placement')
            d = nm.rf(si) - nm.atom('idx%d' % ho)
            from .poly import reduce_rf
            r = reduce_rf(d)
            if r.n.is_const() and r.d.is_const() and r.d.const_value() != 0:
                c = r.n.const_value() / r.d.const_value()
                if c.denominator == 1:
                    rec['c'] = int(c)
            if rec['c'] is None:
                why.append('the inner loop does not start at (outer index + constant): start = %s' % nm.rf(si).canon())
        except (NotNumeric, TypeError):
            why.append('loop windows are not arithmetic')
        if rec['misses']:
            why.append('some in-cell pairs are skipped (the pairwise call is conditional)')
        self._nesting(rec, {ho, hi})

    def _periodic(self, rec):
        notes = rec['notes']
        why = rec['why']
        ho, hk = rec['A'][1], rec['B'][1]
        rec['outer'], rec['inner'] = ho, hk
        rec['zero'] = rec['shells'] = None
        rec['mid'] = None
        nm = Norm()
        try:
            if not nm.rf(notes[('loop', ho)]['start']).is_zero() or not nm.rf(notes[('loop', hk)]['start']).is_zero():
                why.append('a periodic loop does not start at the first element')
        except (NotNumeric, TypeError):
            why.append('loop windows are not arithmetic')
        base = notes[('loop', hk)]['base']
        headers = {ho, hk}
        if _is_app(base, 'flat', 2):
            img = base[2][1]
            if not self._rel_base(base[2][0]) or img[2][1] != SYM('outer%d' % hk):
                why.append('the image list is not built from every relative position')
        else:
            img = base
            hm = _item_header(img[2][1])
            if hm is None or ('loop', hm) not in notes or not self._rel_base(notes[('loop', hm)]['base']):
                why.append('periodic_images is not applied to each item of relative_positions()')
            else:
                rec['mid'] = hm
                headers.add(hm)
                try:
                    if not nm.rf(notes[('loop', hm)]['start']).is_zero():
                        why.append('the loop over relative positions does not start at the first one')
                except (NotNumeric, TypeError):
                    pass
        if img[2][0] != SYM('self.cell'):
            why.append('periodic_images is not called on self.cell')
        rec['zero_value'] = img[2][3]
        # shells and zero on every path that reaches the call
        cases = {}
        for o in rec['hits']:
            b2 = o.st.notes[('loop', hk)]['base']
            im = b2[2][1] if _is_app(b2, 'flat', 2) else b2
            pc = tuple(c for c in o.pc[:o.st.notes.get('pc-at-start', len(o.pc))] if c[0] == 'cond')
            cases[(repr(im[2][2]), repr(im[2][3]))] = (im[2][2], im[2][3])
            rec.setdefault('shell_cases', []).append((pc, im[2][2]))
        rec['shell_values'] = [v[0] for v in cases.values()]
        rec['zero_values'] = [v[1] for v in cases.values()]
        self._nesting(rec, headers)

    # ------------------------------------------------------------------------------------------------------
    def prefilter_conditions(self, rec):
        """Conditions that decide, inside one iteration of the periodic nest, whether the pairwise call is made: those that hold
        on a path reaching the call and fail on a path that does not.  [(comparison value, polarity on the reaching path)]"""
        out = {}
        miss_conds = set()
        for o in rec['misses']:
            for c in o.pc[o.st.notes.get('pc-at-start', 0):]:
                if c[0] == 'cond':
                    miss_conds.add((repr(c[1]), c[2]))
        for o in rec['hits']:
            for c in o.pc[o.st.notes.get('pc-at-start', 0):]:
                if c[0] == 'cond':
                    out[(repr(c[1]), c[2])] = (c[1], c[2], (repr(c[1]), not c[2]) in miss_conds)
        return list(out.values())
