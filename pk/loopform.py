"""Loop form of a body (normalisation, judges nothing): the Iterator consumers `any`, `all`, `fold`, `sum`, `for_each`
and `count`-free `try`-less relatives are rewritten into the explicit `loop { match it.next() { .. } }` that their
documented definitions are, and the closures they receive are spliced in (pk/inline.py).  A rule that reasons about
"what is done for every item" then sees one shape whether the source says `for`, `.any(..)`, `.fold(..)` or `.sum()`.

    any(p)      = loop { match next() { None => break false, Some(x) => if p(x) { break true } } }
    all(p)      = loop { match next() { None => break true,  Some(x) => if !p(x) { break false } } }
    fold(a, f)  = acc = a; loop { match next() { None => break acc, Some(x) => acc = f(acc, x) } }
    sum()       = acc = 0; loop { match next() { None => break acc, Some(x) => acc = acc + x } }
    for_each(f) = loop { match next() { None => break, Some(x) => f(x) } }
"""
import copy

from .facts import Body
from .inline import inline_calls, resolve_closure_calls

CONSUMERS = ('any', 'all', 'fold', 'sum', 'for_each', 'find', 'find_map', 'position', 'count', 'try_fold', 'try_for_each')

_NEXT = {'k': 'const', 'ty': 'fn', 'fn': 'std::iter::Iterator::next', 'fn_canon': 'core::iter::traits::iterator::Iterator::next',
         'fn_local': False, 'gargs': [], 'trait': 'std::iter::Iterator', 'trait_canon': 'core::iter::traits::iterator::Iterator',
         'resolved': 'std::iter::Iterator::next', 'resolved_canon': 'core::iter::traits::iterator::Iterator::next',
         'resolved_local': False, 'synthetic': True}

_CALLMUT = {'k': 'const', 'ty': 'fn', 'fn': 'std::ops::FnMut::call_mut', 'fn_canon': 'core::ops::function::FnMut::call_mut',
            'fn_local': False, 'gargs': [], 'trait': 'std::ops::FnMut', 'trait_canon': 'core::ops::function::FnMut',
            'synthetic': True}


PAR_REDUCTIONS = ('max', 'max_by', 'min', 'min_by', 'max_by_key', 'min_by_key', 'reduce', 'reduce_with', 'collect', 'find_any',
                  'find_first', 'sum', 'count', 'for_each')

_CANDIDATE = {'k': 'const', 'ty': 'fn', 'fn': 'pk::candidate', 'fn_canon': 'pk::candidate', 'fn_local': False, 'gargs': [], 'synthetic': True}


_VEC_NEW = {'k': 'const', 'ty': 'fn', 'fn': 'std::vec::Vec::<T>::new', 'fn_canon': 'alloc::vec::{impl#0}::new', 'fn_local': False,
            'gargs': [], 'resolved': 'std::vec::Vec::<T>::new', 'resolved_canon': 'alloc::vec::{impl#0}::new', 'resolved_local': False,
            'synthetic': True}
_VEC_PUSH = {'k': 'const', 'ty': 'fn', 'fn': 'std::vec::Vec::<T, A>::push', 'fn_canon': 'alloc::vec::{impl#1}::push', 'fn_local': False,
             'gargs': [], 'resolved': 'std::vec::Vec::<T, A>::push', 'resolved_canon': 'alloc::vec::{impl#1}::push',
             'resolved_local': False, 'synthetic': True}


def _is_consumer(t, collects=False):
    fc = t['func']
    if fc.get('k') != 'const' or 'fn' not in fc:
        return None
    tr = fc.get('trait_canon') or fc.get('trait') or ''
    if tr.endswith('ParallelIterator') and not t.get('par_done'):
        last = fc['fn'].rsplit('::', 1)[-1]
        return 'par' if last in PAR_REDUCTIONS else None
    if not tr.endswith('iterator::Iterator') and not tr.endswith('iter::Iterator'):
        return None
    last = fc['fn'].rsplit('::', 1)[-1]
    if collects and last == 'collect' and (t.get('dest') or {}).get('ty', '').startswith('std::vec::Vec<'):
        # collect::<Vec<_>>() = { let mut v = Vec::new(); for x in it { v.push(x) }; v }   (opt-in: nest_form(collects=True))
        return 'collect'
    if last not in CONSUMERS:
        return None
    if last in ('try_fold', 'try_for_each') and not (t.get('dest') or {}).get('ty', '').startswith(
            ('std::result::Result<', 'std::option::Option<')):
        return None         # (a ControlFlow-valued try_fold is left as a call)
    res = fc.get('resolved_canon') or ''
    # a type's own override of the consumer (e.g. a specialised fold) is still the same function of the items
    return last


class _B:
    """Mutable view used while rewriting."""

    def __init__(self, body):
        self.raw = dict(body.raw)
        self.raw['blocks'] = copy.deepcopy(body.raw['blocks'])
        self.raw['locals'] = copy.deepcopy(body.raw['locals'])
        self.raw['debug'] = copy.deepcopy(body.raw.get('debug') or [])
        self.blocks = self.raw['blocks']
        self.locals = self.raw['locals']

    def local(self, ty, name=None):
        self.locals.append({'ty': ty, 'name': name, 'mut': True, 'syn': True})
        return len(self.locals) - 1

    def block(self, stmts, term):
        self.blocks.append({'stmts': stmts, 'term': term, 'cleanup': False, 'syn': True})
        return len(self.blocks) - 1


def _pl(l, ty='?', p=None):
    return {'l': l, 'p': list(p or []), 'ty': ty}


def _op(l, ty='?', p=None, k='move'):
    return {'k': k, 'l': l, 'p': list(p or []), 'ty': ty}


def _assign(place, rv, span):
    return {'s': 'assign', 'place': place, 'rv': rv, 'span': span, 'syn': True}


def _item_ty(fc):
    g = fc.get('gargs') or []
    return g[0] if g else '?'


def desugar_once(body, collects=False):
    """Rewrite every consumer call of `body`; returns (new body, count)."""
    sites = [(bi, t, _is_consumer(t, collects)) for bi, t in body.calls()]
    sites = [(bi, t, k) for bi, t, k in sites if k and t.get('target') is not None]
    if not sites:
        return body, 0
    w = _B(body)
    for bi, _, kind in sites:
        t = w.blocks[bi]['term']
        span = t.get('span')
        args, dest, target = t['args'], t['dest'], t['target']
        fc = t['func']
        it_ty = args[0].get('ty', '?')
        by_ref = it_ty.startswith('&mut')
        pre = w.blocks[bi]['stmts']
        if kind == 'par':
            # a rayon reduction: `for x in chain { candidate(x) }` followed by the reduction call itself (which of the
            # candidates it returns is the reduction's documented meaning; each candidate is produced once per item)
            it_l = w.local(it_ty, None)
            pre.append(_assign(_pl(it_l, it_ty), {'r': 'use', 'a': copy.deepcopy(args[0])}, span))
            n_l = w.local('std::option::Option<?item>')
            d_l = w.local('isize')
            x_l = w.local('?item')
            u_l = w.local('()')
            itr_l = w.local('&mut ' + it_ty)
            red = copy.deepcopy(t)
            red['par_done'] = True
            red['args'] = [_op(it_l, it_ty)] + copy.deepcopy(args[1:])
            ex = w.block([], red)
            hdr = w.block([_assign(_pl(itr_l), {'r': 'ref', 'mut': True, 'bk': 'Mut', 'place': _pl(it_l, it_ty)}, span)], None)
            sw = w.block([_assign(_pl(d_l, 'isize'), {'r': 'discr', 'place': _pl(n_l)}, span)], None)
            some0 = [{'downcast': 'Some', 'vi': 1}, {'f': 0, 'n': '0', 'of': 'std::option::Option<?item>', 'ty': '?item'}]
            bodyb = w.block([_assign(_pl(x_l, '?item'), {'r': 'use', 'a': _op(n_l, '?item', some0)}, span)], None)
            nf = dict(_NEXT)
            w.blocks[hdr]['term'] = {'t': 'call', 'func': nf, 'args': [_op(itr_l, '&mut ' + it_ty)], 'dest': _pl(n_l), 'target': sw,
                                     'unwind': None, 'span': span, 'fn_span': t.get('fn_span'), 'syn': 'par'}
            w.blocks[sw]['term'] = {'t': 'switch', 'discr': _op(d_l, 'isize'), 'arms': [['0', ex]], 'otherwise': bodyb, 'span': span}
            w.blocks[bodyb]['term'] = {'t': 'call', 'func': dict(_CANDIDATE), 'args': [_op(x_l, '?item')], 'dest': _pl(u_l, '()'),
                                       'target': hdr, 'unwind': None, 'span': span, 'fn_span': t.get('fn_span'), 'syn': 'par'}
            w.blocks[bi]['term'] = {'t': 'goto', 'target': hdr, 'span': span, 'syn_consumer': kind}
            continue
        # the iterator lives in a local `it`; `itr` is the &mut handed to next()
        if by_ref:
            it_ref_src = args[0]
            it_l = None
        else:
            it_l = w.local(it_ty, None)
            pre.append(_assign(_pl(it_l, it_ty), {'r': 'use', 'a': copy.deepcopy(args[0])}, span))
        n_l = w.local('std::option::Option<?item>')
        d_l = w.local('isize')
        x_l = w.local('?item')
        itr_l = w.local('&mut ' + (it_ty[5:] if by_ref else it_ty))
        clo_l = None
        if kind in ('any', 'all', 'for_each', 'fold', 'find', 'find_map', 'position', 'try_fold', 'try_for_each'):
            ci = 2 if kind in ('fold', 'try_fold') else 1
            clo_ty = args[ci].get('ty', '?')
            clo_l = w.local(clo_ty)
            pre.append(_assign(_pl(clo_l, clo_ty), {'r': 'use', 'a': copy.deepcopy(args[ci])}, span))
        acc_l = None
        if kind == 'fold':
            acc_ty = dest.get('ty', '?')
            acc_l = w.local(acc_ty)
            pre.append(_assign(_pl(acc_l, acc_ty), {'r': 'use', 'a': copy.deepcopy(args[1])}, span))
        if kind == 'collect':
            acc_ty = dest.get('ty', '?')
            acc_l = w.local(acc_ty)
        dty = dest.get('ty', '?')
        is_res = dty.startswith('std::result::Result<')
        wrap_adt = 'std::result::Result' if is_res else 'std::option::Option'
        wrap_ok = ('Ok', 0) if is_res else ('Some', 1)        # the variant that carries the output / says "go on"

        def wrapped(op):
            return {'r': 'aggr', 'agg': 'adt', 'adt': wrap_adt, 'variant': wrap_ok[0], 'vi': wrap_ok[1], 'fields': ['0'], 'ops': [op]}
        none_rv = {'r': 'aggr', 'agg': 'adt', 'adt': 'std::option::Option', 'variant': 'None', 'vi': 0, 'fields': [], 'ops': []}
        if kind == 'try_fold':
            acc_l = w.local('?acc')
            pre.append(_assign(_pl(acc_l, '?acc'), {'r': 'use', 'a': copy.deepcopy(args[1])}, span))
        if kind in ('position', 'count'):
            acc_l = w.local('usize')
            pre.append(_assign(_pl(acc_l, 'usize'), {'r': 'use', 'a': {'k': 'const', 'ty': 'usize', 'int': '0', 'syn': kind}}, span))
        if kind == 'sum':
            acc_ty = dest.get('ty', '?')
            acc_l = w.local(acc_ty)
            if acc_ty in ('f64', 'f32'):
                zero = {'k': 'const', 'ty': acc_ty, 'bits': '0', 'f': '0.0', 'fw': 64 if acc_ty == 'f64' else 32, 'syn': 'sum-identity'}
            else:
                zero = {'k': 'const', 'ty': acc_ty, 'int': '0', 'syn': 'sum-identity'}
            pre.append(_assign(_pl(acc_l, acc_ty), {'r': 'use', 'a': zero}, span))
        # exits
        if kind in ('any', 'all'):
            ex_none = w.block([_assign(copy.deepcopy(dest), {'r': 'use', 'a': {'k': 'const', 'ty': 'bool', 'bool': kind == 'all'}}, span)],
                              {'t': 'goto', 'target': target, 'span': span})
            ex_hit = w.block([_assign(copy.deepcopy(dest), {'r': 'use', 'a': {'k': 'const', 'ty': 'bool', 'bool': kind == 'any'}}, span)],
                             {'t': 'goto', 'target': target, 'span': span})
        elif kind in ('fold', 'sum', 'collect', 'count'):
            ex_none = w.block([_assign(copy.deepcopy(dest), {'r': 'use', 'a': _op(acc_l, dest.get('ty', '?'))}, span)],
                              {'t': 'goto', 'target': target, 'span': span})
        elif kind in ('find', 'find_map', 'position'):
            ex_none = w.block([_assign(copy.deepcopy(dest), copy.deepcopy(none_rv), span)], {'t': 'goto', 'target': target, 'span': span})
        elif kind == 'try_fold':
            ex_none = w.block([_assign(copy.deepcopy(dest), wrapped(_op(acc_l, '?acc')), span)], {'t': 'goto', 'target': target, 'span': span})
        elif kind == 'try_for_each':
            u0 = w.local('()')
            ex_none = w.block([_assign(_pl(u0, '()'), {'r': 'aggr', 'agg': 'tuple', 'ops': []}, span),
                               _assign(copy.deepcopy(dest), wrapped(_op(u0, '()')), span)], {'t': 'goto', 'target': target, 'span': span})
        else:
            ex_none = w.block([_assign(copy.deepcopy(dest), {'r': 'aggr', 'agg': 'tuple', 'ops': []}, span)],
                              {'t': 'goto', 'target': target, 'span': span})
        # header: itr = &mut it ; n = next(itr)
        hdr = w.block([], None)
        sw = w.block([], None)
        bodyb = w.block([], None)
        if by_ref:
            w.blocks[hdr]['stmts'].append(_assign(_pl(itr_l), {'r': 'ref', 'mut': True, 'bk': 'Mut', 'place':
                                                               _pl(it_ref_src['l'], '?', list(it_ref_src['p']) + ['deref'])}, span))
        else:
            w.blocks[hdr]['stmts'].append(_assign(_pl(itr_l), {'r': 'ref', 'mut': True, 'bk': 'Mut', 'place': _pl(it_l, it_ty)}, span))
        nf = dict(_NEXT)
        nf['self_ty'] = it_ty[5:] if by_ref else it_ty
        nf['gargs'] = [nf['self_ty']]
        w.blocks[hdr]['term'] = {'t': 'call', 'func': nf, 'args': [_op(itr_l, w.locals[itr_l]['ty'])], 'dest': _pl(n_l), 'target': sw, 'unwind': None,
                                 'span': span, 'fn_span': t.get('fn_span'), 'syn': kind}
        w.blocks[sw]['stmts'].append(_assign(_pl(d_l, 'isize'), {'r': 'discr', 'place': _pl(n_l)}, span))
        w.blocks[sw]['term'] = {'t': 'switch', 'discr': _op(d_l, 'isize'), 'arms': [['0', ex_none]], 'otherwise': bodyb, 'span': span}
        some0 = [{'downcast': 'Some', 'vi': 1}, {'f': 0, 'n': '0', 'of': 'std::option::Option<?item>', 'ty': '?item'}]
        w.blocks[bodyb]['stmts'].append(_assign(_pl(x_l, '?item'), {'r': 'use', 'a': _op(n_l, '?item', some0)}, span))
        if kind == 'collect':
            vr_l = w.local('&mut ' + acc_ty)
            u_l = w.local('()')
            w.blocks[bodyb]['stmts'].append(_assign(_pl(vr_l), {'r': 'ref', 'mut': True, 'bk': 'Mut', 'place': _pl(acc_l, acc_ty)}, span))
            w.blocks[bodyb]['term'] = {'t': 'call', 'func': dict(_VEC_PUSH), 'args': [_op(vr_l, '&mut ' + acc_ty), _op(x_l, '?item')],
                                       'dest': _pl(u_l, '()'), 'target': hdr, 'unwind': None, 'span': span, 'fn_span': t.get('fn_span'),
                                       'syn': 'collect'}
        elif kind == 'sum':
            w.blocks[bodyb]['stmts'].append(_assign(_pl(acc_l, acc_ty), {'r': 'binop', 'op': 'Add', 'a': _op(acc_l, acc_ty, k='copy'),
                                                                       'b': _op(x_l, acc_ty), 'syn': 'sum'}, span))
            w.blocks[bodyb]['term'] = {'t': 'goto', 'target': hdr, 'span': span}
        elif kind == 'count':
            one = {'k': 'const', 'ty': 'usize', 'int': '1', 'syn': 'count'}
            w.blocks[bodyb]['stmts'].append(_assign(_pl(acc_l, 'usize'), {'r': 'binop', 'op': 'Add', 'a': _op(acc_l, 'usize', k='copy'),
                                                                       'b': one, 'syn': 'count'}, span))
            w.blocks[bodyb]['term'] = {'t': 'goto', 'target': hdr, 'span': span}
        else:
            # r = clo(x)  /  acc = clo(acc, x)
            tup_l = w.local('(tuple)')
            if kind == 'find':
                # the predicate sees the item by reference
                xr_l = w.local('&?item')
                w.blocks[bodyb]['stmts'].append(_assign(_pl(xr_l, '&?item'), {'r': 'ref', 'mut': False, 'bk': 'Shared',
                                                                              'place': _pl(x_l, '?item')}, span))
                ops = [_op(xr_l, '&?item')]
            else:
                ops = ([_op(acc_l, '?')] if kind in ('fold', 'try_fold') else []) + [_op(x_l, '?item')]
            tup_ty = '(%s)' % ', '.join(['?'] * len(ops)) if len(ops) > 1 else '(?,)'
            w.blocks[bodyb]['stmts'].append(_assign(_pl(tup_l, tup_ty), {'r': 'aggr', 'agg': 'tuple', 'ops': ops}, span))
            cr_l = w.local('&mut ' + w.locals[clo_l]['ty'])
            w.blocks[bodyb]['stmts'].append(_assign(_pl(cr_l), {'r': 'ref', 'mut': True, 'bk': 'Mut', 'place': _pl(clo_l)}, span))
            r_ty = 'bool' if kind in ('any', 'all', 'find', 'position') else \
                (dest.get('ty', '?') if kind in ('fold', 'find_map', 'try_fold', 'try_for_each') else '()')
            r_l = w.local(r_ty)
            after = w.block([], None)
            cf = dict(_CALLMUT)
            cf['garg_fns'] = fc.get('garg_fns')
            w.blocks[bodyb]['term'] = {'t': 'call', 'func': cf, 'args': [_op(cr_l, w.locals[cr_l]['ty']), _op(tup_l, tup_ty)], 'dest': _pl(r_l, r_ty),
                                       'target': after, 'unwind': None, 'span': span, 'fn_span': t.get('fn_span'), 'syn': kind}
            if kind in ('any', 'all'):
                # any: r true -> hit ; all: r false -> hit
                if kind == 'any':
                    w.blocks[after]['term'] = {'t': 'switch', 'discr': _op(r_l, 'bool'), 'arms': [['0', hdr]], 'otherwise': ex_hit, 'span': span}
                else:
                    w.blocks[after]['term'] = {'t': 'switch', 'discr': _op(r_l, 'bool'), 'arms': [['0', ex_hit]], 'otherwise': hdr, 'span': span}
            elif kind == 'fold':
                w.blocks[after]['stmts'].append(_assign(_pl(acc_l, r_ty), {'r': 'use', 'a': _op(r_l, r_ty)}, span))
                w.blocks[after]['term'] = {'t': 'goto', 'target': hdr, 'span': span}
            elif kind == 'find':
                some_rv = {'r': 'aggr', 'agg': 'adt', 'adt': 'std::option::Option', 'variant': 'Some', 'vi': 1, 'fields': ['0'],
                           'ops': [_op(x_l, '?item')]}
                hit = w.block([_assign(copy.deepcopy(dest), some_rv, span)], {'t': 'goto', 'target': target, 'span': span})
                w.blocks[after]['term'] = {'t': 'switch', 'discr': _op(r_l, 'bool'), 'arms': [['0', hdr]], 'otherwise': hit, 'span': span}
            elif kind == 'position':
                some_rv = {'r': 'aggr', 'agg': 'adt', 'adt': 'std::option::Option', 'variant': 'Some', 'vi': 1, 'fields': ['0'],
                           'ops': [_op(acc_l, 'usize', k='copy')]}
                hit = w.block([_assign(copy.deepcopy(dest), some_rv, span)], {'t': 'goto', 'target': target, 'span': span})
                one = {'k': 'const', 'ty': 'usize', 'int': '1', 'syn': 'position'}
                miss = w.block([_assign(_pl(acc_l, 'usize'), {'r': 'binop', 'op': 'Add', 'a': _op(acc_l, 'usize', k='copy'), 'b': one,
                                                              'syn': 'position'}, span)], {'t': 'goto', 'target': hdr, 'span': span})
                w.blocks[after]['term'] = {'t': 'switch', 'discr': _op(r_l, 'bool'), 'arms': [['0', miss]], 'otherwise': hit, 'span': span}
            elif kind == 'find_map':
                dd_l = w.local('isize')
                w.blocks[after]['stmts'].append(_assign(_pl(dd_l, 'isize'), {'r': 'discr', 'place': _pl(r_l, r_ty)}, span))
                hit = w.block([_assign(copy.deepcopy(dest), {'r': 'use', 'a': _op(r_l, r_ty)}, span)],
                              {'t': 'goto', 'target': target, 'span': span})
                w.blocks[after]['term'] = {'t': 'switch', 'discr': _op(dd_l, 'isize'), 'arms': [['0', hdr]], 'otherwise': hit, 'span': span}
            elif kind in ('try_fold', 'try_for_each'):
                dd_l = w.local('isize')
                w.blocks[after]['stmts'].append(_assign(_pl(dd_l, 'isize'), {'r': 'discr', 'place': _pl(r_l, r_ty)}, span))
                stop = w.block([_assign(copy.deepcopy(dest), {'r': 'use', 'a': _op(r_l, r_ty)}, span)],
                               {'t': 'goto', 'target': target, 'span': span})
                payload = [{'downcast': wrap_ok[0], 'vi': wrap_ok[1]}, {'f': 0, 'n': '0', 'of': wrap_adt, 'ty': '?acc'}]
                goon_stmts = [_assign(_pl(acc_l, '?acc'), {'r': 'use', 'a': _op(r_l, '?acc', payload)}, span)] if kind == 'try_fold' else []
                goon = w.block(goon_stmts, {'t': 'goto', 'target': hdr, 'span': span})
                w.blocks[after]['term'] = {'t': 'switch', 'discr': _op(dd_l, 'isize'), 'arms': [[str(wrap_ok[1]), goon]],
                                           'otherwise': stop, 'span': span}
            else:
                w.blocks[after]['term'] = {'t': 'goto', 'target': hdr, 'span': span}
        if kind == 'collect':
            w.blocks[bi]['term'] = {'t': 'call', 'func': dict(_VEC_NEW), 'args': [], 'dest': _pl(acc_l, acc_ty), 'target': hdr,
                                    'unwind': None, 'span': span, 'fn_span': t.get('fn_span'), 'syn': 'collect', 'syn_consumer': kind}
        else:
            w.blocks[bi]['term'] = {'t': 'goto', 'target': hdr, 'span': span, 'syn_consumer': kind}
    nb = Body(w.raw, body.crate_kind)
    nb.key_in_facts = getattr(body, 'key_in_facts', body.path)
    nb.inlined = list(getattr(body, 'inlined', []))
    nb.original = getattr(body, 'original', body)
    return nb, len(sites)


OPTION_COMBINATORS = ('unwrap_or_else', 'unwrap_or', 'map', 'and_then', 'filter', 'or_else', 'map_or', 'map_or_else')

_CALLONCE = {'k': 'const', 'ty': 'fn', 'fn': 'std::ops::FnOnce::call_once', 'fn_canon': 'core::ops::function::FnOnce::call_once',
             'fn_local': False, 'gargs': [], 'trait': 'std::ops::FnOnce', 'trait_canon': 'core::ops::function::FnOnce', 'synthetic': True}


def desugar_options_once(body):
    """Option combinators that take closures (and unwrap_or) rewritten as the `match` their definitions are."""
    sites = []
    for bi, t in body.calls():
        fc = t['func']
        nm = fc.get('fn') or ''
        last = nm.rsplit('::', 1)[-1]
        if 'option::Option::<T>::' in nm and last in OPTION_COMBINATORS and t.get('target') is not None:
            sites.append((bi, last))
        elif 'option::Option::<T>::' in nm and last in ('is_some', 'is_none') and t.get('target') is not None and \
                t['args'] and 'l' in t['args'][0] and str(t['args'][0].get('ty', '')).startswith('&'):
            sites.append((bi, last))
        elif nm.endswith(('<impl bool>::then', '<impl bool>::then_some')) and t.get('target') is not None:
            sites.append((bi, last))
    if not sites:
        return body, 0
    w = _B(body)
    some0 = [{'downcast': 'Some', 'vi': 1}, {'f': 0, 'n': '0', 'of': 'std::option::Option<?>', 'ty': '?'}]
    none_rv = {'r': 'aggr', 'agg': 'adt', 'adt': 'std::option::Option', 'variant': 'None', 'vi': 0, 'fields': [], 'ops': []}
    for bi, kind in sites:
        t = w.blocks[bi]['term']
        span = t.get('span')
        args, dest, target = t['args'], t['dest'], t['target']
        pre = w.blocks[bi]['stmts']
        dty = dest.get('ty', '?')

        def call_clo(clo_l, ops, ret_place, tgt):
            tup_l = w.local('(tuple)')
            tup_ty = '(%s)' % ', '.join(['?'] * len(ops)) if len(ops) != 1 else '(?,)'
            stmts = [_assign(_pl(tup_l, tup_ty), {'r': 'aggr', 'agg': 'tuple', 'ops': ops}, span)]
            term = {'t': 'call', 'func': dict(_CALLONCE), 'args': [_op(clo_l, w.locals[clo_l]['ty']), _op(tup_l, tup_ty)],
                    'dest': ret_place, 'target': tgt, 'unwind': None, 'span': span, 'fn_span': t.get('fn_span'), 'syn': kind}
            return stmts, term

        def keep(i):
            l = w.local(args[i].get('ty', '?'))
            pre.append(_assign(_pl(l, args[i].get('ty', '?')), {'r': 'use', 'a': copy.deepcopy(args[i])}, span))
            return l
        if kind in ('is_some', 'is_none'):
            # `o.is_some()` is `match *o { Some(_) => true, None => false }`
            r_l = keep(0)
            d_l = w.local('isize')
            pre.append(_assign(_pl(d_l, 'isize'), {'r': 'discr', 'place': _pl(r_l, '?', ['deref'])}, span))
            tb = w.block([_assign(copy.deepcopy(dest), {'r': 'use', 'a': {'k': 'const', 'ty': 'bool', 'bool': kind == 'is_some'}}, span)],
                         {'t': 'goto', 'target': target, 'span': span})
            fb = w.block([_assign(copy.deepcopy(dest), {'r': 'use', 'a': {'k': 'const', 'ty': 'bool', 'bool': kind != 'is_some'}}, span)],
                         {'t': 'goto', 'target': target, 'span': span})
            w.blocks[bi]['term'] = {'t': 'switch', 'discr': _op(d_l, 'isize', k='copy'), 'arms': [['0', fb]], 'otherwise': tb, 'span': span,
                                    'syn_option': kind}
            continue
        if kind in ('then', 'then_some'):
            c_l = keep(0)
            v_l = keep(1)
            r_l = w.local('?')
            sblk = w.block([], None)
            s2 = w.block([_some(_op(r_l), span, dest['l'])] if not dest['p'] else [_assign(copy.deepcopy(dest), {'r': 'aggr', 'agg': 'adt',
                         'adt': 'std::option::Option', 'variant': 'Some', 'vi': 1, 'fields': ['0'], 'ops': [_op(r_l)]}, span)],
                         {'t': 'goto', 'target': target, 'span': span})
            nblk = w.block([_assign(copy.deepcopy(dest), dict(none_rv), span)], {'t': 'goto', 'target': target, 'span': span})
            if kind == 'then':
                st, term = call_clo(v_l, [], _pl(r_l), s2)
                w.blocks[sblk]['stmts'] += st
                w.blocks[sblk]['term'] = term
            else:
                w.blocks[sblk]['stmts'].append(_assign(_pl(r_l), {'r': 'use', 'a': _op(v_l)}, span))
                w.blocks[sblk]['term'] = {'t': 'goto', 'target': s2, 'span': span}
            w.blocks[bi]['term'] = {'t': 'switch', 'discr': _op(c_l, 'bool', k='copy'), 'arms': [['0', nblk]], 'otherwise': sblk, 'span': span,
                                    'syn_option': kind}
            continue
        o_l = keep(0)
        d_l = w.local('isize')
        pre.append(_assign(_pl(d_l, 'isize'), {'r': 'discr', 'place': _pl(o_l)}, span))
        x_l = w.local('?payload')
        sblk = w.block([_assign(_pl(x_l), {'r': 'use', 'a': _op(o_l, '?', some0)}, span)], None)
        nblk = w.block([], None)
        fin = {'t': 'goto', 'target': target, 'span': span}

        def set_some(blk, op):
            w.blocks[blk]['stmts'].append(_assign(copy.deepcopy(dest), {'r': 'aggr', 'agg': 'adt', 'adt': 'std::option::Option',
                                                                        'variant': 'Some', 'vi': 1, 'fields': ['0'], 'ops': [op]}, span))
        if kind == 'unwrap_or_else':
            c_l = keep(1)
            w.blocks[sblk]['stmts'].append(_assign(copy.deepcopy(dest), {'r': 'use', 'a': _op(x_l, dty)}, span))
            w.blocks[sblk]['term'] = fin
            st, term = call_clo(c_l, [], copy.deepcopy(dest), target)
            w.blocks[nblk]['stmts'] += st
            w.blocks[nblk]['term'] = term
        elif kind == 'unwrap_or':
            v_l = keep(1)
            w.blocks[sblk]['stmts'].append(_assign(copy.deepcopy(dest), {'r': 'use', 'a': _op(x_l, dty)}, span))
            w.blocks[sblk]['term'] = fin
            w.blocks[nblk]['stmts'].append(_assign(copy.deepcopy(dest), {'r': 'use', 'a': _op(v_l, dty)}, span))
            w.blocks[nblk]['term'] = dict(fin)
        elif kind in ('map', 'and_then'):
            c_l = keep(1)
            r_l = w.local('?')
            s2 = w.block([], dict(fin))
            if kind == 'map':
                st, term = call_clo(c_l, [_op(x_l)], _pl(r_l), s2)
                set_some(s2, _op(r_l))
            else:
                st, term = call_clo(c_l, [_op(x_l)], copy.deepcopy(dest), s2)
            w.blocks[sblk]['stmts'] += st
            w.blocks[sblk]['term'] = term
            w.blocks[nblk]['stmts'].append(_assign(copy.deepcopy(dest), dict(none_rv), span))
            w.blocks[nblk]['term'] = dict(fin)
        elif kind == 'filter':
            c_l = keep(1)
            xr_l = w.local('&?payload')
            w.blocks[sblk]['stmts'].append(_assign(_pl(xr_l), {'r': 'ref', 'mut': False, 'bk': 'Shared', 'place': _pl(x_l)}, span))
            r_l = w.local('bool')
            s2 = w.block([], None)
            s3 = w.block([], dict(fin))
            set_some(s3, _op(x_l))
            st, term = call_clo(c_l, [_op(xr_l)], _pl(r_l, 'bool'), s2)
            w.blocks[sblk]['stmts'] += st
            w.blocks[sblk]['term'] = term
            w.blocks[s2]['term'] = {'t': 'switch', 'discr': _op(r_l, 'bool'), 'arms': [['0', nblk]], 'otherwise': s3, 'span': span}
            w.blocks[nblk]['stmts'].append(_assign(copy.deepcopy(dest), dict(none_rv), span))
            w.blocks[nblk]['term'] = dict(fin)
        elif kind == 'or_else':
            c_l = keep(1)
            set_some(sblk, _op(x_l))
            w.blocks[sblk]['term'] = fin
            st, term = call_clo(c_l, [], copy.deepcopy(dest), target)
            w.blocks[nblk]['stmts'] += st
            w.blocks[nblk]['term'] = term
        elif kind == 'map_or':
            v_l = keep(1)
            c_l = keep(2)
            st, term = call_clo(c_l, [_op(x_l)], copy.deepcopy(dest), target)
            w.blocks[sblk]['stmts'] += st
            w.blocks[sblk]['term'] = term
            w.blocks[nblk]['stmts'].append(_assign(copy.deepcopy(dest), {'r': 'use', 'a': _op(v_l, dty)}, span))
            w.blocks[nblk]['term'] = dict(fin)
        elif kind == 'map_or_else':
            d2_l = keep(1)
            c_l = keep(2)
            st, term = call_clo(c_l, [_op(x_l)], copy.deepcopy(dest), target)
            w.blocks[sblk]['stmts'] += st
            w.blocks[sblk]['term'] = term
            st, term = call_clo(d2_l, [], copy.deepcopy(dest), target)
            w.blocks[nblk]['stmts'] += st
            w.blocks[nblk]['term'] = term
        w.blocks[bi]['term'] = {'t': 'switch', 'discr': _op(d_l, 'isize'), 'arms': [['0', nblk]], 'otherwise': sblk, 'span': span,
                                'syn_option': kind}
    nb = Body(w.raw, body.crate_kind)
    nb.key_in_facts = getattr(body, 'key_in_facts', body.path)
    nb.inlined = list(getattr(body, 'inlined', []))
    nb.original = getattr(body, 'original', body)
    return nb, len(sites)


def expand_generators_once(body):
    """`std::iter::successors(first, f)` read as the state machine its documentation defines: state `nx: Option<T>` (initially
    `first`); `next()` = match nx { None => None, Some(cur) => { nx = f(&cur); Some(cur) } }.  Every `next` call on an iterator
    that is (through into_iter / by_ref) such a generator is rewritten in place; returns (body, count)."""
    from .mirutil import Tracer, callee_name
    from .lineage import adaptor_chain
    tr = Tracer(body)
    gens = {}
    sites = []
    for bi, t in body.calls():
        if not (callee_name(t) or '').endswith('::next') or not t['args'] or t.get('target') is None or t.get('gen_done'):
            continue
        try:
            src, chain = adaptor_chain(tr, t['args'][0])
        except Exception:      # noqa: BLE001
            continue
        if src.get('o') != 'call' or not (callee_name(src['term']) or '').endswith('iter::successors'):
            continue        # (an expanded generator's constructor is `pk::generator`: its next calls are gone already)
        if any(c[0] not in ('into_iter', 'by_ref') for c in chain) or len(src['term']['args']) != 2:
            continue
        sites.append((bi, src['bb']))
    if not sites:
        return body, 0
    w = _B(body)
    for bi, gbb in sites:
        gt = w.blocks[gbb]['term']
        span = gt.get('span')
        if gbb not in gens:
            first, clo = gt['args']
            nx_l = w.local(first.get('ty', 'std::option::Option<?>'))
            clo_l = w.local(clo.get('ty', '?'))
            cp = lambda o: dict(o, k='copy') if o.get('k') == 'move' else copy.deepcopy(o)      # noqa: E731
            w.blocks[gbb]['stmts'].append(_assign(_pl(nx_l, w.locals[nx_l]['ty']), {'r': 'use', 'a': cp(first)}, span))
            w.blocks[gbb]['stmts'].append(_assign(_pl(clo_l, w.locals[clo_l]['ty']), {'r': 'use', 'a': cp(clo)}, span))
            gens[gbb] = (nx_l, clo_l)
            # the Successors value itself is now only a token: its state lives in nx / clo
            gt['func'] = {'k': 'const', 'ty': 'fn', 'fn': 'pk::generator', 'fn_canon': 'pk::generator', 'fn_local': False, 'gargs': [],
                          'synthetic': True, 'was': 'std::iter::successors'}
            gt['args'] = []
        nx_l, clo_l = gens[gbb]
        t = w.blocks[bi]['term']
        span = t.get('span')
        dest, tgt = t['dest'], t['target']
        opt_ty = w.locals[nx_l]['ty']
        item_ty = opt_ty[len('std::option::Option<'):-1] if opt_ty.startswith('std::option::Option<') else '?'
        d_l = w.local('isize')
        cur_l = w.local(item_ty)
        cref_l = w.local('&' + item_ty)
        tup_l = w.local('(tuple)')
        cr_l = w.local('&mut ' + w.locals[clo_l]['ty'])
        r_l = w.local(opt_ty)
        some0 = [{'downcast': 'Some', 'vi': 1}, {'f': 0, 'n': '0', 'of': opt_ty, 'ty': item_ty}]
        bn = w.block([_assign(copy.deepcopy(dest), {'r': 'aggr', 'agg': 'adt', 'adt': 'std::option::Option', 'variant': 'None', 'vi': 0,
                                                    'fields': [], 'ops': []}, span)],
                     {'t': 'goto', 'target': tgt, 'span': span})
        ba = w.block([_assign(_pl(nx_l, opt_ty), {'r': 'use', 'a': _op(r_l, opt_ty)}, span),
                      _assign(copy.deepcopy(dest), {'r': 'aggr', 'agg': 'adt', 'adt': 'std::option::Option', 'variant': 'Some', 'vi': 1,
                                                    'fields': ['0'], 'ops': [_op(cur_l, item_ty, k='copy')]}, span)],
                     {'t': 'goto', 'target': tgt, 'span': span})
        cf = dict(_CALLMUT)
        bs = w.block([_assign(_pl(cur_l, item_ty), {'r': 'use', 'a': _op(nx_l, item_ty, some0, k='copy')}, span),
                      _assign(_pl(cref_l), {'r': 'ref', 'mut': False, 'bk': 'Shared', 'place': _pl(cur_l, item_ty)}, span),
                      _assign(_pl(tup_l, '(&%s,)' % item_ty), {'r': 'aggr', 'agg': 'tuple', 'ops': [_op(cref_l, '&' + item_ty)]}, span),
                      _assign(_pl(cr_l), {'r': 'ref', 'mut': True, 'bk': 'Mut', 'place': _pl(clo_l, w.locals[clo_l]['ty'])}, span)],
                     {'t': 'call', 'func': cf, 'args': [_op(cr_l, w.locals[cr_l]['ty']), _op(tup_l, '(&%s,)' % item_ty)],
                      'dest': _pl(r_l, opt_ty), 'target': ba, 'unwind': None, 'span': span, 'fn_span': t.get('fn_span'),
                      'syn': 'successors'})
        w.blocks[bi]['stmts'].append(_assign(_pl(d_l, 'isize'), {'r': 'discr', 'place': _pl(nx_l, opt_ty)}, span))
        w.blocks[bi]['term'] = {'t': 'switch', 'discr': _op(d_l, 'isize'), 'arms': [['0', bn]], 'otherwise': bs, 'span': span,
                                'syn_generator': 'successors'}
    nb = Body(w.raw, body.crate_kind)
    nb.key_in_facts = getattr(body, 'key_in_facts', body.path)
    nb.inlined = list(getattr(body, 'inlined', []))
    nb.original = getattr(body, 'original', body)
    return nb, len(sites)


def loop_form(facts, body, rounds=6, collects=False):
    """Desugar consumers and splice the closures they call, until nothing changes (closures may contain consumers)."""
    cur = body
    n_total = 0
    for _ in range(rounds):
        cur2, n = desugar_once(cur, collects)
        cur2, n2 = desugar_options_once(cur2)
        n += n2
        cur2, n3 = expand_generators_once(cur2)
        n += n3
        if n == 0:
            break
        n_total += n
        cur2, inl = resolve_closure_calls(facts, cur2)
        cur2.inlined = sorted(set(getattr(cur2, 'inlined', [])) | set(inl))
        cur = cur2
    if cur is not body:
        cur.loop_form_sites = n_total
    return cur


# ---------------------------------------------------------------------------------------------------------------------
# Adaptor fusion: a loop over `up.map(f)` / `up.filter(p)` / `up.cloned()` / `up.flat_map(g)` / `a.cartesian_product(b)`
# is rewritten into the loop (nest) over the upstream iterator(s) that the adaptor's documented definition is:
#     for x in up.map(f)        { B(x) }   =   for y in up { let x = f(y); B(x) }
#     for x in up.filter(p)     { B(x) }   =   for y in up { if p(&y) { B(y) } }
#     for x in up.flat_map(g)   { B(x) }   =   for y in up { for x in g(y) { B(x) } }
#     for x in a.cartesian_product(b) { B(x) } = for y in a { for z in b.clone() { B((y, z)) } }
# Only the adaptor that feeds the loop directly is fused; the rewrite is repeated until the loop ranges over a source.

_INTO_ITER = {'k': 'const', 'ty': 'fn', 'fn': 'std::iter::IntoIterator::into_iter',
              'fn_canon': 'core::iter::traits::collect::IntoIterator::into_iter', 'fn_local': False, 'gargs': [],
              'trait': 'std::iter::IntoIterator', 'trait_canon': 'core::iter::traits::collect::IntoIterator', 'synthetic': True}

FUSABLE = ('map', 'filter', 'cloned', 'copied', 'flat_map', 'cartesian_product', 'inspect', 'zip')
_IDENT = ('into_iter', 'by_ref', 'into_par_iter', 'par_iter')


def _some(payload_op, span, dest_l):
    return _assign(_pl(dest_l), {'r': 'aggr', 'agg': 'adt', 'adt': 'std::option::Option', 'variant': 'Some', 'vi': 1,
                                 'fields': ['0'], 'ops': [payload_op]}, span)


def _find_fusable(body):
    """(header bb, ref stmt (bb, si), iterator local, adaptor name, adaptor call bb, [identity call bbs]) or None."""
    from .cfg import CFG
    from .mirutil import Tracer, callee_name
    cfg = CFG(body)
    tr = Tracer(body)
    for lp in cfg.loops():
        hdr = lp['header']
        t = body.blocks[hdr]['term']
        if t['t'] != 'call' or not (callee_name(t) or '').endswith('::next') or not t['args']:
            continue
        o = tr.origin(t['args'][0])
        # &mut it
        if not (o['o'] in ('call', 'rvalue', 'local') and o['p'] == ['ref'] and o.get('l') is not None):
            continue
        it_l = o['l']
        # the statement `_r = &mut it`
        a0 = t['args'][0]
        refdef = tr.defs.single(a0['l']) if 'l' in a0 and not a0['p'] else None
        if refdef is None or refdef[2] != 'assign' or refdef[3].get('r') != 'ref':
            continue
        # walk identity calls back to the adaptor
        cur = o
        idents = []
        for _ in range(6):
            if cur['o'] == 'call' and (callee_name(cur['term']) or '').rsplit('::', 1)[-1] in _IDENT and \
                    (cur['term']['func'].get('trait') or '').endswith(('IntoIterator', 'Iterator')):
                idents.append(cur['bb'])
                cur = tr.origin(cur['term']['args'][0])
                continue
            break
        if cur['o'] != 'call' or cur['p'] not in ([], ['ref']):
            continue
        at = cur['term']
        nm = (callee_name(at) or '').rsplit('::', 1)[-1]
        trn = at['func'].get('trait') or ''
        if nm == 'zip' and not _second_is_generator(tr, at):
            continue        # zip of two collections stays an adaptor (sequences are zipped by value, pk/sym.py)
        if nm in FUSABLE and ('Iterator' in trn or 'Itertools' in trn):
            # the next call's target must split on the discriminant of the item option
            nt = body.blocks[t['target']]['term'] if t.get('target') is not None else None
            if nt is None or nt['t'] != 'switch':
                continue
            d = tr.origin(nt['discr'])
            if not (d['o'] == 'rvalue' and d['rv']['r'] == 'discr' and d['rv']['place']['l'] == t['dest']['l'] and not d['rv']['place']['p']):
                continue
            arms = dict((v, b) for v, b in nt['arms'])
            if '0' not in arms:
                continue
            some_t = arms.get('1', nt['otherwise'])
            return {'hdr': hdr, 'loop': lp, 'ref': (refdef[0], refdef[1]), 'it': it_l, 'kind': nm, 'abb': cur['bb'],
                    'exit': arms['0'], 'some': some_t, 'sw': t['target'], 'cfg': cfg}
    return None


def _second_is_generator(tr, zip_term):
    """The second operand of a zip is a lazily generated sequence (iter::successors): only then is the lock-step loop form
    needed — the generator's state becomes a variable of the loop."""
    from .lineage import adaptor_chain
    from .mirutil import callee_name
    try:
        src, chain = adaptor_chain(tr, zip_term['args'][1])
    except Exception:      # noqa: BLE001
        return False
    return src.get('o') == 'call' and (callee_name(src['term']) or '').endswith('iter::successors') and \
        all(c[0] in ('into_iter', 'by_ref') for c in chain)


def fuse_once(body):
    fz = _find_fusable(body)
    if fz is None:
        return body, None
    w = _B(body)
    hdr, kind = fz['hdr'], fz['kind']
    ht = w.blocks[hdr]['term']
    span = ht.get('span')
    at = w.blocks[fz['abb']]['term']
    aargs, adest, atarget = at['args'], at['dest'], at['target']
    n_l = ht['dest']['l']
    # the adaptor call becomes a move of its upstream iterator; its closure is kept in a fresh local
    stm = w.blocks[fz['abb']]['stmts']
    stm.append(_assign(copy.deepcopy(adest), {'r': 'use', 'a': copy.deepcopy(aargs[0])}, at.get('span')))
    clo_l = None
    if kind in ('map', 'filter', 'flat_map', 'inspect'):
        clo_l = w.local(aargs[1].get('ty', '?'))
        stm.append(_assign(_pl(clo_l), {'r': 'use', 'a': copy.deepcopy(aargs[1])}, at.get('span')))
    b_l = None
    if kind == 'cartesian_product':
        b_l = w.local(aargs[1].get('ty', '?'))
        stm.append(_assign(_pl(b_l), {'r': 'use', 'a': copy.deepcopy(aargs[1])}, at.get('span')))
    if kind == 'zip':
        # the second iterator: zip calls into_iter() on its argument once, when the adaptor is built
        b_l = w.local(aargs[1].get('ty', '?'))
        w.blocks[fz['abb']]['term'] = {'t': 'call', 'func': dict(_INTO_ITER), 'args': [copy.deepcopy(aargs[1])], 'dest': _pl(b_l),
                                      'target': atarget, 'unwind': None, 'span': at.get('span'), 'fn_span': at.get('fn_span'),
                                      'syn': 'zip-second', 'syn_fused': kind}
    else:
        w.blocks[fz['abb']]['term'] = {'t': 'goto', 'target': atarget, 'span': at.get('span'), 'syn_fused': kind}
    some0 = [{'downcast': 'Some', 'vi': 1}, {'f': 0, 'n': '0', 'of': 'std::option::Option<?item>', 'ty': '?item'}]
    n0_l = w.local('std::option::Option<?up>')
    d0_l = w.local('isize')
    y_l = w.local('?up')

    def call_clo(args_ops, ret_ty, target):
        tup_l = w.local('(tuple)')
        tup_ty = '(%s)' % ', '.join(['?'] * len(args_ops)) if len(args_ops) > 1 else '(?,)'
        cr_l = w.local('&mut ' + w.locals[clo_l]['ty'])
        r_l = w.local(ret_ty)
        stmts = [_assign(_pl(tup_l, tup_ty), {'r': 'aggr', 'agg': 'tuple', 'ops': args_ops}, span),
                 _assign(_pl(cr_l), {'r': 'ref', 'mut': True, 'bk': 'Mut', 'place': _pl(clo_l)}, span)]
        cf = dict(_CALLMUT)
        term = {'t': 'call', 'func': cf, 'args': [_op(cr_l, w.locals[cr_l]['ty']), _op(tup_l, tup_ty)], 'dest': _pl(r_l, ret_ty), 'target': target,
                'unwind': None, 'span': span, 'fn_span': at.get('fn_span'), 'syn': kind}
        return stmts, term, r_l

    if kind in ('map', 'filter', 'cloned', 'copied', 'inspect', 'zip'):
        # hdr: n0 = next(..) -> s0 ; s0: switch discr(n0) [0 -> exit] otherwise b0
        ht['dest'] = _pl(n0_l)
        s0 = w.block([_assign(_pl(d0_l, 'isize'), {'r': 'discr', 'place': _pl(n0_l)}, span)], None)
        ht['target'] = s0
        b0 = w.block([_assign(_pl(y_l), {'r': 'use', 'a': _op(n0_l, '?up', some0)}, span)], None)
        w.blocks[s0]['term'] = {'t': 'switch', 'discr': _op(d0_l, 'isize'), 'arms': [['0', fz['exit']]], 'otherwise': b0, 'span': span}
        if kind == 'zip':
            # for x in up.zip(b) = for y in up { match b.next() { None => break, Some(z) => { x = (y, z); .. } } }
            # (Zip::next asks `up` first and does not touch `b` when `up` is exhausted)
            n1_l = w.local('std::option::Option<?z>')
            d1_l = w.local('isize')
            z_l = w.local('?z')
            pair_l = w.local('(tuple)')
            br_l = w.local('&mut ' + w.locals[b_l]['ty'])
            w.blocks[b0]['stmts'].append(_assign(_pl(br_l), {'r': 'ref', 'mut': True, 'bk': 'Mut', 'place': _pl(b_l)}, span))
            s1 = w.block([_assign(_pl(d1_l, 'isize'), {'r': 'discr', 'place': _pl(n1_l)}, span)], None)
            nf = dict(_NEXT)
            nf['self_ty'] = w.locals[b_l]['ty']
            nf['gargs'] = [nf['self_ty']]
            w.blocks[b0]['term'] = {'t': 'call', 'func': nf, 'args': [_op(br_l, w.locals[br_l]['ty'])], 'dest': _pl(n1_l), 'target': s1,
                                    'unwind': None, 'span': span, 'fn_span': at.get('fn_span'), 'syn': 'zip-next'}
            b1 = w.block([_assign(_pl(z_l), {'r': 'use', 'a': _op(n1_l, '?z', some0)}, span),
                          _assign(_pl(pair_l, '(?, ?)'), {'r': 'aggr', 'agg': 'tuple', 'ops': [_op(y_l), _op(z_l)]}, span),
                          _some(_op(pair_l), span, n_l)],
                         {'t': 'goto', 'target': fz['some'], 'span': span})
            w.blocks[s1]['term'] = {'t': 'switch', 'discr': _op(d1_l, 'isize'), 'arms': [['0', fz['exit']]], 'otherwise': b1, 'span': span}
        elif kind == 'map':
            b1 = w.block([], {'t': 'goto', 'target': fz['some'], 'span': span})
            st, term, r_l = call_clo([_op(y_l)], '?item', b1)
            w.blocks[b0]['stmts'] += st
            w.blocks[b0]['term'] = term
            w.blocks[b1]['stmts'].append(_some(_op(r_l), span, n_l))
        elif kind in ('filter', 'inspect'):
            yr_l = w.local('&?up')
            w.blocks[b0]['stmts'].append(_assign(_pl(yr_l), {'r': 'ref', 'mut': False, 'bk': 'Shared', 'place': _pl(y_l)}, span))
            b1 = w.block([], None)
            b2 = w.block([_some(_op(y_l), span, n_l)], {'t': 'goto', 'target': fz['some'], 'span': span})
            st, term, r_l = call_clo([_op(yr_l)], 'bool', b1)
            w.blocks[b0]['stmts'] += st
            w.blocks[b0]['term'] = term
            if kind == 'filter':
                w.blocks[b1]['term'] = {'t': 'switch', 'discr': _op(r_l, 'bool'), 'arms': [['0', hdr]], 'otherwise': b2, 'span': span,
                                        'syn_filter': True}
            else:
                w.blocks[b1]['term'] = {'t': 'goto', 'target': b2, 'span': span}
        else:
            w.blocks[b0]['stmts'].append(_some(_op(y_l, '?', ['deref'], k='copy'), span, n_l))
            w.blocks[b0]['term'] = {'t': 'goto', 'target': fz['some'], 'span': span}
    else:
        # nested: outer header ho over the upstream iterator (the loop's iterator local), inner header = hdr over `ii`
        it_l = fz['it']
        ur_l = w.local('&mut ?')
        ii_l = w.local('?inner-iter')
        ho = w.block([_assign(_pl(ur_l), {'r': 'ref', 'mut': True, 'bk': 'Mut', 'place': _pl(it_l)}, span)], None)
        so = w.block([_assign(_pl(d0_l, 'isize'), {'r': 'discr', 'place': _pl(n0_l)}, span)], None)
        nf = dict(_NEXT)
        w.blocks[ho]['term'] = {'t': 'call', 'func': nf, 'args': [_op(ur_l)], 'dest': _pl(n0_l), 'target': so, 'unwind': None,
                                'span': span, 'fn_span': at.get('fn_span'), 'syn': kind + '-outer'}
        bo = w.block([_assign(_pl(y_l), {'r': 'use', 'a': _op(n0_l, '?up', some0)}, span)], None)
        w.blocks[so]['term'] = {'t': 'switch', 'discr': _op(d0_l, 'isize'), 'arms': [['0', fz['exit']]], 'otherwise': bo, 'span': span}
        mk = w.block([], None)     # ii = into_iter(inner) ; goto hdr
        if kind == 'flat_map':
            st, term, r_l = call_clo([_op(y_l)], '?inner', mk)
            w.blocks[bo]['stmts'] += st
            w.blocks[bo]['term'] = term
            inner_op = _op(r_l)
        else:
            w.blocks[bo]['term'] = {'t': 'goto', 'target': mk, 'span': span}
            inner_op = _op(b_l, k='copy')
        w.blocks[mk]['term'] = {'t': 'call', 'func': dict(_INTO_ITER), 'args': [inner_op], 'dest': _pl(ii_l), 'target': hdr,
                                'unwind': None, 'span': span, 'fn_span': at.get('fn_span'), 'syn': kind + '-inner'}
        # inner header: the &mut now borrows ii
        rb, rs = fz['ref']
        w.blocks[rb]['stmts'][rs]['rv'] = {'r': 'ref', 'mut': True, 'bk': 'Mut', 'place': _pl(ii_l)}
        # entry edges of the old header go to the outer header; the inner exit continues the outer loop
        body_set = fz['loop']['body']
        for pi in fz['cfg'].pred[hdr]:
            if pi in body_set:
                continue
            _retarget(w.blocks[pi]['term'], hdr, ho)
        swt = w.blocks[fz['sw']]['term']
        swt['arms'] = [[v, (ho if v == '0' else b)] for v, b in swt['arms']]
        if kind == 'cartesian_product':
            # the item is the pair (y, z)
            n1_l = w.local('std::option::Option<?z>')
            z_l = w.local('?z')
            pair_l = w.local('(tuple)')
            ht['dest'] = _pl(n1_l)
            d1_l = w.local('isize')
            s1 = w.block([_assign(_pl(d1_l, 'isize'), {'r': 'discr', 'place': _pl(n1_l)}, span)], None)
            ht['target'] = s1
            b1 = w.block([_assign(_pl(z_l), {'r': 'use', 'a': _op(n1_l, '?z', some0)}, span),
                          _assign(_pl(pair_l, '(?, ?)'), {'r': 'aggr', 'agg': 'tuple', 'ops': [_op(y_l, k='copy'), _op(z_l)]}, span),
                          _some(_op(pair_l), span, n_l)],
                         {'t': 'goto', 'target': fz['some'], 'span': span})
            w.blocks[s1]['term'] = {'t': 'switch', 'discr': _op(d1_l, 'isize'), 'arms': [['0', ho]], 'otherwise': b1, 'span': span}
    nb = Body(w.raw, body.crate_kind)
    nb.key_in_facts = getattr(body, 'key_in_facts', body.path)
    nb.inlined = list(getattr(body, 'inlined', []))
    nb.original = getattr(body, 'original', body)
    return nb, kind


def _retarget(term, old, new):
    for k in ('target', 'otherwise', 'unwind'):
        if term.get(k) == old:
            term[k] = new
    if 'arms' in term:
        term['arms'] = [[v, (new if b == old else b)] for v, b in term['arms']]


_YIELD = {'k': 'const', 'ty': 'fn', 'fn': 'pk::yield', 'fn_canon': 'pk::yield', 'fn_local': False, 'gargs': [], 'synthetic': True}


def with_yield_loop(body):
    """A function that returns an iterator chain it built is read as `for x in <chain> { yield x }`."""
    from .mirutil import Tracer, callee_name
    ret_ty = body.locals[0]['ty']
    rets = [i for i, bb in enumerate(body.blocks) if bb['term']['t'] == 'return']
    if len(rets) != 1:
        return body, False
    tr = Tracer(body)
    o = tr.origin({'k': 'move', 'l': 0, 'p': []})
    if o['o'] != 'call' or o['p']:
        return body, False
    nm = (callee_name(o['term']) or '').rsplit('::', 1)[-1]
    trn = o['term']['func'].get('trait') or ''
    if not (('Iterator' in trn or 'Itertools' in trn) and (nm in FUSABLE or nm in ('iter', 'into_iter', 'skip', 'enumerate', 'zip', 'rev', 'take', 'chain', 'step_by'))):
        return body, False
    w = _B(body)
    rb = rets[0]
    span = w.blocks[rb]['term'].get('span')
    it_l = w.local(ret_ty)
    itr_l = w.local('&mut ' + ret_ty)
    n_l = w.local('std::option::Option<?item>')
    d_l = w.local('isize')
    x_l = w.local('?item')
    u_l = w.local('()')
    w.blocks[rb]['stmts'].append(_assign(_pl(it_l, ret_ty), {'r': 'use', 'a': _op(0, ret_ty)}, span))
    fin = w.block([], {'t': 'return', 'span': span})
    hdr = w.block([_assign(_pl(itr_l), {'r': 'ref', 'mut': True, 'bk': 'Mut', 'place': _pl(it_l, ret_ty)}, span)], None)
    sw = w.block([_assign(_pl(d_l, 'isize'), {'r': 'discr', 'place': _pl(n_l)}, span)], None)
    bodyb = w.block([_assign(_pl(x_l, '?item'), {'r': 'use', 'a': _op(n_l, '?item', [{'downcast': 'Some', 'vi': 1},
                     {'f': 0, 'n': '0', 'of': 'std::option::Option<?item>', 'ty': '?item'}])}, span)], None)
    w.blocks[hdr]['term'] = {'t': 'call', 'func': dict(_NEXT), 'args': [_op(itr_l, w.locals[itr_l]['ty'])], 'dest': _pl(n_l), 'target': sw, 'unwind': None,
                             'span': span, 'fn_span': span, 'syn': 'yield'}
    w.blocks[sw]['term'] = {'t': 'switch', 'discr': _op(d_l, 'isize'), 'arms': [['0', fin]], 'otherwise': bodyb, 'span': span}
    w.blocks[bodyb]['term'] = {'t': 'call', 'func': dict(_YIELD), 'args': [_op(x_l, '?item')], 'dest': _pl(u_l, '()'), 'target': hdr,
                               'unwind': None, 'span': span, 'fn_span': span, 'syn': 'yield'}
    w.blocks[rb]['term'] = {'t': 'goto', 'target': hdr, 'span': span}
    nb = Body(w.raw, body.crate_kind)
    nb.key_in_facts = getattr(body, 'key_in_facts', body.path)
    nb.inlined = list(getattr(body, 'inlined', []))
    nb.original = getattr(body, 'original', body)
    return nb, True


def nest_form(facts, body, rounds=24, yields=True, collects=False):
    """loop_form + the function's returned iterator read as a yield loop + adaptor fusion, to a fixed point."""
    cur = body
    did_yield = False
    if yields:
        cur, did_yield = with_yield_loop(cur)
    fused = []
    for _ in range(rounds):
        cur2 = loop_form(facts, cur, collects=collects)
        cur3, kind = fuse_once(cur2)
        if kind is None:
            cur = cur2
            break
        fused.append(kind)
        cur3, inl = resolve_closure_calls(facts, cur3)
        cur3.inlined = sorted(set(getattr(cur3, 'inlined', [])) | set(inl))
        cur = cur3
    if cur is not body:
        cur.fused = fused
        cur.yields = did_yield
    # a loop over a small constant table is one copy of its body per element (pk/unroll.py)
    from .unroll import unroll_const_loops
    keep0 = {k: getattr(cur, k) for k in ('fused', 'yields', 'inlined', 'original', 'key_in_facts') if hasattr(cur, k)}
    cur_u = unroll_const_loops(facts, cur)
    if cur_u is not cur:
        for k, v in keep0.items():
            setattr(cur_u, k, v)
        cur = cur_u
    # values that travel together in a struct / tuple become one local per field (pk/sroa.py)
    from .sroa import sroa
    cur = sroa(facts, cur)
    # the desugared consumers and inlined closures leave joins whose branch is known on every incoming path
    # (`r = Some(..)` / `r = None` followed by the consumer's own test of r): thread them (pk/thread.py)
    if cur is not body:
        from .thread import thread
        keep = {k: getattr(cur, k) for k in ('fused', 'yields', 'inlined', 'sroa', 'original', 'key_in_facts') if hasattr(cur, k)}
        cur2 = thread(cur)
        if cur2 is not cur:
            for k, v in keep.items():
                setattr(cur2, k, v)
            cur = cur2
    return cur
