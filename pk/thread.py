"""Jump threading over exported MIR: a branch on a value whose variant was fixed a few blocks earlier.

Splicing a helper that returns `Result`/`Option` (pk/inline.py), `matches!`, `let .. else` and the Option desugaring of
pk/loopform.py all leave this shape behind:

    bbA: R = Ok(v);  goto J          bbB: R = Err(e);  goto J
    J:   ...; T = Try::branch(move R)  ->  S:  d = discr(T); switch d [0 -> cont, 1 -> brk]

Every path knows which arm it will take, but a path-insensitive reader of the CFG (dominance of a guard over a use, "every
path to X passes Y") sees J as a join after which both arms are possible.  Threading gives every definition site its own copy
of the blocks between it and the switch, with the switch replaced by the jump its value selects; paths whose value is not
known keep the original blocks.  Behaviour is unchanged (blocks are duplicated, never altered), so every analysis may use the
threaded body.  Handled switch operands: the discriminant of a multiply-defined enum local, the discriminant of
`Try::branch(R)` for such an R, a multiply-defined bool local.
"""
import copy

from .cfg import term_succs
from .facts import Body

MAX_REGION = 24


def _variant_arm(term, value):
    for v, tgt in term['arms']:
        if v == str(value):
            return tgt
    return term['otherwise']


def _switch_source(blocks, si):
    """(kind, local) the switch of block si branches on: ('enum', X) for switch discr(X), ('bool', X) for switch X."""
    bb = blocks[si]
    t = bb['term']
    if t['t'] != 'switch' or 'l' not in t['discr'] or t['discr']['p']:
        return None
    d = t['discr']['l']
    if t['discr'].get('ty') == 'bool':
        # the bool itself, unless it is computed in this block (a plain copy of another bool local made here is looked through)
        for _ in range(3):
            last = None
            for i, s in enumerate(bb['stmts']):
                if s['s'] == 'assign' and s['place']['l'] == d:
                    last = (i, s)
            if last is None:
                return ('bool', d)
            i, s = last
            rv = s['rv']
            if s['place']['p'] or rv['r'] != 'use' or 'l' not in rv['a'] or rv['a']['p']:
                return None
            x = rv['a']['l']
            if any(s2['s'] == 'assign' and s2['place']['l'] == x for s2 in bb['stmts'][i:]):
                return None
            d = x
        return None
    for s in reversed(bb['stmts']):
        if s['s'] == 'assign' and s['place']['l'] == d and not s['place']['p']:
            if s['rv']['r'] == 'discr' and not s['rv']['place']['p']:
                return ('enum', s['rv']['place']['l'])
            return None
    return None


def _defs_in_block(bb, x):
    """What block bb does to local x, scanning backwards: ('variant', vi) | ('bool', b) | ('alias', y, stmt index) |
    ('unknown',) | None (x untouched)."""
    t = bb['term']
    if t['t'] == 'call' and t.get('dest') and t['dest']['l'] == x:
        fn = t['func'].get('fn') or ''
        if not t['dest']['p'] and fn.endswith('FromResidual::from_residual') and 'Result<' in t['dest'].get('ty', ''):
            return ('variant', 1)
        return ('unknown',)
    for si in range(len(bb['stmts']) - 1, -1, -1):
        s = bb['stmts'][si]
        if s['s'] != 'assign' or s['place']['l'] != x:
            continue
        if s['place']['p']:
            return ('unknown',)
        rv = s['rv']
        if rv['r'] == 'aggr' and rv.get('agg') == 'adt' and 'vi' in rv:
            return ('variant', rv['vi'])
        if rv['r'] == 'use' and rv['a'].get('k') == 'const' and 'bool' in rv['a']:
            return ('bool', rv['a']['bool'])
        if rv['r'] == 'use' and 'l' in rv['a'] and not rv['a']['p']:
            return ('alias', rv['a']['l'], si)
        return ('unknown',)
    return None


def _mentions_local(x, l):
    if isinstance(x, dict):
        if x.get('l') == l and 'p' in x:
            return True
        return any(_mentions_local(v, l) for v in x.values())
    if isinstance(x, list):
        return any(_mentions_local(v, l) for v in x)
    return False


def thread_once(body):
    blocks = body.blocks
    n = len(blocks)
    succ = [term_succs(bb['term']) for bb in blocks]
    pred = [[] for _ in range(n)]
    for i, ss in enumerate(succ):
        for s in ss:
            pred[s].append(i)
    # reachable, non-cleanup
    reach = set()
    stack = [0]
    while stack:
        x = stack.pop()
        if x in reach:
            continue
        reach.add(x)
        stack.extend(succ[x])
    # targets of back edges (loop headers): a region that contains one would be a specialised copy of a loop
    headers = set()
    color = {}
    stack2 = [(0, iter(succ[0]))]
    color[0] = 1
    while stack2:
        u, it = stack2[-1]
        adv = False
        for v2 in it:
            if color.get(v2, 0) == 0:
                color[v2] = 1
                stack2.append((v2, iter(succ[v2])))
                adv = True
                break
            if color.get(v2) == 1:
                headers.add(v2)
        if not adv:
            color[u] = 2
            stack2.pop()
    for si in sorted(reach):
        if blocks[si].get('cleanup') or blocks[si].get('thread_done'):
            continue
        src = _switch_source(blocks, si)
        if src is None:
            continue
        kind, x = src
        entry = si
        track = x
        conv = None          # Try::branch: Ok/Some -> Continue (0), Err/None -> Break (1)
        if kind == 'enum':
            # x = Try::branch(move R) in the only predecessor?
            ps = [p for p in pred[si] if p in reach]
            if len(ps) == 1:
                pt = blocks[ps[0]]['term']
                if pt['t'] == 'call' and pt.get('dest') and pt['dest']['l'] == x and not pt['dest']['p'] and \
                        (pt['func'].get('fn') or '').endswith('Try::branch') and pt['args'] and 'l' in pt['args'][0] and \
                        not pt['args'][0]['p'] and not blocks[ps[0]].get('cleanup'):
                    aty = pt['args'][0].get('ty', '')
                    if aty.startswith('std::result::Result<'):
                        conv = {0: 0, 1: 1}
                    elif aty.startswith('std::option::Option<'):
                        conv = {1: 0, 0: 1}
                    if conv is not None:
                        entry = ps[0]
                        track = pt['args'][0]['l']
        # walk back from `entry` collecting the region and the definition sites
        region = {}        # block -> tracked local at its END
        sites = []         # (block, value, first region successor set)
        unknown = False
        work = [(entry, track)]
        if conv is not None:
            region[si] = x          # the switch block follows the Try::branch call and is copied with it
            entry_stmts = blocks[entry]['stmts']
        elif kind == 'enum':
            k_d = max(i for i, s0 in enumerate(blocks[si]['stmts']) if s0['s'] == 'assign' and s0['place']['l'] == blocks[si]['term']['discr']['l'])
            entry_stmts = blocks[si]['stmts'][:k_d]
        else:
            entry_stmts = blocks[si]['stmts']
        while work and not unknown:
            b, v = work.pop()
            if b in region:
                if region[b] != v:
                    unknown = True
                continue
            if blocks[b].get('cleanup') or len(region) > MAX_REGION:
                unknown = True
                break
            view = {'stmts': entry_stmts, 'term': {'t': 'goto'}} if b == entry else blocks[b]
            if any(s0['s'] == 'assign' and s0['rv']['r'] == 'ref' and s0['rv'].get('mut') and s0['rv']['place']['l'] == v
                   for s0 in view['stmts']):
                unknown = True
                break
            d = _defs_in_block(view, v)
            if b == entry and d is not None and d[0] != 'alias':
                unknown = True      # decided inside the switch block itself: nothing to thread
                break
            if d is None:
                region[b] = v
                ps = [p for p in pred[b] if p in reach]
                if not ps:
                    unknown = True      # reaches the function entry without a definition
                for p in ps:
                    work.append((p, v))
            elif d[0] == 'alias':
                region[b] = v
                # above the copy the value is called d[1]: the rest of the block must not redefine it (checked by scanning)
                y = d[1]
                upper = {'stmts': view['stmts'][:d[2]], 'term': {'t': 'goto'}}
                du = _defs_in_block(upper, y)
                if du is None:
                    ps = [p for p in pred[b] if p in reach]
                    if not ps:
                        unknown = True
                    for p in ps:
                        work.append((p, y))
                elif du[0] in ('variant', 'bool'):
                    # defined and copied in the same block: the block is its own definition site
                    del region[b]
                    sites.append((b, du[1]))
                else:
                    unknown = True
            elif d[0] in ('variant', 'bool'):
                sites.append((b, d[1]))
            else:
                # a path with an unknown value: it keeps the original blocks
                sites.append((b, None))
        if unknown or not region or entry not in region or (set(region) & headers):
            continue
        known = [(b, val) for b, val in sites if val is not None]
        if not known:
            continue
        values = sorted({val for _b, val in known}, key=lambda z: (str(type(z)), z))
        # nothing to gain when a single known value already is the only way in and the switch has been threaded
        nb = copy.deepcopy(body.raw)
        nblocks = nb['blocks']
        st = nblocks[si]['term']
        changed = False
        for val in values:
            if kind == 'bool':
                arm = _variant_arm(st, 1 if val else 0) if any(v2 in ('0', '1') for v2, _t in st['arms']) else None
                if arm is None:
                    continue
                # MIR switches on bool list the false arm ("0") and fall to `otherwise` for true
                arm = _variant_arm(st, 0) if not val else st['otherwise']
            else:
                vi = conv[val] if conv is not None else val
                if conv is not None and val not in conv:
                    continue
                arm = _variant_arm(st, vi)
            cp = {}
            for b in sorted(region):
                nblocks.append(copy.deepcopy(blocks[b]))
                nblocks[-1]['threaded'] = True
                cp[b] = len(nblocks) - 1
            for b, nbi in cp.items():
                t2 = nblocks[nbi]['term']
                if b == si:
                    nblocks[nbi]['term'] = {'t': 'goto', 'target': cp.get(arm, arm), 'span': t2.get('span'), 'syn': True,
                                            'threaded_switch': True}
                    continue
                for k in ('target', 'otherwise'):
                    if t2.get(k) in cp:
                        t2[k] = cp[t2[k]]
                if 'arms' in t2:
                    t2['arms'] = [[v2, cp.get(tg, tg)] for v2, tg in t2['arms']]
            for b, v2 in known:
                if v2 != val:
                    continue
                t2 = nblocks[b]['term']
                for k in ('target', 'otherwise'):
                    if t2.get(k) in cp:
                        t2[k] = cp[t2[k]]
                        changed = True
                if 'arms' in t2:
                    na = [[v3, cp.get(tg, tg)] for v3, tg in t2['arms']]
                    if na != t2['arms']:
                        changed = True
                    t2['arms'] = na
        if not changed:
            continue
        nblocks[si]['threaded'] = True
        nblocks[si]['thread_done'] = True      # do not pick the original again (its copies may be threaded further)
        out = Body(nb, body.crate_kind)
        for a in ('key_in_facts', 'inlined', 'original', 'fused', 'yields'):
            if hasattr(body, a):
                setattr(out, a, getattr(body, a))
        return out
    return None


def thread(body, rounds=40):
    cur = body
    n = 0
    for _ in range(rounds):
        nxt = thread_once(cur)
        if nxt is None:
            break
        cur = nxt
        n += 1
    if n:
        cur.threaded = n
    return cur
