"""Value lineage: follow a value back through payload-preserving wrappers (`?`, ok_or_else,
unwrap/expect, deref, as_ref, From/Into, borrow ...) and iterator-adaptor chains."""
from .mirutil import Tracer, call_matches, callee_name

# (callee suffixes, index of the argument that carries the payload)
PASS = [
    (('Try>::branch', 'Try::branch'), 0),
    (('Option::<T>::ok_or_else', 'Option::<T>::ok_or', 'Option::<T>::expect', 'Option::<T>::unwrap',
      'Result::<T, E>::unwrap', 'Result::<T, E>::expect', 'Result::<T, E>::map_err', 'Result::<T, E>::ok',
      # anyhow::Context only decorates the error
      'Context<T, E>>::with_context', 'Context<T, E>>::context', 'anyhow::Context::with_context', 'anyhow::Context::context',
      # ... and on an Option it is ok_or_else(|| anyhow!(context))
      'for std::option::Option<T>>::context', 'for std::option::Option<T>>::with_context',
      'for std::result::Result<T, E>>::context', 'for std::result::Result<T, E>>::with_context'), 0),
    (('Deref>::deref', 'DerefMut>::deref_mut', 'Deref::deref', 'DerefMut::deref_mut', 'AsRef>::as_ref',
      'AsRef::as_ref', 'Borrow>::borrow', 'Borrow::borrow', 'BorrowMut>::borrow_mut'), 0),
    (('From>::from', 'Into>::into', 'From::from', 'Into::into', 'IntoIterator>::into_iter',
      'IntoIterator::into_iter'), 0),
]


def _strip_payload(p):
    """Drop a leading `as Variant`.0 payload projection (Continue.0 / Some.0 / Ok.0); returns the rest."""
    q = list(p)
    if len(q) >= 2 and isinstance(q[0], dict) and 'downcast' in q[0] and isinstance(q[1], dict) and q[1].get('f') == 0:
        return q[2:]
    return q


def through(tr: Tracer, op, extra=(), max_steps=40):
    """Returns (origin, steps): the origin reached after peeling payload-preserving calls.
    Projections applied on top of a peeled call (other than the payload projection itself) are kept."""
    steps = []
    o = tr.origin(op)
    for _ in range(max_steps):
        if o['o'] != 'call':
            break
        t = o['term']
        hit = False
        for pats, ai in list(PASS) + list(extra):
            if call_matches(t, *pats) and len(t['args']) > ai:
                steps.append(callee_name(t))
                rest = _strip_payload(o['p'])
                o = dict(tr.origin(t['args'][ai]))
                o['p'] = list(o['p']) + rest
                hit = True
                break
        if not hit:
            break
    return o, steps


ADAPTORS_OK = ('iter', 'iter_mut', 'into_iter', 'map', 'collect', 'cloned', 'copied', 'flat_map', 'enumerate',
               'into_par_iter', 'par_iter')


def adaptor_chain(tr: Tracer, op, max_steps=30):
    """Follow an iterator value back to its source.  Returns (source origin, [(adaptor name, term, bb)]) listed
    from the sink backwards.  An adaptor is any call whose first argument carries the upstream iterator and whose
    callee is a method of Iterator / ParallelIterator / IntoIterator / slice / Vec / itertools."""
    chain = []
    o = tr.origin(op)
    for _ in range(max_steps):
        if o['o'] != 'call':
            break
        t = o['term']
        nm = callee_name(t) or ''
        last = nm.rsplit('::', 1)[-1]
        tr_name = (t['func'].get('trait') or '')
        is_iter = ('Iterator' in tr_name or 'IntoIterator' in tr_name or 'Itertools' in tr_name
                   or 'ParallelIterator' in tr_name or 'IntoParallelIterator' in tr_name
                   or '<impl [T]>::iter' in nm or 'Vec::<T, A>::iter' in nm or 'Iterator' in nm
                   or call_matches(t, 'Deref>::deref', 'Deref::deref'))
        if not is_iter and t['args'] and call_matches(t, 'Index>::index', 'Index::index', 'SliceIndex') and len(t['args']) == 2 \
                and 'RangeFrom<' in t['args'][1].get('ty', ''):
            # `&v[a..]` is the sequence v without its first a elements: skip(a)
            ro = tr.origin(t['args'][1])
            if ro['o'] == 'rvalue' and ro['rv'].get('r') == 'aggr' and ro['rv'].get('ops'):
                pseudo = dict(t)
                pseudo['args'] = [t['args'][0], ro['rv']['ops'][0]]
                chain.append(('skip', pseudo, o['bb']))
                o = tr.origin(t['args'][0])
                continue
        if not is_iter or not t['args']:
            break
        chain.append((last, t, o['bb']))
        o = tr.origin(t['args'][0])
    return o, chain


IDENTITY_ADAPTORS = ('iter', 'into_iter', 'deref', 'collect', 'as_slice', 'by_ref', 'borrow', 'as_ref', 'from_iter', 'to_vec', 'into_vec', 'vec_of', 'into_par_iter', 'par_iter')


def significant(names):
    """Adaptor names that change which elements are seen (materialising / borrowing steps removed)."""
    return [n for n in names if n not in IDENTITY_ADAPTORS]
