"""Exact multivariate polynomial / rational-function normal form over Q.

Indeterminates are *atoms*: parameters (`self.sigma`) and opaque function applications with
recursively normalised arguments (`sin(<rf>)`, `sqrt(<rf>)`, `exp(<rf>)`, `min(<rf>,<rf>)`, ...).
Equality of two rational functions is decided by cross-multiplication after the rewrite rules
    sqrt(u)^2 -> u        cos(t)^2 -> 1 - sin(t)^2
have been applied to a fixpoint.  This decides identities over the REALS (no rounding).
"""
from fractions import Fraction


class Poly:
    __slots__ = ('t',)

    def __init__(self, terms=None):
        # terms: dict monomial -> Fraction ; monomial: tuple of (atom, exp) sorted by atom
        self.t = {}
        if terms:
            for m, c in terms.items():
                if c != 0:
                    self.t[m] = Fraction(c)

    @staticmethod
    def const(c):
        return Poly({(): Fraction(c)}) if c != 0 else Poly()

    @staticmethod
    def atom(a):
        return Poly({((a, 1),): Fraction(1)})

    def is_zero(self):
        return not self.t

    def is_const(self):
        return all(m == () for m in self.t)

    def const_value(self):
        return self.t.get((), Fraction(0))

    def __add__(self, o):
        r = dict(self.t)
        for m, c in o.t.items():
            v = r.get(m, 0) + c
            if v == 0:
                r.pop(m, None)
            else:
                r[m] = v
        return Poly(r)

    def __neg__(self):
        return Poly({m: -c for m, c in self.t.items()})

    def __sub__(self, o):
        return self + (-o)

    def __mul__(self, o):
        r = {}
        for m1, c1 in self.t.items():
            for m2, c2 in o.t.items():
                m = _mul_mono(m1, m2)
                v = r.get(m, 0) + c1 * c2
                if v == 0:
                    r.pop(m, None)
                else:
                    r[m] = v
        return Poly(r)

    def scale(self, c):
        return Poly({m: v * c for m, v in self.t.items()})

    def pow(self, n):
        r = Poly.const(1)
        b = self
        while n > 0:
            if n & 1:
                r = r * b
            b = b * b
            n >>= 1
        return r

    def atoms(self):
        s = set()
        for m in self.t:
            for a, _ in m:
                s.add(a)
        return s

    def __eq__(self, o):
        return isinstance(o, Poly) and self.t == o.t

    def __hash__(self):
        return hash(tuple(sorted(self.t.items())))

    def canon(self):
        if not self.t:
            return '0'
        parts = []
        for m in sorted(self.t, key=lambda m: (len(m), m)):
            c = self.t[m]
            ms = '*'.join(a if e == 1 else '%s^%d' % (a, e) for a, e in m)
            if ms:
                parts.append('%s*%s' % (c, ms) if c != 1 else ms)
            else:
                parts.append(str(c))
        return ' + '.join(parts)

    def __repr__(self):
        return self.canon()

    def min_degree_vector(self):
        """Common monomial factor of all terms."""
        common = None
        for m in self.t:
            d = dict(m)
            if common is None:
                common = d
            else:
                common = {a: min(e, d[a]) for a, e in common.items() if a in d}
        return common or {}


def _mul_mono(m1, m2):
    d = dict(m1)
    for a, e in m2:
        d[a] = d.get(a, 0) + e
    return tuple(sorted((a, e) for a, e in d.items() if e != 0))


def _div_mono_poly(p, common):
    if not common:
        return p
    r = {}
    for m, c in p.t.items():
        d = dict(m)
        for a, e in common.items():
            d[a] -= e
        r[tuple(sorted((a, e) for a, e in d.items() if e != 0))] = c
    return Poly(r)


class Ctx:
    """Atom registry: canonical atom string -> (function name, [RF args]) for rewrite rules."""

    def __init__(self):
        self.defs = {}

    def fn_atom(self, name, args, commutative=False):
        cs = [a.canon() for a in args]
        if commutative:
            order = sorted(range(len(cs)), key=lambda i: cs[i])
            cs = [cs[i] for i in order]
            args = [args[i] for i in order]
        s = '%s(%s)' % (name, ', '.join(cs))
        self.defs[s] = (name, list(args))
        return s


class RF:
    """Rational function num/den (den non-zero polynomial)."""
    __slots__ = ('n', 'd', 'cx')

    def __init__(self, n, d=None, cx=None):
        self.n = n
        self.d = d if d is not None else Poly.const(1)
        self.cx = cx

    @staticmethod
    def const(c, cx=None):
        return RF(Poly.const(c), None, cx)

    @staticmethod
    def atom(a, cx=None):
        return RF(Poly.atom(a), None, cx)

    def _cx(self, o):
        return self.cx or o.cx

    def __add__(self, o):
        if self.d == o.d:
            return RF(self.n + o.n, self.d, self._cx(o)).simp()
        return RF(self.n * o.d + o.n * self.d, self.d * o.d, self._cx(o)).simp()

    def __sub__(self, o):
        return self + (-o)

    def __neg__(self):
        return RF(-self.n, self.d, self.cx)

    def __mul__(self, o):
        return RF(self.n * o.n, self.d * o.d, self._cx(o)).simp()

    def inv(self):
        if self.n.is_zero():
            raise ZeroDivisionError('symbolic division by zero')
        return RF(self.d, self.n, self.cx).simp()

    def __truediv__(self, o):
        return self * o.inv()

    def pow(self, k):
        if k >= 0:
            return RF(self.n.pow(k), self.d.pow(k), self.cx).simp()
        return self.inv().pow(-k)

    def simp(self):
        """Cheap canonicalisation: cancel common monomial factors and scalar content; den leading coeff 1."""
        n, d = self.n, self.d
        if n.is_zero():
            return RF(Poly(), Poly.const(1), self.cx)
        if d.is_const():
            c = d.const_value()
            return RF(n.scale(1 / c), Poly.const(1), self.cx)
        cn, cd = n.min_degree_vector(), d.min_degree_vector()
        common = {a: min(e, cd[a]) for a, e in cn.items() if a in cd}
        common = {a: e for a, e in common.items() if e > 0}
        if common:
            n = _div_mono_poly(n, common)
            d = _div_mono_poly(d, common)
        if n == d:
            return RF(Poly.const(1), Poly.const(1), self.cx)
        if (-n) == d:
            return RF(Poly.const(-1), Poly.const(1), self.cx)
        # scalar: make the first (sorted) coefficient of d equal to 1
        lead = d.t[sorted(d.t, key=lambda m: (len(m), m))[0]]
        if lead != 1:
            n = n.scale(1 / lead)
            d = d.scale(1 / lead)
        # exact polynomial division when d is a single monomial-free factor of n is not attempted
        return RF(n, d, self.cx)

    def canon(self):
        r = reduce_rf(self)
        if r.d.is_const() and r.d.const_value() == 1:
            return '(%s)' % r.n.canon()
        return '(%s)/(%s)' % (r.n.canon(), r.d.canon())

    def __repr__(self):
        return self.canon()

    def is_zero(self):
        return reduce_rf(self).n.is_zero()

    def equals(self, o, rel_tol=Fraction(1, 10 ** 13)):
        """Identity of rational functions.  Coefficients are exact images of f64 literals; a constant the compiler folded
        (`const A: f64 = PI / 6.`) carries one rounding that the same expression evaluated here from its literals does not, so
        coefficients that agree to 1e-13 relative are the same constant."""
        d = reduce_rf(self - o)
        if d.n.is_zero():
            return True
        if not rel_tol:
            return False
        try:
            ref = reduce_rf(self).n * reduce_rf(o).d
            scale = max([abs(c) for c in ref.t.values()] + [abs(c) for c in (reduce_rf(o).n * reduce_rf(self).d).t.values()] + [Fraction(0)])
            lead = max([abs(c) for c in (reduce_rf(self).d * reduce_rf(o).d).t.values()] + [Fraction(0)])
            # d.n is normalised by reduce_rf; recompute the raw cross difference to compare on the same scale
            raw = reduce_rf(self).n * reduce_rf(o).d - reduce_rf(o).n * reduce_rf(self).d
            worst = max([abs(c) for c in raw.t.values()] + [Fraction(0)])
            return scale > 0 and worst <= rel_tol * scale
        except Exception:
            return False

    def atoms(self):
        return self.n.atoms() | self.d.atoms()

    def is_const_like(self):
        r = reduce_rf(self)
        return r.n.is_const() and r.d.is_const()


def _rewrite_poly(p, cx):
    """Apply sqrt(u)^2 -> u and cos(t)^2 -> 1 - sin(t)^2 once; returns (RF, changed)."""
    changed = False
    total = RF(Poly(), None, cx)
    for m, c in p.t.items():
        term = RF.const(c, cx)
        for a, e in m:
            info = cx.defs.get(a) if cx else None
            if info and info[0] == 'sqrt' and e >= 2:
                changed = True
                term = term * info[1][0].pow(e // 2)
                if e % 2:
                    term = term * RF.atom(a, cx)
            elif info and info[0] == 'cos' and e >= 2:
                changed = True
                sin_atom = cx.fn_atom('sin', info[1])
                one_minus = RF.const(1, cx) - RF.atom(sin_atom, cx).pow(2)
                term = term * one_minus.pow(e // 2)
                if e % 2:
                    term = term * RF.atom(a, cx)
            else:
                term = term * RF(Poly({((a, e),): Fraction(1)}), None, cx)
        total = total + term
    return total, changed


def reduce_rf(r):
    cx = r.cx
    if cx is None:
        return r.simp()
    cur = r
    for _ in range(12):
        n, c1 = _rewrite_poly(cur.n, cx)
        d, c2 = _rewrite_poly(cur.d, cx)
        if not (c1 or c2):
            break
        cur = (n / d) if not d.n.is_zero() else cur
        cur.cx = cx
    return cur.simp()


def subst(r, atom, repl):
    """Substitute rational function `repl` for `atom` in r (top-level occurrences only)."""
    cx = r.cx or repl.cx

    def sp(p):
        total = RF(Poly(), None, cx)
        for m, c in p.t.items():
            term = RF.const(c, cx)
            for a, e in m:
                if a == atom:
                    term = term * repl.pow(e)
                else:
                    term = term * RF(Poly({((a, e),): Fraction(1)}), None, cx)
            total = total + term
        return total
    n, d = sp(r.n), sp(r.d)
    out = n / d
    out.cx = cx
    return out
