"""Symbolic interpreter for loop-free MIR (value graphs, guarded piecewise results).

Given a body and symbolic arguments it enumerates the paths through the CFG, forking at every
switch on a symbolic value, inlining loop-free workspace callees (bounded depth) and applying a
small table of models for external callees (f64 intrinsics, nalgebra points / vectors /
translations / 3x3 transforms).  Everything else becomes an opaque pure application.

Values are immutable tuples:
  ('num', Fraction)  ('sym', name)  ('bin', op, a, b)  ('cmp', op, a, b)  ('un', op, a)
  ('app', fname, (args...))  ('struct', adt, (variant, vi)|None, ((field, value), ...))
  ('ref', frame, local, path)  ('bool', b)  ('unit',)  ('unk', why)
"""
from fractions import Fraction
import struct as _struct

from .cfg import CFG
from .mirutil import const_value

UNIT = ('unit',)


def NUM(x):
    return ('num', Fraction(x))


def SYM(n):
    return ('sym', n)


def APP(f, *args):
    return ('app', f, tuple(args))


def STRUCT(adt, variant, fields):
    return ('struct', adt, variant, tuple(fields))


def _is_log_test(v):
    """An opaque application that only involves the `log` crate: a level compared with a level filter, log::max_level(),
    the enabled() query of the logger."""
    if not isinstance(v, tuple):
        return False
    if v[0] == 'app':
        nm = v[1]
        if nm.startswith(('log::', 'Log::enabled')) or 'log::__private_api' in nm:
            return True
        if nm in ('PartialOrd::le', 'PartialOrd::lt', 'PartialOrd::ge', 'PartialOrd::gt', 'PartialEq::eq', 'PartialEq::ne') and v[2]:
            r = repr(v[2])
            return "'log::Level" in r or 'log::STATIC_MAX_LEVEL' in r or 'log::max_level' in r or 'log::LevelFilter' in r
    return False


def is_num(v):
    return isinstance(v, tuple) and v[0] == 'num'


def sfield(v, name):
    if not (isinstance(v, tuple) and len(v) > 3 and v[0] == 'struct'):
        return None
    for k, x in v[3]:
        if k == name:
            return x
    return None


def sset(v, name, val):
    out = []
    hit = False
    for k, x in v[3]:
        if k == name:
            out.append((k, val))
            hit = True
        else:
            out.append((k, x))
    if not hit:
        out.append((name, val))
    return (v[0], v[1], v[2], tuple(out))


class PathAbort(Exception):
    pass


class Outcome:
    def __init__(self, ret, pc, effects, st):
        self.ret = ret
        self.pc = pc
        self.effects = effects
        self.st = st


class State:
    def __init__(self):
        self.frames = {}
        self.pc = []
        self.effects = []
        self.known = {}   # canonical discriminant/bool value -> chosen value
        self.nfid = 0
        self.notes = {}   # per-path annotations (e.g. which sequence a loop ranges over)

    def fork(self):
        s = State()
        s.frames = {k: dict(v) for k, v in self.frames.items()}
        s.pc = list(self.pc)
        s.effects = list(self.effects)
        s.known = dict(self.known)
        s.nfid = self.nfid
        s.notes = dict(self.notes)
        return s


INT_TYS = ('u8', 'u16', 'u32', 'u64', 'u128', 'usize', 'i8', 'i16', 'i32', 'i64', 'i128', 'isize')


def _is_int_ty(t):
    return t in INT_TYS


def float_const(c):
    if 'bits' in c:
        bits = int(c['bits'])
        if c.get('fw') == 64:
            f = _struct.unpack('<d', _struct.pack('<Q', bits))[0]
        else:
            f = _struct.unpack('<f', _struct.pack('<I', bits))[0]
        if f != f:
            return ('numf', 'nan')
        if f in (float('inf'), float('-inf')):
            return ('numf', 'inf' if f > 0 else '-inf')
        return NUM(Fraction(f))
    return None


class SymEx:
    def __init__(self, facts, max_depth=8, max_paths=5000, opaque=(), models=None, seq_sources=(), sym_collections=False):
        self.f = facts
        self.sym_collections = sym_collections   # iterating a symbolic Vec / slice gives the symbolic sequence of its elements
        self.seq_sources = tuple(seq_sources)   # callee-name suffixes whose (opaque) result is a symbolic sequence
        self.max_depth = max_depth
        self.max_paths = max_paths
        self.opaque = set(opaque)          # workspace fn-name suffixes NOT to inline
        self.extra_models = models or []
        self.stop_blocks = set()           # region execution: reaching one of these blocks ends the path
        self.inlined = set()
        self.opaque_calls = set()
        self.opaque_mut_calls = set()   # uninterpreted callees that received a `&mut`
        self.concrete_asserts = set()   # (body path, block) of Assert terminators whose condition evaluated to a constant
        self.symbolic_asserts = set()   # ... whose condition stayed symbolic on some path
        self.failed_asserts = set()     # ... whose constant condition was the failing one on some path
        self._loopfree = {}
        self.aliases = {}               # repr(value of an uninterpreted call) -> the value it is known to be (a named sequence)
        self.aborted = []

    # ---------------------------------------------------------------- public
    def run(self, body, args, st=None, depth=0):
        """Evaluate `body` with argument values; returns a list of Outcome."""
        st = st or State()
        fid = st.nfid
        st.nfid += 1
        st.frames[fid] = {}
        for i, a in enumerate(args):
            st.frames[fid][i + 1] = a
        outs = []
        self._exec(body, fid, 0, st, depth, outs, {})
        return outs

    def run_region(self, body, start_bb, frame, stop_blocks):
        """Execute from `start_bb` with the given initial frame {local: value} until a block of `stop_blocks` (outcome.ret =
        ('stopped', bb)) or a return is reached."""
        st = State()
        fid = st.nfid
        st.nfid += 1
        st.frames[fid] = dict(frame)
        outs = []
        old = self.stop_blocks
        self.stop_blocks = set(stop_blocks)
        try:
            self._exec(body, fid, start_bb, st, 0, outs, {}, first=True)
        finally:
            self.stop_blocks = old
        self.region_fid = fid
        return outs

    def run_from(self, body, bb, st, fid, stop_blocks):
        """Continue executing `body` at block bb in an existing state/frame until a block of stop_blocks or a return."""
        outs = []
        old = self.stop_blocks
        self.stop_blocks = set(stop_blocks)
        try:
            self._exec(body, fid, bb, st, 0, outs, {}, first=True)
        finally:
            self.stop_blocks = old
        return outs

    def loopfree(self, body):
        k = body.path
        if k not in self._loopfree:
            self._loopfree[k] = not CFG(body).loops()
        return self._loopfree[k]

    # ---------------------------------------------------------------- places
    def project(self, st, v, e):
        if e == 'deref':
            if v[0] == 'ref':
                return self.load(st, v)
            return v
        if isinstance(e, dict):
            if 'f' in e:
                n = e.get('n') or str(e['f'])
                return self.field(st, v, n, e['f'])
            if 'downcast' in e:
                if v[0] == 'struct':
                    if v[2] is not None and v[2][1] != e['vi']:
                        raise PathAbort('downcast to wrong variant')
                    return v
                if v[0] == 'sym':
                    return SYM('%s#%s' % (v[1], e['downcast']))
                return APP('downcast:%s' % e['downcast'], v)
        return ('unk', 'projection %r' % (e,))

    def field(self, st, v, n, idx=None):
        if v[0] == 'ref':
            v = self.load(st, v)
        if v[0] == 'struct':
            x = sfield(v, n)
            if x is None and n == 'coords' and v[1] == 'Point':
                return STRUCT('Vector', None, [('x', sfield(v, 'x')), ('y', sfield(v, 'y'))])      # Point2 { coords: Vector2 }
            if x is None and idx is not None:
                x = sfield(v, str(idx))
            if x is None and v[1].startswith('?sym:'):
                return SYM('%s.%s' % (v[1][5:], n))
            if x is None:
                return ('unk', 'field %s of %s' % (n, v[1]))
            return x
        if v[0] == 'sym':
            return SYM('%s.%s' % (v[1], n))
        if v[0] == 'unk':
            return v
        return APP('field:%s' % n, v)

    def load(self, st, ref):
        _, fid, local, path = ref
        v = st.frames[fid].get(local, ('unk', 'uninit _%d' % local))
        for n in path:
            if n.startswith('#'):
                name, vi = n[1:].rsplit('@', 1)
                v = self.project(st, v, {'downcast': name, 'vi': int(vi)})
            else:
                v = self.field(st, v, n)
        return v

    def deep(self, st, v, depth=0):
        """Replace references by the values they point to (for reporting / opaque apps)."""
        if depth > 12 or not isinstance(v, tuple):
            return v
        if v[0] == 'ref':
            return self.deep(st, self.load(st, v), depth + 1)
        if v[0] == 'struct':
            return (v[0], v[1], v[2], tuple((k, self.deep(st, x, depth + 1)) for k, x in v[3]))
        if v[0] in ('bin', 'cmp'):
            return (v[0], v[1], self.deep(st, v[2], depth + 1), self.deep(st, v[3], depth + 1))
        if v[0] == 'un':
            return (v[0], v[1], self.deep(st, v[2], depth + 1))
        if v[0] == 'app':
            return (v[0], v[1], tuple(self.deep(st, x, depth + 1) for x in v[2]))
        return v

    def locate(self, st, fid, place):
        """Resolve a place to ('loc', fid, local, path) or ('symbase', value, remaining projection) when it
        lies in symbolic memory."""
        cur_f, cur_l, path = fid, place['l'], []
        proj = place['p']
        for i, e in enumerate(proj):
            if e == 'deref':
                v = self.load(st, ('ref', cur_f, cur_l, tuple(path)))
                if v[0] == 'ref':
                    cur_f, cur_l, path = v[1], v[2], list(v[3])
                else:
                    return ('symbase', v, list(proj[i + 1:]))
            elif isinstance(e, dict) and 'f' in e:
                path.append(e.get('n') or str(e['f']))
            elif isinstance(e, dict) and 'downcast' in e:
                path.append('#%s@%d' % (e['downcast'], e['vi']))
            else:
                return ('unk',)
        return ('loc', cur_f, cur_l, tuple(path))

    def read_place(self, st, fid, place):
        v = st.frames[fid].get(place['l'], ('unk', 'uninit _%d' % place['l']))
        for e in place['p']:
            if isinstance(e, dict) and ('idx' in e or 'cidx' in e) and 'f' not in e:
                # element of an array / finite sequence selected by a known index
                k = e.get('cidx') if 'cidx' in e else None
                if k is None:
                    iv = st.frames[fid].get(e['idx'])
                    k = int(iv[1]) if is_num(iv) and iv[1].denominator == 1 else None
                w = v
                for _ in range(3):
                    if isinstance(w, tuple) and w[0] == 'ref':
                        w = self.load(st, w)
                items = self.as_seq(st, w)
                if k is not None and items is not None and not e.get('from_end') and 0 <= k < len(items):
                    v = items[k]
                    continue
            v = self.project(st, v, e)
        return v

    def write_place(self, st, fid, place, val):
        loc = self.locate(st, fid, place)
        if loc[0] == 'loc':
            _, f2, l2, path = loc
            if not path:
                st.frames[f2][l2] = val
                return
            base = st.frames[f2].get(l2)
            st.frames[f2][l2] = self._set_path(base, path, val)
            return
        if loc[0] == 'symbase':
            v = loc[1]
            for e in loc[2]:
                v = self.project(st, v, e)
            st.effects.append((v, val))
            return
        st.effects.append((('unk', 'write'), val))

    def _set_path(self, base, path, val):
        path = [p for p in path if not p.startswith('#')]
        if not path:
            return val
        if base is None or base[0] != 'struct':
            if base is not None and base[0] == 'sym':
                # materialise a symbolic struct lazily
                base = STRUCT('?sym:' + base[1], None, [])
                # fields not overwritten stay symbolic through a marker
            else:
                base = STRUCT('?partial', None, [])
        cur = sfield(base, path[0])
        return sset(base, path[0], self._set_path(cur, path[1:], val))

    # ---------------------------------------------------------------- operands
    def operand(self, st, fid, op):
        if op.get('k') == 'const':
            if 'promoted' in op and 'uneval' in op:
                v = self.promoted(st, op)
                if v is not None:
                    return v
            elif 'uneval' in op and not any(k in op for k in ('int', 'bits', 'bool', 'str', 'char', 'fn')):
                # a named constant of aggregate type: evaluate its (straight-line) initialiser
                cb = getattr(self.f, 'consts', {}).get(self.f.norm(op['uneval']))
                if cb is not None and not any(bb['term']['t'] == 'switch' for bb in cb.blocks):
                    outs = self.run(cb, [], st=st)
                    if len(outs) == 1:
                        return outs[0].ret
            return self.constant(op)
        return self.read_place(st, fid, op)

    def promoted(self, st, c):
        """Value of a promoted constant: evaluate its (straight-line) initialiser exported with the owning body."""
        owner = self.f.body(c['uneval']) or self.f.helpers.get(self.f.norm(c['uneval'])) or \
            getattr(self.f, 'consts', {}).get(self.f.norm(c['uneval']))        # (a promoted inside a named constant's initialiser)
        if owner is None:
            return None
        for pr in owner.raw.get('promoted') or []:
            if pr.get('index') == c['promoted']:
                from .facts import Body
                raw = {'path': '%s::promoted[%d]' % (owner.path, c['promoted']), 'blocks': pr['blocks'], 'locals': pr['locals'],
                       'arg_count': 0, 'span': owner.raw['span']}
                pb = Body(raw, owner.crate_kind)
                if any(bb['term']['t'] == 'switch' for bb in pb.blocks):
                    return None
                outs = self.run(pb, [], st=st)
                if len(outs) == 1:
                    r = outs[0].ret
                    if isinstance(r, tuple) and r[0] == 'ref':
                        # `&CONST`: the reference points into the initialiser's own frame; hand out the value it refers to
                        # (reads through a non-reference value are reads of the value)
                        try:
                            r = self.deep(outs[0].st, r)
                        except Exception:      # noqa: BLE001
                            pass
                    return r
        return None

    def constant(self, c):
        if 'int' in c:
            return NUM(int(c['int']))
        if 'bits' in c:
            return float_const(c)
        if 'bool' in c:
            return ('bool', c['bool'])
        if 'str' in c:
            return ('str', c['str'])
        if 'char' in c:
            return NUM(c['char'])
        if 'fn' in c:
            return ('fn', (c.get('resolved') or c['fn']).replace('packing::', ''))
        if c.get('ty') == '()':
            return UNIT
        if 'uneval' in c:
            return SYM('const:' + c['uneval'].replace('packing::', ''))
        return ('unk', 'const %s' % c.get('dbg', c.get('ty')))

    # ---------------------------------------------------------------- rvalues
    def rvalue(self, st, fid, rv):
        r = rv['r']
        if r == 'use':
            return self.operand(st, fid, rv['a'])
        if r == 'binop':
            a = self.operand(st, fid, rv['a'])
            b = self.operand(st, fid, rv['b'])
            op = rv['op']
            if op in ('Div', 'Rem') and _is_int_ty(rv['a'].get('ty', '')):
                op = 'I' + op        # integer (floor) division is not rational division
            if op in ('Eq', 'Ne', 'Le', 'Ge', 'Lt', 'Gt') and (_is_int_ty(rv['a'].get('ty', '')) or rv['a'].get('ty') in ('bool', 'char')) \
                    and not is_num(a) and a == b and a[0] in ('sym', 'app', 'bin', 'un'):
                # an integer compared with (syntactically) itself; not for floats, where x == x fails for NaN
                return ('bool', op in ('Eq', 'Le', 'Ge'))
            return self.binop(op, a, b)
        if r == 'unop':
            a = self.operand(st, fid, rv['a'])
            if rv['op'] == 'Neg':
                if is_num(a):
                    return NUM(-a[1])
                return ('un', 'Neg', a)
            if rv['op'] == 'Not':
                if a[0] == 'bool':
                    return ('bool', not a[1])
                return ('un', 'Not', a)
            if rv['op'] == 'PtrMetadata':
                # the length of a slice whose elements are known
                items = self.as_seq(st, a)
                if items is not None:
                    return NUM(len(items))
            return APP('unop:' + rv['op'], a)
        if r in ('ref', 'rawptr'):
            loc = self.locate(st, fid, rv['place'])
            if loc[0] == 'loc':
                return ('ref', loc[1], loc[2], loc[3])
            has_idx = any(isinstance(e, dict) and ('idx' in e or 'cidx' in e) and 'f' not in e for e in rv['place']['p'])
            if has_idx and not rv.get('mut') and r == 'ref':
                # a shared reference to an element selected by a known index (`&TABLE[i]`): the element's value (reads through a
                # non-reference value are reads of the value)
                v = self.read_place(st, fid, rv['place'])
                if not (isinstance(v, tuple) and v[0] == 'unk'):
                    return v
            if loc[0] == 'symbase':
                v = loc[1]
                for e in loc[2]:
                    v = self.project(st, v, e)
                return v
            return ('unk', 'ref')
        if r == 'cast':
            a = self.operand(st, fid, rv['a'])
            k = rv['kind']
            if k.startswith(('IntToFloat', 'IntToInt', 'FloatToFloat')):
                if is_num(a):
                    return a
                return APP('as:' + rv['to'], a)
            if k.startswith('FloatToInt'):
                return APP('as:' + rv['to'], a)
            return a
        if r == 'discr':
            v = self.read_place(st, fid, rv['place'])
            if v[0] == 'ref':
                v = self.load(st, v)
            if v[0] == 'struct' and v[2] is not None:
                return NUM(v[2][1])
            return APP('discr', v)
        if r == 'aggr':
            ops = [self.operand(st, fid, o) for o in rv['ops']]
            agg = rv.get('agg')
            if agg == 'tuple':
                return STRUCT('(tuple)', None, [(str(i), o) for i, o in enumerate(ops)])
            if agg == 'adt':
                return STRUCT(rv['adt'].replace('packing::', ''), (rv['variant'], rv['vi']),
                              list(zip(rv['fields'], ops)))
            if agg == 'array':
                return STRUCT('[array]', None, [(str(i), o) for i, o in enumerate(ops)])
            if agg == 'closure':
                return STRUCT('closure:' + rv['closure'], None, [(str(i), o) for i, o in enumerate(ops)])
        return ('unk', 'rvalue ' + r)

    def binop(self, op, a, b):
        ov = op.endswith('WithOverflow')
        base = op.replace('WithOverflow', '').replace('Unchecked', '')
        if base in ('IDiv', 'IRem'):
            if is_num(a) and is_num(b) and b[1] != 0:
                q = int(a[1]) // int(b[1]) if base == 'IDiv' else int(a[1]) % int(b[1])
                return NUM(q)
            return APP(base.lower(), a, b)
        if base in ('Add', 'Sub', 'Mul', 'Div', 'Rem'):
            if is_num(a) and is_num(b):
                try:
                    if base == 'Add':
                        v = NUM(a[1] + b[1])
                    elif base == 'Sub':
                        v = NUM(a[1] - b[1])
                    elif base == 'Mul':
                        v = NUM(a[1] * b[1])
                    elif base == 'Div':
                        v = NUM(a[1] / b[1])
                    else:
                        v = ('bin', base, a, b)
                except ZeroDivisionError:
                    v = ('bin', base, a, b)
            else:
                v = ('bin', base, a, b)
            if ov:
                return STRUCT('(tuple)', None, [('0', v), ('1', ('bool', False))])
            return v
        if base in ('Lt', 'Le', 'Gt', 'Ge', 'Eq', 'Ne'):
            if is_num(a) and is_num(b):
                x, y = a[1], b[1]
                return ('bool', {'Lt': x < y, 'Le': x <= y, 'Gt': x > y, 'Ge': x >= y, 'Eq': x == y, 'Ne': x != y}[base])
            if a[0] == 'bool' and b[0] == 'bool' and base in ('Eq', 'Ne'):
                return ('bool', (a[1] == b[1]) == (base == 'Eq'))
            return ('cmp', base, a, b)
        if base in ('BitAnd', 'BitOr', 'BitXor'):
            if a[0] == 'bool' and b[0] == 'bool':
                return ('bool', {'BitAnd': a[1] and b[1], 'BitOr': a[1] or b[1], 'BitXor': a[1] != b[1]}[base])
            return ('bin', base, a, b)
        return ('bin', base, a, b)

    # ---------------------------------------------------------------- execution
    def _exec(self, body, fid, bb, st, depth, outs, visits, first=False):
        while True:
            if len(outs) > self.max_paths:
                raise PathAbort('too many paths')
            if depth == 0 and bb in self.stop_blocks and not first:
                outs.append(Outcome(('stopped', bb), list(st.pc), list(st.effects), st))
                return
            first = False
            visits = dict(visits)
            prog = st.notes.get('progress', 0)
            if bb in visits and (visits[bb] >= prog or prog > 64):
                # re-entered without having consumed an item of a finite sequence since the last visit: a real loop
                self.aborted.append((body.path, bb, 'loop'))
                return
            visits[bb] = prog
            blk = body.blocks[bb]
            try:
                for s in blk['stmts']:
                    if s['s'] == 'assign':
                        v = self.rvalue(st, fid, s['rv'])
                        self.write_place(st, fid, s['place'], v)
                    elif s['s'] == 'setdiscr':
                        pass
            except PathAbort:
                return
            t = blk['term']
            k = t['t']
            if k == 'goto':
                bb = t['target']
                continue
            if k == 'return':
                ret = st.frames[fid].get(0, UNIT)
                outs.append(Outcome(ret, list(st.pc), list(st.effects), st))
                return
            if k in ('unreachable', 'resume', 'terminate'):
                return
            if k == 'drop':
                bb = t['target']
                continue
            if k == 'assert':
                c = self.operand(st, fid, t['cond'])
                key = (body.path, bb)
                if c[0] == 'bool':
                    self.concrete_asserts.add(key)
                    if c[1] != t['expected']:
                        self.failed_asserts.add(key)
                        return
                else:
                    self.symbolic_asserts.add(key)
                    st.pc.append(('assume', c, t['expected'], t['kind']))
                bb = t['target']
                continue
            if k == 'switch':
                exps = (t.get('span') or {}).get('exps') or []
                if any(e.endswith('cfg') for e in exps) and any(e.startswith('debug_assert') for e in exps):
                    # `if cfg!(debug_assertions) { assert!(..) }`: a self-check that either does nothing or stops the program;
                    # for the values computed it is transparent (whether it can fire is C20's question)
                    skip = [b2 for v, b2 in t['arms'] if v == '0']
                    if skip:
                        bb = skip[0]
                        continue
                d = self.operand(st, fid, t['discr'])
                if d[0] == 'ref':
                    d = self.load(st, d)
                if is_num(d) or d[0] == 'bool':
                    val = int(d[1]) if is_num(d) else (1 if d[1] else 0)
                    tgt = t['otherwise']
                    for v, b2 in t['arms']:
                        if int(v) == val:
                            tgt = b2
                    bb = tgt
                    continue
                key = repr(d)
                if key in st.known:
                    val = st.known[key]
                    tgt = t['otherwise']
                    hit = False
                    for v, b2 in t['arms']:
                        if int(v) == val:
                            tgt = b2
                            hit = True
                    if val == 'other' or hit or isinstance(val, int):
                        if val == 'other':
                            tgt = t['otherwise']
                        bb = tgt
                        continue
                is_bool = t['discr'].get('ty') == 'bool'
                arms = list(t['arms'])
                # "is this log level enabled?" (`lvl <= STATIC_MAX_LEVEL && lvl <= max_level()`, `log_enabled!`): both outcomes are
                # explored, but the test says nothing about the program's values: tagged apart from the conditions on data
                ctag = 'cond'
                if is_bool and isinstance(d, tuple) and d[0] == 'app' and _is_log_test(d):
                    ctag = 'logcond'
                for v, b2 in arms:
                    s2 = st.fork()
                    iv = int(v)
                    s2.known[key] = iv
                    if is_bool:
                        s2.pc.append((ctag, d, iv != 0))
                    else:
                        s2.pc.append(('switch', d, iv))
                    self._exec(body, fid, b2, s2, depth, outs, visits)
                # otherwise
                if is_bool and len(arms) == 1:
                    other = 1 - int(arms[0][0])
                    st.known[key] = other
                    st.pc.append((ctag, d, other != 0))
                else:
                    st.known[key] = 'other'
                    st.pc.append(('switch-not', d, tuple(int(v) for v, _ in arms)))
                bb = t['otherwise']
                # an `otherwise` edge to an unreachable block is dropped by the loop
                continue
            if k == 'call':
                try:
                    results = self.call(body, fid, t, st, depth)
                except PathAbort:
                    return
                if t.get('target') is None:
                    return
                if len(results) == 1 and results[0][0] is st:
                    self.write_place(st, fid, t['dest'], results[0][1])
                    bb = t['target']
                    continue
                for s2, val in results:
                    self.write_place(s2, fid, t['dest'], val)
                    self._exec(body, fid, t['target'], s2, depth, outs, visits)
                return
            return

    # ---------------------------------------------------------------- calls
    def call(self, body, fid, t, st, depth):
        f = t['func']
        args = [self.operand(st, fid, a) for a in t['args']]
        if f.get('k') != 'const' or 'fn' not in f:
            return [(st, APP('indirect-call', *[self.deep(st, a) for a in args]))]
        name = (f.get('resolved') or f['fn']).replace('packing::', '')
        declared = f['fn'].replace('packing::', '')
        for m in self.extra_models:
            r = m(self, st, name, declared, args, t)
            if r is not None:
                return [(st, r)]
        r = self.model(st, name, declared, args, t)
        if r is not None:
            return [(st, r)]
        rs = self.model_combinators(st, name, args, depth, t)
        if rs is not None:
            return rs
        rs = self.model_sequences(st, name, args, depth, t)
        if rs is not None:
            return rs
        cb = self.f.body_of_fnconst(f)
        if cb is not None and cb.is_closure and len(args) == 2:
            # "rust-call" ABI: the arguments arrive as one tuple, the closure body takes them spread
            args = [args[0]] + self.spread(st, args[1], cb.arg_count - 1)
        if cb is not None and depth < self.max_depth and self.loopfree(cb) and \
                not any(name.endswith(o) for o in self.opaque):
            self.inlined.add(cb.path)
            sub = State.fork(st)
            # run callee on a forked state sharing frames (so refs into the caller stay valid)
            outs = self.run(cb, args, st=sub, depth=depth + 1)
            res = []
            for o in outs:
                res.append((o.st, o.ret))
            if not res:
                raise PathAbort('callee has no returning path')
            return res
        self.opaque_calls.add(name)
        if any(str(a.get('ty', '')).startswith('&mut') for a in t.get('args', []) if isinstance(a, dict)):
            # an uninterpreted call that could write through a `&mut` argument: values read back through that reference
            # afterwards are not known (analyses that need exhaustiveness check this flag)
            self.opaque_mut_calls.add(name)
        app = APP(short_name(name), *[self.deep(st, a) for a in args])
        if app[1].rsplit('::', 1)[-1] in ('deref', 'as_str', 'as_ref', 'borrow') and len(app[2]) == 1 and app[2][0][0] == 'str':
            return [(st, app[2][0])]        # a string constant seen through String / &str views is that string
        if app[1].rsplit('::', 1)[-1] in ('eq', 'ne') and len(app[2]) == 2 and app[2][0][0] == 'str' and app[2][1][0] == 'str' and \
                'PartialEq' in name:
            # equality of two string constants
            same = app[2][0][1] == app[2][1][1]
            return [(st, ('bool', same if app[1].endswith('eq') else not same))]
        if app[1].rsplit('::', 1)[-1] in ('ok_or', 'ok_or_else') and 'option::Option' in name and len(app[2]) == 2 and \
                app[2][0][0] == 'struct' and app[2][0][2] is not None:
            # Option::ok_or(_else) on a known variant
            o_ = app[2][0]
            if o_[2][0] == 'Some':
                return [(st, STRUCT('std::result::Result', ('Ok', 0), [('0', sfield(o_, '0'))]))]
            return [(st, STRUCT('std::result::Result', ('Err', 1), [('0', APP('pk::error', app[2][1]))]))]
        if app[1].rsplit('::', 1)[-1] in ('map_err', 'context', 'with_context', 'or_else') and len(app[2]) == 2 and \
                ('result::Result' in name or 'Context' in name) and app[2][0][0] == 'struct' and app[2][0][2] is not None and \
                app[2][0][1].endswith('result::Result'):
            # error-decorating wrappers on a known Result variant: Ok passes through, Err stays an (opaque) error
            r_ = app[2][0]
            if r_[2][0] == 'Ok':
                return [(st, r_)]
            if app[1].rsplit('::', 1)[-1] != 'or_else':
                return [(st, STRUCT('std::result::Result', ('Err', 1), [('0', APP('pk::error', sfield(r_, '0'), app[2][1]))]))]
        if app[1] in ('tuple::eq', 'tuple::ne') and len(app[2]) == 2:
            # (a, b) == (c, d)  is  a == c & b == d  (derived structural equality of tuples)
            ta, tb = app[2]
            if ta[0] == 'struct' and tb[0] == 'struct' and ta[1] == tb[1] == '(tuple)' and len(ta[3]) == len(tb[3]) and ta[3]:
                op, join = ('Eq', 'BitAnd') if app[1] == 'tuple::eq' else ('Ne', 'BitOr')
                parts = [('cmp', op, x[1], y[1]) for x, y in zip(ta[3], tb[3])]
                v = parts[0]
                for q in parts[1:]:
                    v = ('bin', join, v, q)
                return [(st, v)]
        if self.aliases and repr(app) in self.aliases:
            app = self.aliases[repr(app)]
            name = app[1]
        if self.seq_sources and any(name.endswith(x) for x in self.seq_sources):
            # a sequence of unknown length: {elem($x) | $x in base, position $i >= start}
            return [(st, ('sseq', app, SYM('$x'), NUM(0)))]
        return [(st, app)]

    # ---------------------------------------------------------------- closures and Option combinators
    def spread(self, st, tup, n):
        if tup[0] == 'ref':
            tup = self.load(st, tup)
        if n == 0:
            return []
        if tup[0] == 'struct':
            return [sfield(tup, str(i)) if sfield(tup, str(i)) is not None else ('unk', 'tuple field') for i in range(n)]
        return [self.field(st, tup, str(i), i) for i in range(n)]

    def closure_body(self, st, clo):
        v = clo
        for _ in range(4):
            if v[0] == 'ref':
                v = self.load(st, v)
        if v[0] == 'struct' and v[1].startswith('closure:'):
            return self.f.body(v[1][8:]), v
        if v[0] == 'fn':
            return self.f.body(v[1]), None
        return None, v

    def call_closure(self, st, clo, argvals, depth):
        """[(state, result)] of calling closure value `clo` with argument values, or None if its body is not available."""
        cb, env = self.closure_body(st, clo)
        if cb is None or depth >= self.max_depth or not self.loopfree(cb):
            return None
        self.inlined.add(cb.path)
        sub = State.fork(st)
        a = ([env] if cb.is_closure else []) + list(argvals)
        outs = self.run(cb, a, st=sub, depth=depth + 1)
        return [(o.st, o.ret) for o in outs]

    SOME = staticmethod(lambda x: STRUCT('std::option::Option', ('Some', 1), [('0', x)]))
    NONE = STRUCT('std::option::Option', ('None', 0), [])

    def opt_cases(self, st, v):
        """[(state, is_some, payload)] for an Option value (forks on a symbolic discriminant exactly like a `match`)."""
        for _ in range(4):
            if v[0] == 'ref':
                v = self.load(st, v)
        if v[0] == 'struct' and v[2] is not None:
            return [(st, v[2][1] == 1, sfield(v, '0'))]
        d = APP('discr', v)
        key = repr(d)
        if key in st.known and isinstance(st.known[key], int):
            some = st.known[key] == 1
            return [(st, some, self._some_payload(st, v) if some else None)]
        s0 = st.fork()
        s0.known[key] = 0
        s0.pc.append(('switch', d, 0))
        s1 = st.fork()
        s1.known[key] = 1
        s1.pc.append(('switch', d, 1))
        return [(s0, False, None), (s1, True, self._some_payload(s1, v))]

    def _some_payload(self, st, v):
        return self.project(st, self.project(st, v, {'downcast': 'Some', 'vi': 1}), {'f': 0, 'n': '0'})

    def bool_cases(self, st, c):
        if c[0] == 'ref':
            c = self.load(st, c)
        if c[0] == 'bool':
            return [(st, c[1])]
        key = repr(c)
        if key in st.known and isinstance(st.known[key], int):
            return [(st, st.known[key] != 0)]
        out = []
        for bv in (True, False):
            s2 = st.fork()
            s2.known[key] = 1 if bv else 0
            s2.pc.append(('logcond' if (isinstance(c, tuple) and c[0] == 'app' and _is_log_test(c)) else 'cond', c, bv))
            out.append((s2, bv))
        return out

    def default_of(self, st, ty, depth):
        """The value of `<ty as Default>::default()`: primitives, Option, and workspace types by their impl."""
        ty = (ty or '').replace('packing::', '').strip()
        if ty in INT_TYS or ty in ('f64', 'f32'):
            return NUM(0)
        if ty == 'bool':
            return ('bool', False)
        if ty.startswith('std::option::Option<'):
            return self.NONE
        for b in list(self.f.bodies.values()) + list(getattr(self.f, 'helpers', {}).values()):
            if b.fn_name == 'default' and not b.is_closure and (b.impl_trait or '').endswith('Default') and \
                    self.f.norm(b.impl_self_adt or '') == ty.split('<')[0] and self.loopfree(b) and depth < self.max_depth:
                outs = self.run(b, [], st=State.fork(st), depth=depth + 1)
                if len(outs) == 1:
                    return self.deep(outs[0].st, outs[0].ret)
        return None

    def model_combinators(self, st, name, args, depth, t=None):
        """Option / bool combinators that take closures, by their documented definitions (each is a `match`)."""
        last = name.rsplit('::', 1)[-1]
        if args and args[0][0] == 'ref' and (name.endswith(('mem::take', 'mem::replace')) or
                                             (last in ('take', 'replace') and 'option::Option::<T>::' in name)):
            # take(&mut x): returns x, leaves Default::default() (None for an Option); replace(&mut x, v): returns x, leaves v
            r = args[0]
            old_v = self.deep(st, self.load(st, r))
            if last == 'take':
                g = ((t or {}).get('func', {}).get('gargs') or [None])[0]
                new_v = self.NONE if 'option::Option::<T>::' in name else self.default_of(st, g, depth)
            else:
                new_v = args[1] if 'option::Option::<T>::' not in name else self.SOME(args[1])
            if new_v is not None:
                b0 = st.frames[r[1]].get(r[2])
                st.frames[r[1]][r[2]] = self._set_path(b0, list(r[3]), new_v) if r[3] else new_v
                return [(st, old_v)]
        is_opt = 'option::Option::<T>::' in name
        is_bool = '<impl bool>::' in name
        if last == 'contains' and ('ops::RangeInclusive::<Idx>::' in name or 'ops::Range::<Idx>::' in name) and len(args) == 2:
            # lo <= x && x <= hi  (x < hi for the half-open range), evaluated left to right like the source `&&`
            rg, x = args[0], args[1]
            for _ in range(3):
                if rg[0] == 'ref':
                    rg = self.load(st, rg)
                if x[0] == 'ref':
                    x = self.load(st, x)
            lo, hi = self.field(st, rg, 'start', 0), self.field(st, rg, 'end', 1)
            upper = 'Le' if 'RangeInclusive' in name else 'Lt'
            out = []
            for s2, b1 in self.bool_cases(st, self.binop('Le', lo, x)):
                if not b1:
                    out.append((s2, ('bool', False)))
                    continue
                for s3, b2 in self.bool_cases(s2, self.binop(upper, x, hi)):
                    out.append((s3, ('bool', b2)))
            return out
        if last == 'branch' and name.endswith(('Try>::branch', 'Try::branch')) and len(args) == 1 and \
                ('option::Option<' in name or 'result::Result<' in name):
            # `x?` on an Option / Result: Some/Ok(v) => Continue(v), None => Break(None), Err(e) => Break(Err(e))
            CF = 'std::ops::ControlFlow'
            v = args[0]
            for _ in range(3):
                if v[0] == 'ref':
                    v = self.load(st, v)
            if 'option::Option<' in name:
                res = []
                for s2, some, x in self.opt_cases(st, v):
                    if some:
                        res.append((s2, STRUCT(CF, ('Continue', 0), [('0', x)])))
                    else:
                        res.append((s2, STRUCT(CF, ('Break', 1), [('0', self.NONE)])))
                return res
            RES = 'std::result::Result'
            if v[0] == 'struct' and v[2] is not None:
                if v[2][0] == 'Ok':
                    return [(st, STRUCT(CF, ('Continue', 0), [('0', sfield(v, '0'))]))]
                return [(st, STRUCT(CF, ('Break', 1), [('0', STRUCT(RES, ('Err', 1), [('0', sfield(v, '0'))]))]))]
            d = APP('discr', v)
            key = repr(d)
            cases = []
            known = st.known.get(key)
            for vi in (0, 1):
                if isinstance(known, int) and known != vi:
                    continue
                s2 = st if isinstance(known, int) else st.fork()
                if not isinstance(known, int):
                    s2.known[key] = vi
                    s2.pc.append(('switch', d, vi))
                pay = self.project(s2, self.project(s2, v, {'downcast': 'Ok' if vi == 0 else 'Err', 'vi': vi}), {'f': 0, 'n': '0'})
                if vi == 0:
                    cases.append((s2, STRUCT(CF, ('Continue', 0), [('0', pay)])))
                else:
                    cases.append((s2, STRUCT(CF, ('Break', 1), [('0', STRUCT(RES, ('Err', 1), [('0', pay)]))])))
            return cases
        if last == 'from_residual' and 'FromResidual' in name and len(args) == 1:
            v = args[0]
            for _ in range(3):
                if v[0] == 'ref':
                    v = self.load(st, v)
            if 'option::Option<' in name:
                return [(st, self.NONE)]
            if 'result::Result<' in name and v[0] == 'struct' and v[2] is not None and v[2][0] == 'Err':
                return [(st, STRUCT('std::result::Result', ('Err', 1), [('0', APP('From::from', sfield(v, '0')))]))]
            return None
        if not (is_opt or is_bool):
            return None
        out = []
        if is_bool and last in ('then', 'then_some'):
            for s2, bv in self.bool_cases(st, args[0]):
                if not bv:
                    out.append((s2, self.NONE))
                elif last == 'then_some':
                    out.append((s2, self.SOME(self.deep(s2, args[1]))))
                else:
                    rs = self.call_closure(s2, args[1], [], depth)
                    if rs is None:
                        return None
                    out.extend((s3, self.SOME(r)) for s3, r in rs)
            return out
        if not is_opt:
            return None
        if last in ('is_some', 'is_none'):
            return [(s2, ('bool', some == (last == 'is_some'))) for s2, some, _ in self.opt_cases(st, args[0])]
        if last in ('unwrap', 'expect', 'unwrap_unchecked'):
            rs = [(s2, x) for s2, some, x in self.opt_cases(st, args[0]) if some]
            if not rs:
                raise PathAbort('unwrap of None')
            return rs
        if last in ('unwrap_or', 'unwrap_or_default'):
            if last == 'unwrap_or_default':
                return None
            return [(s2, x if some else args[1]) for s2, some, x in self.opt_cases(st, args[0])]
        if last in ('or',):
            return [(s2, self.SOME(x) if some else args[1]) for s2, some, x in self.opt_cases(st, args[0])]
        if last in ('filter', 'map', 'and_then', 'unwrap_or_else', 'map_or', 'map_or_else', 'or_else', 'is_some_and', 'ok_or_else'):
            for s2, some, x in self.opt_cases(st, args[0]):
                if last == 'filter':
                    if not some:
                        out.append((s2, self.NONE))
                        continue
                    # the predicate receives a reference to the payload: hand it the value (deref of a non-ref is the value)
                    rs = self.call_closure(s2, args[1], [x], depth)
                    if rs is None:
                        return None
                    for s3, r in rs:
                        for s4, bv in self.bool_cases(s3, r):
                            out.append((s4, self.SOME(x) if bv else self.NONE))
                elif last in ('map', 'and_then', 'is_some_and'):
                    if not some:
                        out.append((s2, ('bool', False) if last == 'is_some_and' else self.NONE))
                        continue
                    rs = self.call_closure(s2, args[1], [x], depth)
                    if rs is None:
                        return None
                    out.extend((s3, self.SOME(r) if last == 'map' else r) for s3, r in rs)
                elif last in ('unwrap_or_else', 'or_else'):
                    if some:
                        out.append((s2, x if last == 'unwrap_or_else' else self.SOME(x)))
                        continue
                    rs = self.call_closure(s2, args[1], [], depth)
                    if rs is None:
                        return None
                    out.extend(rs)
                elif last == 'map_or':
                    if not some:
                        out.append((s2, args[1]))
                        continue
                    rs = self.call_closure(s2, args[2], [x], depth)
                    if rs is None:
                        return None
                    out.extend(rs)
                elif last == 'map_or_else':
                    rs = self.call_closure(s2, args[2], [x], depth) if some else self.call_closure(s2, args[1], [], depth)
                    if rs is None:
                        return None
                    out.extend(rs)
                else:
                    return None
            return out
        return None

    # ---------------------------------------------------------------- finite sequences
    # A sequence whose elements are all known (an array literal, a constant table, an Option, a Vec built by pushes, and
    # anything obtained from those by iter/map/filter/zip/chain/enumerate/collect) is the value ('seq', (items...)); the
    # consumers find/any/all/position/fold/sum/count are unrolled over it by their documented definitions.
    def as_seq(self, st, v):
        for _ in range(4):
            if isinstance(v, tuple) and v[0] == 'ref':
                v = self.load(st, v)
        if not isinstance(v, tuple):
            return None
        if v[0] == 'seq':
            return list(v[1])
        if v[0] == 'struct' and v[1] == '[array]':
            return [x for _, x in v[3]]
        if v[0] == 'struct' and v[1] == 'std::option::Option' and v[2] is not None:
            return [sfield(v, '0')] if v[2][1] == 1 else []
        return None

    def model_sequences(self, st, name, args, depth, t=None):
        last = name.rsplit('::', 1)[-1]
        if not args and name.endswith(('Vec::<T>::new', 'Vec::<T, A>::new', 'Vec::<T>::with_capacity')):
            return [(st, ('seq', ()))]
        if name.endswith('Vec::<T>::with_capacity') or name.endswith('Vec::<T, A>::with_capacity'):
            return [(st, ('seq', ()))]
        if not args:
            return None
        if name == 'pk::vec_of':
            items = self.as_seq(st, args[0])
            return [(st, ('seq', tuple(items)))] if items is not None else None
        trait = (t or {}).get('func', {}).get('trait') or ''
        seqish = ('Iterator' in trait or 'IntoIterator' in trait or '<impl [T]>::' in name or 'Vec::<T, A>::' in name
                  or 'Vec::<T>::' in name or 'array' in name or 'slice::' in name or 'Itertools' in trait
                  or 'ops::Index' in trait or 'ops::Deref' in trait or 'Borrow' in trait or 'AsRef' in trait or 'Extend' in trait)
        if not seqish:
            return None
        items = self.as_seq(st, args[0])
        a0 = args[0]
        for _ in range(3):
            if isinstance(a0, tuple) and a0[0] == 'ref':
                a0 = self.load(st, a0)
        if isinstance(a0, tuple) and a0[0] == 'sseq':
            r = self.model_sseq(st, last, a0, args, depth)
            if r is not None:
                return r
        if isinstance(a0, tuple) and a0[0] == 'seqmin' and last in ('iter', 'into_iter', 'collect', 'chain', 'by_ref', 'to_vec', 'from_iter'):
            return [(st, a0)]       # known prefix, unknown tail: still at least the prefix
        if items is not None and last == 'chain' and len(args) == 2 and self.as_seq(st, args[1]) is None and \
                'Option' not in (args[1][1] if args[1][0] == 'struct' else '') and args[1][0] in ('app', 'unk', 'sym'):
            return [(st, ('seqmin', tuple(items)))]
        if last == 'next' and len(args) == 1 and args[0][0] == 'ref' and items is not None and \
                isinstance(a0, tuple) and a0[0] == 'seq' and ('Iterator' in trait):
            # a finite, known sequence is iterated concretely: the loop around this call is unrolled (see _exec: a block may be
            # re-entered only after an item was consumed, so the unrolling ends with the sequence)
            r = args[0]
            rest = ('seq', tuple(items[1:]))
            b0 = st.frames[r[1]].get(r[2])
            st.frames[r[1]][r[2]] = self._set_path(b0, list(r[3]), rest) if r[3] else rest
            st.notes['progress'] = st.notes.get('progress', 0) + 1       # (exhaustion is the last step; runaway re-entry is bounded)
            if items:
                return [(st, STRUCT('std::option::Option', ('Some', 1), [('0', items[0])]))]
            return [(st, STRUCT('std::option::Option', ('None', 0), []))]
        if last in ('push', 'append', 'extend') and args[0][0] == 'ref':
            cur = self.load(st, args[0])
            base = self.as_seq(st, cur)
            if base is None:
                if isinstance(cur, tuple) and cur[0] == 'seqmin':
                    return [(st, UNIT)]      # known prefix, unknown tail: appending keeps the prefix
                return None
            if last == 'push':
                new = base + [self.deep(st, args[1]) if args[1][0] != 'ref' else args[1]]
            else:
                other = self.as_seq(st, args[1])
                o1 = args[1]
                for _ in range(3):
                    if isinstance(o1, tuple) and o1[0] == 'ref':
                        o1 = self.load(st, o1)
                if other is None and isinstance(o1, tuple) and o1[0] == 'sseq' and not base:
                    # an empty Vec extended by a symbolic sequence IS that sequence
                    r = args[0]
                    b0 = st.frames[r[1]].get(r[2])
                    st.frames[r[1]][r[2]] = self._set_path(b0, list(r[3]), o1) if r[3] else o1
                    return [(st, UNIT)]
                if other is None:
                    # appended by a sequence of unknown length: the prefix is still known
                    r = args[0]
                    b0 = st.frames[r[1]].get(r[2])
                    st.frames[r[1]][r[2]] = self._set_path(b0, list(r[3]), ('seqmin', tuple(base))) if r[3] else ('seqmin', tuple(base))
                    return [(st, UNIT)]
                new = base + other
                if last == 'append' and args[1][0] == 'ref':
                    r = args[1]
                    b2 = st.frames[r[1]].get(r[2])
                    st.frames[r[1]][r[2]] = self._set_path(b2, list(r[3]), ('seq', ())) if r[3] else ('seq', ())
            r = args[0]
            b0 = st.frames[r[1]].get(r[2])
            st.frames[r[1]][r[2]] = self._set_path(b0, list(r[3]), ('seq', tuple(new))) if r[3] else ('seq', tuple(new))
            return [(st, UNIT)]
        if items is None and self.sym_collections and last in ('iter', 'into_iter', 'iter_mut') and len(args) == 1 and \
                isinstance(a0, tuple) and a0[0] in ('sym', 'app'):
            aty = ((t or {}).get('args') or [{}])[0].get('ty', '').replace('&', '').replace('mut ', '').strip()
            if aty.startswith(('std::vec::Vec<', '[')):
                # a collection of unknown length held in a parameter / field: the sequence of its elements
                return [(st, ('sseq', self.deep(st, a0), SYM('$x'), NUM(0)))]
        if items is None:
            # a symbolic Option turned into a sequence forks like a match
            v = args[0]
            if last in ('into_iter', 'iter') and ('Option' in (t or {}).get('func', {}).get('self_ty', '') or 'option::Option' in name):
                return [(s2, ('seq', (x,) if some else ())) for s2, some, x in self.opt_cases(st, v)]
            return None
        if last in ('iter', 'into_iter', 'iter_mut', 'by_ref', 'collect', 'as_slice', 'to_vec', 'into_vec', 'cloned', 'copied', 'deref',
                    'from_iter', 'rev') and len(args) == 1:
            return [(st, ('seq', tuple(reversed(items) if last == 'rev' else items)))]
        if last in ('len', 'count') and len(args) == 1:
            return [(st, NUM(len(items)))]
        if last == 'enumerate':
            return [(st, ('seq', tuple(STRUCT('(tuple)', None, [('0', NUM(i)), ('1', x)]) for i, x in enumerate(items))))]
        if last in ('zip', 'chain') and len(args) == 2:
            others = [self.as_seq(st, args[1])]
            if others[0] is None:
                # chain/zip with a symbolic Option: fork
                out = []
                for s2, some, x in self.opt_cases(st, args[1]):
                    o2 = [x] if some else []
                    out.append((s2, o2))
            else:
                out = [(st, others[0])]
            res = []
            for s2, o2 in out:
                if last == 'chain':
                    res.append((s2, ('seq', tuple(items + o2))))
                else:
                    res.append((s2, ('seq', tuple(STRUCT('(tuple)', None, [('0', a), ('1', c)]) for a, c in zip(items, o2)))))
            return res
        if last in ('skip', 'take') and len(args) == 2 and is_num(args[1]):
            k = int(args[1][1])
            return [(st, ('seq', tuple(items[k:] if last == 'skip' else items[:k])))]
        if last in ('map', 'filter', 'find', 'any', 'all', 'position', 'flat_map', 'for_each', 'filter_map') and len(args) == 2:
            # thread the state through the elements in order; every closure call may fork
            states = [(st, [])]     # (state, accumulated results / early result)
            done = []
            for idx, x in enumerate(items):
                nxt = []
                for s2, acc in states:
                    rs = self.call_closure(s2, args[1], [x], depth)
                    if rs is None:
                        return None
                    for s3, r in rs:
                        if last == 'map':
                            nxt.append((s3, acc + [r]))
                        elif last == 'for_each':
                            nxt.append((s3, acc))
                        elif last == 'flat_map':
                            sub = self.as_seq(s3, r)
                            if sub is None:
                                return None
                            nxt.append((s3, acc + sub))
                        elif last == 'filter_map':
                            for s4, some, y in self.opt_cases(s3, r):
                                nxt.append((s4, acc + [y] if some else acc))
                        else:
                            for s4, bv in self.bool_cases(s3, r):
                                if last == 'filter':
                                    nxt.append((s4, acc + [x] if bv else acc))
                                elif last == 'find':
                                    (done if bv else nxt).append((s4, self.SOME(x)) if bv else (s4, acc))
                                elif last == 'position':
                                    (done if bv else nxt).append((s4, self.SOME(NUM(idx))) if bv else (s4, acc))
                                elif last == 'any':
                                    (done if bv else nxt).append((s4, ('bool', True)) if bv else (s4, acc))
                                else:   # all
                                    (nxt if bv else done).append((s4, acc) if bv else (s4, ('bool', False)))
                states = nxt
                if len(states) + len(done) > self.max_paths:
                    raise PathAbort('too many paths through a sequence')
            if last in ('map', 'filter', 'flat_map', 'filter_map'):
                return [(s2, ('seq', tuple(acc))) for s2, acc in states]
            if last == 'for_each':
                return [(s2, UNIT) for s2, _ in states]
            tail = {'find': self.NONE, 'position': self.NONE, 'any': ('bool', False), 'all': ('bool', True)}[last]
            return done + [(s2, tail) for s2, _ in states]
        if last == 'fold' and len(args) == 3:
            states = [(st, args[1])]
            for x in items:
                nxt = []
                for s2, acc in states:
                    rs = self.call_closure(s2, args[2], [acc, x], depth)
                    if rs is None:
                        return None
                    nxt += rs
                states = nxt
            return states
        if last == 'sum' and len(args) == 1:
            acc = NUM(0)
            for x in items:
                if x[0] == 'ref':
                    x = self.load(st, x)
                acc = self.binop('Add', acc, x)
            return [(st, acc)]
        return None

    def model_sseq(self, st, last, sq, args, depth):
        """Adaptors on a symbolic sequence ('sseq', base, elem, start): elementwise maps compose into `elem`, windows add to
        `start`, materialising/borrowing steps are the identity."""
        _, base, elem, start = sq
        if last in ('iter', 'into_iter', 'iter_mut', 'by_ref', 'collect', 'as_slice', 'as_mut_slice', 'to_vec', 'into_vec', 'deref',
                    'deref_mut', 'borrow', 'as_ref', 'from_iter', 'cloned', 'copied', 'into_par_iter', 'par_iter') and len(args) == 1:
            return [(st, sq)]
        if last == 'map' and len(args) == 2:
            rs = self.call_closure(st, args[1], [elem], depth)
            if rs is None or len(rs) != 1:
                return None
            return [(rs[0][0], ('sseq', base, self.deep(rs[0][0], rs[0][1]), start))]
        if last == 'flat_map' and len(args) == 2 and start == NUM(0):
            # { y | x in base, y in g(elem(x)) }: the inner sequence's own element variable stays `$x`, the outer item becomes `$o`
            outer_elem = subst_value(elem, {'$x': SYM('$o'), '$i': SYM('$oi')})
            rs = self.call_closure(st, args[1], [outer_elem], depth)
            if rs is None or len(rs) != 1:
                return None
            inner = self.deep(rs[0][0], rs[0][1])
            if isinstance(inner, tuple) and inner[0] == 'sseq' and inner[3] == NUM(0):
                return [(rs[0][0], ('sseq', APP('flat', base, inner[1]), inner[2], NUM(0)))]
            return None
        if last == 'enumerate' and len(args) == 1:
            idx = self.binop('Sub', SYM('$i'), start) if start != NUM(0) else SYM('$i')
            return [(st, ('sseq', base, STRUCT('(tuple)', None, [('0', idx), ('1', elem)]), start))]
        if last == 'skip' and len(args) == 2:
            return [(st, ('sseq', base, elem, self.binop('Add', start, self.deep(st, args[1]))))]
        if last in ('index', 'index_mut') and len(args) == 2:
            rg = args[1]
            if rg[0] == 'ref':
                rg = self.load(st, rg)
            if rg[0] == 'struct' and 'RangeFrom' in rg[1]:
                return [(st, ('sseq', base, elem, self.binop('Add', start, self.deep(st, sfield(rg, 'start')))))]
            return None
        if last == 'zip' and len(args) == 2:
            o = args[1]
            for _ in range(3):
                if isinstance(o, tuple) and o[0] == 'ref':
                    o = self.load(st, o)
            if isinstance(o, tuple) and o[0] == 'sseq' and o[1] == base and o[3] == start:
                return [(st, ('sseq', base, STRUCT('(tuple)', None, [('0', elem), ('1', o[2])]), start))]
            return None
        if last in ('len', 'count'):
            return [(st, APP('len', base))]
        return None

    # ---------------------------------------------------------------- models of external callees
    def model(self, st, name, declared, args, t):
        def val(i):
            v = args[i]
            if v[0] == 'ref':
                v = self.load(st, v)
            return v

        last = name.rsplit('::', 1)[-1]
        if '<impl f64>::' in name:
            if last == 'powi' and is_num(val(1)):
                return APP('powi', val(0), val(1))
            if last in ('sin', 'cos', 'exp', 'sqrt', 'acos', 'abs', 'to_radians', 'ln', 'tan', 'asin', 'floor'):
                return APP(last, val(0))
            if last in ('powf', 'min', 'max', 'rem_euclid', 'atan2', 'powi', 'hypot'):
                return APP(last, val(0), val(1))
            if last == 'sin_cos':
                return STRUCT('(tuple)', None, [('0', APP('sin', val(0))), ('1', APP('cos', val(0)))])
            if last == 'clamp':
                return APP('max', APP('min', val(0), val(2)), val(1))
        if ('f64 as std::ops::' in name or '&f64 as std::ops::' in name) and last in ('mul', 'add', 'sub', 'div', 'neg', 'rem'):
            if last == 'neg':
                return self.rvalue_neg(val(0))
            return self.binop(last.capitalize(), val(0), val(1))
        if name.endswith('PartialOrd for f64>::partial_cmp') or name.endswith('PartialEq for f64>::eq'):
            return APP(last, val(0), val(1))
        if name.endswith('ops::RangeInclusive::<Idx>::new') and len(args) == 2:
            return STRUCT('RangeInclusive', None, [('start', val(0)), ('end', val(1))])
        if 'ops::RangeInclusive::<Idx>::' in name and last in ('into_inner', 'start', 'end') and len(args) == 1:
            r0 = val(0)
            if isinstance(r0, tuple) and r0[0] == 'struct' and r0[1] == 'RangeInclusive':
                if last == 'into_inner':
                    return STRUCT('(tuple)', None, [('0', sfield(r0, 'start')), ('1', sfield(r0, 'end'))])
                return sfield(r0, last)
        if 'nalgebra' in name or 'Point' in name:
            r = self.model_nalgebra(st, name, last, args, val)
            if r is not None:
                return r
        if name.endswith(('Deref>::deref', 'DerefMut>::deref_mut', 'Borrow>::borrow', 'AsRef>::as_ref')) and 'Vec<' not in name \
                and 'String' not in name and 'PathBuf' not in name:
            return args[0]
        if name.endswith('Clone>::clone') or name == 'std::clone::Clone::clone':
            v = val(0)
            if v[0] in ('num', 'sym', 'struct', 'bin', 'app'):
                return self.deep(st, v)
        if name.endswith(('From<T>>::from', 'Into<U>>::into')):
            return args[0]
        if name.endswith(('cmp::Ord::min', 'cmp::Ord::max')) or (last in ('min', 'max') and 'Ord' in name):
            a, b = val(0), val(1)
            if is_num(a) and is_num(b):
                return NUM(min(a[1], b[1]) if last == 'min' else max(a[1], b[1]))
            return APP('i' + last, a, b)
        if name.endswith(('<impl *mut T>::write', 'std::ptr::write', 'core::ptr::write')) and len(args) == 2:
            tgt = args[0]
            v = self.deep(st, args[1]) if args[1][0] != 'ref' else args[1]
            if tgt[0] == 'ref':
                base = st.frames[tgt[1]].get(tgt[2])
                st.frames[tgt[1]][tgt[2]] = self._set_path(base, list(tgt[3]), v) if tgt[3] else v
            else:
                st.effects.append((tgt, v))
            return UNIT
        if name.endswith('UnsafeCell::<T>::get') or name.endswith('UnsafeCell::<T>::raw_get'):
            return args[0]          # pointer to the cell's content == the cell (transparent)
        return None

    def rvalue_neg(self, a):
        if is_num(a):
            return NUM(-a[1])
        return ('un', 'Neg', a)

    def mat_elem(self, st, m, r, c):
        if m[0] == 'ref':
            m = self.load(st, m)
        if m[0] == 'struct' and m[1] in ('M3', 'M2'):
            return sfield(m, '%d%d' % (r, c))
        if m[0] == 'struct' and sfield(m, '0') is not None and len(m[3]) == 1:
            return self.mat_elem(st, sfield(m, '0'), r, c)      # newtype wrapper
        if m[0] == 'struct' and m[1].startswith('?sym:'):
            return SYM('%s.0[%d,%d]' % (m[1][5:], r, c))
        if m[0] == 'sym':
            # a symbolic Transform2 (newtype) is identified with its inner matrix `.0`
            base = m[1] if m[1].endswith('.0') else m[1] + '.0'
            return SYM('%s[%d,%d]' % (base, r, c))
        return APP('elem%d%d' % (r, c), m)

    def point_xy(self, st, p):
        if p[0] == 'ref':
            p = self.load(st, p)
        return self.field(st, p, 'x'), self.field(st, p, 'y')

    def model_nalgebra(self, st, name, last, args, val):
        P = lambda x, y: STRUCT('Point', None, [('x', x), ('y', y)])
        V = lambda x, y: STRUCT('Vector', None, [('x', x), ('y', y)])
        add = lambda a, b: self.binop('Add', a, b)
        sub = lambda a, b: self.binop('Sub', a, b)
        mul = lambda a, b: self.binop('Mul', a, b)
        if 'point_construction' in name and last == 'new':
            return P(val(0), val(1))
        if 'base::construction' in name and 'Matrix<N, nalgebra::U2, nalgebra::U1' in name and last == 'new' and len(args) == 2:
            return V(val(0), val(1))            # Vector2::new(x, y)
        if 'nalgebra::coordinates' in name and 'U2, nalgebra::U1' in name and last in ('deref', 'deref_mut'):
            return args[0]                      # .x / .y of a Vector2
        if 'point_construction' in name and last == 'origin':
            return P(NUM(0), NUM(0))
        if 'Point<N, D>' in name and last == 'from' and len(args) == 1 and isinstance(val(0), tuple) and val(0)[0] == 'struct' \
                and val(0)[1] == 'Vector':
            return P(sfield(val(0), 'x'), sfield(val(0), 'y'))          # Point2::from(Vector2)
        # 2x2 matrices (Matrix2::new is row-major), by value
        M2 = lambda a, b, c, d: STRUCT('M2', None, [('00', a), ('01', b), ('10', c), ('11', d)])
        is_m2 = lambda v: isinstance(v, tuple) and v[0] == 'struct' and v[1] == 'M2'
        is_v = lambda v: isinstance(v, tuple) and v[0] == 'struct' and v[1] in ('Vector', 'Point')
        if 'base::construction' in name and 'Matrix<N, nalgebra::U2, nalgebra::U2' in name and last == 'new' and len(args) == 4:
            return M2(val(0), val(1), val(2), val(3))
        if 'base::construction' in name and last == 'from_diagonal' and len(args) == 1 and is_v(val(0)):
            d = val(0)
            return M2(sfield(d, 'x'), NUM(0), NUM(0), sfield(d, 'y'))
        if 'base::construction' in name and last == 'identity' and 'nalgebra::U2, nalgebra::U2' in name:
            return M2(NUM(1), NUM(0), NUM(0), NUM(1))
        if last == 'mul' and len(args) == 2 and is_m2(val(0)) and ('base::ops' in name or 'point_ops' in name):
            a, b = val(0), val(1)
            e = lambda r, c: sfield(a, '%d%d' % (r, c))
            if is_m2(b):
                f = lambda r, c: sfield(b, '%d%d' % (r, c))
                return M2(*[add(mul(e(r, 0), f(0, c)), mul(e(r, 1), f(1, c))) for r in range(2) for c in range(2)])
            if b[0] == 'sym' and b[1].endswith('.coords'):
                # the coordinate vector of a symbolic point p: (p.x, p.y)
                b = STRUCT('Vector', None, [('x', SYM(b[1][:-7] + '.x')), ('y', SYM(b[1][:-7] + '.y'))])
            if is_v(b):
                x, y = sfield(b, 'x'), sfield(b, 'y')
                return STRUCT(b[1], None, [('x', add(mul(e(0, 0), x), mul(e(0, 1), y))), ('y', add(mul(e(1, 0), x), mul(e(1, 1), y)))])
        if last == 'mul' and len(args) == 2 and is_m2(val(0)) and 'base::ops' in name and val(1)[0] in ('num', 'sym', 'bin', 'app', 'un') \
                and 'Mul<N>' in name:
            a = val(0)
            return M2(*[mul(sfield(a, k), val(1)) for k in ('00', '01', '10', '11')])
        if last == 'transpose' and len(args) == 1 and is_m2(val(0)):
            a = val(0)
            return M2(sfield(a, '00'), sfield(a, '10'), sfield(a, '01'), sfield(a, '11'))
        if last == 'determinant' and len(args) == 1 and is_m2(val(0)):
            a = val(0)
            return sub(mul(sfield(a, '00'), sfield(a, '11')), mul(sfield(a, '01'), sfield(a, '10')))
        if 'point_coordinates' in name and last in ('deref', 'deref_mut'):
            return args[0]
        if 'point_ops' in name and 'Sub' in name and last == 'sub':
            ax, ay = self.point_xy(st, args[0])
            bx, by = self.point_xy(st, args[1])
            return V(sub(ax, bx), sub(ay, by))
        if 'point_ops' in name and 'Mul<N>' in name and last == 'mul':
            ax, ay = self.point_xy(st, args[0])
            return P(mul(ax, val(1)), mul(ay, val(1)))
        if last == 'norm_squared':
            x, y = self.point_xy(st, args[0])
            return add(mul(x, x), mul(y, y))
        if name.endswith('nalgebra::distance'):
            ax, ay = self.point_xy(st, args[0])
            bx, by = self.point_xy(st, args[1])
            dx, dy = sub(ax, bx), sub(ay, by)
            return APP('sqrt', add(mul(dx, dx), mul(dy, dy)))
        if 'translation_construction' in name and last == 'new':
            return STRUCT('Translation', None, [('x', val(0)), ('y', val(1))])
        if 'translation_ops' in name and 'Point' in name and last == 'mul':
            tx, ty = self.point_xy(st, args[0])
            px, py = self.point_xy(st, args[1])
            return P(add(px, tx), add(py, ty))
        if 'rotation_specialization' in name and last == 'new':
            return STRUCT('Rotation', None, [('angle', val(0))])
        if name.endswith('Isometry::<N, D, R>::from_parts'):
            return STRUCT('Isometry', None, [('translation', val(0)), ('rotation', val(1))])
        if name.endswith('Isometry::<N, D, R>::to_homogeneous'):
            iso = val(0)
            if iso[0] == 'struct' and iso[1] == 'Isometry':
                tr, rot = sfield(iso, 'translation'), sfield(iso, 'rotation')
                if tr[0] == 'struct' and rot[0] == 'struct':
                    a = sfield(rot, 'angle')
                    c, s = APP('cos', a), APP('sin', a)
                    tx, ty = sfield(tr, 'x'), sfield(tr, 'y')
                    return self.m3([[c, self.rvalue_neg(s), tx], [s, c, ty], [NUM(0), NUM(0), NUM(1)]])
        if name.endswith('::from_matrix_unchecked') or name.endswith('Transform::<N, D, C>::matrix'):
            return args[0]
        if 'construction' in name and last == 'zeros':
            return self.m3([[NUM(0)] * 3 for _ in range(3)])
        if 'transform_construction' in name and last == 'identity':
            return self.m3([[NUM(1 if i == j else 0) for j in range(3)] for i in range(3)])
        if last in ('index', 'index_mut') and '(usize, usize)' in name:
            idx = val(1)
            if idx[0] == 'struct' and is_num(sfield(idx, '0')) and is_num(sfield(idx, '1')):
                r, c = int(sfield(idx, '0')[1]), int(sfield(idx, '1')[1])
                m = args[0]
                if m[0] == 'ref':
                    # reference into a frame-local matrix: return a reference to the element
                    tgt = self.load(st, m)
                    path = list(m[3])
                    while tgt[0] == 'struct' and tgt[1] != 'M3' and len(tgt[3]) == 1:
                        path.append(tgt[3][0][0])
                        tgt = tgt[3][0][1]
                    if tgt[0] == 'struct' and tgt[1] == 'M3':
                        return ('ref', m[1], m[2], tuple(path) + ('%d%d' % (r, c),))
                    if tgt[0] == 'sym' and last == 'index_mut':
                        mat = self.m3([[SYM('%s[%d,%d]' % (tgt[1], i, j)) for j in range(3)] for i in range(3)])
                        base = st.frames[m[1]].get(m[2])
                        st.frames[m[1]][m[2]] = self._set_path(base, path, mat) if path else mat
                        return ('ref', m[1], m[2], tuple(path) + ('%d%d' % (r, c),))
                return self.mat_elem(st, m, r, c)
        if 'transform_ops' in name and last == 'mul':
            if 'Point' in name:
                m = args[0]
                px, py = self.point_xy(st, args[1])
                e = lambda r, c: self.mat_elem(st, m, r, c)
                return P(add(add(mul(e(0, 0), px), mul(e(0, 1), py)), e(0, 2)),
                         add(add(mul(e(1, 0), px), mul(e(1, 1), py)), e(1, 2)))
            if 'Transform<' in name.split(' for ')[0]:
                a, b = args[0], args[1]
                ea = lambda r, c: self.mat_elem(st, a, r, c)
                eb = lambda r, c: self.mat_elem(st, b, r, c)
                rows = []
                for r in range(3):
                    row = []
                    for c in range(3):
                        acc = None
                        for k in range(3):
                            term = mul(ea(r, k), eb(k, c))
                            acc = term if acc is None else add(acc, term)
                        row.append(acc)
                    rows.append(row)
                return self.m3(rows)
        return None

    @staticmethod
    def m3(rows):
        return STRUCT('M3', None, [('%d%d' % (r, c), rows[r][c]) for r in range(3) for c in range(3)])


def short_name(n):
    """Readable, stable name of a callee for opaque applications."""
    n = n.replace('packing::', '')
    import re
    for _ in range(3):
        n = re.sub(r'::<[^<>]*>', '', n)
    if n.startswith('<') and ' as ' in n:
        # <T as Trait>::method  -> Trait::method
        try:
            tr = n[n.index(' as ') + 4:]
            tr = tr[:tr.rindex('>::')]
            meth = n[n.rindex('>::') + 3:]
            tr = tr.split('<')[0].rsplit('::', 1)[-1]
            return '%s::%s' % (tr, meth)
        except ValueError:
            pass
    parts = n.split('::')
    return '::'.join(parts[-2:]) if len(parts) >= 2 else n


def split_boolean_outcomes(outs):
    """A path that RETURNS a comparison (`a <= b` as the tail of `x && y`) is the two paths that branch on it and return
    the constants: same function, one shape for the rules."""
    res = []
    for o in outs:
        r = o.ret
        if isinstance(r, tuple) and r[0] in ('cmp',) or (isinstance(r, tuple) and r[0] == 'un' and r[1] == 'Not' and r[2][0] == 'cmp'):
            for bv in (True, False):
                res.append(Outcome(('bool', bv), list(o.pc) + [('cond', r, bv)], list(o.effects), o.st))
        else:
            res.append(o)
    return res


def resolve_option_returns(sx, outs):
    """A path that returns a symbolic Option whose variant the path has already decided (`if accepted { new } else { None }`
    after `match new { Some(..) .. }`) returns Some(payload) / None: make that explicit."""
    for o in outs:
        r = o.ret
        for _ in range(3):
            if isinstance(r, tuple) and r[0] == 'ref':
                r = sx.load(o.st, r)
        if isinstance(r, tuple) and r[0] == 'sym':
            key = repr(APP('discr', r))
            k = o.st.known.get(key)
            if k == 1:
                o.ret = STRUCT('std::option::Option', ('Some', 1), [('0', SYM(r[1] + '#Some.0'))])
            elif k == 0:
                o.ret = STRUCT('std::option::Option', ('None', 0), [])
    return outs


def subst_value(v, mapping):
    """Replace symbols in a value by values ({name: value})."""
    if not isinstance(v, tuple):
        return v
    if v[0] == 'sym':
        if v[1] in mapping:
            return mapping[v[1]]
        # a symbol derived from a substituted one (`item7.0[0,2]`, `item7#Some.0`): rename its stem
        for k, r in mapping.items():
            if v[1].startswith(k) and len(v[1]) > len(k) and v[1][len(k)] in '.#[' and isinstance(r, tuple) and r[0] == 'sym':
                return ('sym', r[1] + v[1][len(k):])
        return v
    if v[0] in ('bin', 'cmp'):
        return (v[0], v[1], subst_value(v[2], mapping), subst_value(v[3], mapping))
    if v[0] == 'un':
        return (v[0], v[1], subst_value(v[2], mapping))
    if v[0] == 'app':
        return (v[0], v[1], tuple(subst_value(x, mapping) for x in v[2]))
    if v[0] == 'struct':
        return (v[0], v[1], v[2], tuple((k, subst_value(x, mapping)) for k, x in v[3]))
    if v[0] == 'sseq':
        return (v[0], subst_value(v[1], mapping), v[2], subst_value(v[3], mapping))
    if v[0] == 'seq':
        return (v[0], tuple(subst_value(x, mapping) for x in v[1]))
    return v
