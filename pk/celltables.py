"""Tables lifted by symbolic execution with recording models: degrees of freedom per crystal family,
site bases, initial cell per family, plus small numeric/interval evaluators for sym expressions."""
import math
from fractions import Fraction

from .sym import APP, NUM, SYM, UNIT, SymEx, sfield


def recorder(kind_map):
    """Model that records calls whose callee name ends with a key of kind_map as effects (kind, args...)."""
    def m(sx, st, name, declared, args, t):
        for suffix, kind in kind_map.items():
            if name.endswith(suffix):
                vals = tuple(sx.deep(st, a) for a in args)
                st.effects.append((('rec', kind), vals, tuple(st.pc)))
                return UNIT
        return None
    return m


def family_variants(f):
    a = f.adts.get('cell::CrystalFamily')
    return a['variants'] if a else []


def _family_of_pc(pc, variants, who='self.family'):
    """Set of variant names compatible with the switch facts on discr(<who>) in a path condition."""
    allowed = set(variants)

    def is_discr(v):
        while v[0] == 'app' and v[1].startswith('as:'):
            v = v[2][0]
        return v[0] == 'app' and v[1] == 'discr' and v[2][0] == ('sym', who)
    for c in pc:
        if c[0] in ('switch', 'switch-not') and c[1][0] == 'app' and c[1][1] == 'discr' and c[1][2][0] == ('sym', who):
            if c[0] == 'switch':
                allowed &= {variants[c[2]]} if c[2] < len(variants) else set()
            else:
                allowed -= {variants[i] for i in c[2] if i < len(variants)}
        elif c[0] == 'cond' and c[1][0] == 'cmp' and c[1][1] in ('Eq', 'Ne'):
            # `self.family == CrystalFamily::X` (derived PartialEq compares the discriminants)
            a, b2 = c[1][2], c[1][3]
            if is_discr(b2) and a[0] == 'num':
                a, b2 = b2, a
            if is_discr(a) and b2[0] == 'num':
                k = int(b2[1])
                eq = (c[1][1] == 'Eq') == bool(c[2])
                if eq:
                    allowed &= {variants[k]} if k < len(variants) else set()
                elif k < len(variants):
                    allowed -= {variants[k]}
    return allowed


_BOUNDS = {}


def bound_places(f):
    """(lower, upper): the places of a StandardBasis that hold its bounds, as symbol names relative to `self` ('self.min',
    'self.max' in the reference tree; 'self.bounds.min' when the pair lives in a nested struct) — DISCOVERED from what
    Basis::set_value compares its argument with and stores: the lower bound is the place stored when the argument is below
    both, the upper bound the one stored when it is above both.  None if set_value does not have that shape."""
    k = id(f)
    if k in _BOUNDS:
        return _BOUNDS[k]
    _BOUNDS.clear()
    _BOUNDS[k] = None
    b = f.one(self_adt='basis::StandardBasis', trait='Basis', name='set_value')
    if b is None:
        return None
    sx = SymEx(f, models=[recorder({'basis::SharedValue::set_value': 'cellwrite'})])
    try:
        outs = sx.run(b, [SYM('self'), SYM('x')])
    except Exception:      # noqa: BLE001
        return None
    if not outs or sx.aborted:
        return None
    names = set()

    def walk(v):
        if isinstance(v, tuple):
            if v and v[0] == 'sym' and isinstance(v[1], str) and v[1].startswith('self.') and not v[1].startswith('self.value') \
                    and v[1] != 'self.old':
                names.add(v[1])
            for x2 in v:
                if isinstance(x2, tuple):
                    walk(x2)
    for o in outs:
        for c in o.pc:
            if c[0] == 'cond':
                walk(c[1])
    if len(names) != 2:
        return None
    a, c2 = sorted(names)
    for lo_n, hi_n in ((a, c2), (c2, a)):
        good = True
        for x, want in ((-5, lo_n), (15, hi_n)):
            env = {'x': Fraction(x), lo_n: Fraction(0), hi_n: Fraction(10), 'self.value.value': Fraction(7), 'self.old': Fraction(7)}
            feas = []
            for o in outs:
                try:
                    if all(bool(eval_num(c[1], env)) == c[2] for c in o.pc if c[0] == 'cond'):
                        feas.append(o)
                except (KeyError, ValueError):
                    feas = None
                    break
            if not feas or len(feas) != 1:
                good = False
                break
            writes = [e for e in feas[0].effects if e[0] == ('rec', 'cellwrite')]
            if len(writes) != 1 or sx.deep(feas[0].st, writes[0][1][1]) != SYM(want):
                good = False
                break
        if good:
            _BOUNDS[k] = (lo_n, hi_n)
            return _BOUNDS[k]
    return None


def bound_of(f, item, which):
    """The lower (which=0) / upper (which=1) bound stored in a StandardBasis value."""
    bp = bound_places(f)
    path = (bp[which] if bp else ('self.min', 'self.max')[which]).split('.')[1:]
    v = item
    for nm in path:
        v = sfield(v, nm) if isinstance(v, tuple) and v[0] == 'struct' else None
        if v is None:
            return None
    return v


def _basis_items(f, b, argv):
    """(sx, [(outcome, [item values])]) of a function that returns a Vec of bases: the returned sequence by value (vec!
    literal, pushes, extends, collected chains — pk/sym.py sequences); if some path's result is not a finite sequence, the
    pushes are recorded instead."""
    sx = SymEx(f)
    outs = sx.run(b, argv)
    if outs and not sx.aborted:
        res = []
        for o in outs:
            r = sx.deep(o.st, o.ret)
            if not (isinstance(r, tuple) and r[0] == 'seq'):
                res = None
                break
            res.append((o, [sx.deep(o.st, x) for x in r[1]]))
        if res is not None:
            return sx, res
    sx = SymEx(f, models=[recorder({'Vec::<T, A>::push': 'push'})])
    outs = sx.run(b, argv)
    if not outs or sx.aborted:
        return sx, None
    return sx, [(o, [e[1][1] for e in o.effects if e[0] == ('rec', 'push')]) for o in outs]


def dof_table(f):
    """{family variant: [(field, lo value, hi value)]} from Cell2::get_degrees_of_freedom."""
    b = f.one(self_adt='cell::Cell2', name='get_degrees_of_freedom')
    if b is None:
        return None, 'Cell2::get_degrees_of_freedom not found', None
    sx, res = _basis_items(f, b, [SYM('self')])
    if res is None:
        return None, 'get_degrees_of_freedom is not loop-free', b
    variants = family_variants(f)
    table = {}
    for o, items in res:
        fams = _family_of_pc(o.pc, variants)
        pushes = []
        for item in items:
            if item[0] != 'struct':
                return None, 'pushed item is not a StandardBasis literal', b
            cell = sfield(item, 'value')
            fld = cell[1][5:] if cell and cell[0] == 'sym' and cell[1].startswith('self.') else None
            pushes.append((fld, bound_of(f, item, 0), bound_of(f, item, 1)))
        for v in fams:
            if v in table and table[v] != pushes:
                return None, 'two paths give different bases for family %s' % v, b
            table[v] = pushes
    return table, None, b


def from_family_table(f):
    """{family variant: {field: initial value}} from Cell2::from_family."""
    b = f.one(self_adt='cell::Cell2', name='from_family')
    if b is None:
        return None, 'Cell2::from_family not found', None
    sx = SymEx(f)
    outs = sx.run(b, [SYM('family'), SYM('length')])
    if not outs or sx.aborted:
        return None, 'from_family is not loop-free', b
    variants = family_variants(f)
    table = {}
    for o in outs:
        r = sx.deep(o.st, o.ret)
        if r[0] != 'struct':
            return None, 'from_family does not return a Cell2 literal', b
        vals = {}
        for k, v in r[3]:
            if v[0] == 'struct' and sfield(v, 'value') is not None:
                inner = sfield(v, 'value')
                if inner[0] == 'app' and inner[1].endswith('UnsafeCell::new'):
                    inner = inner[2][0]
                vals[k] = inner
            else:
                vals[k] = v
        for v in _family_of_pc(o.pc, variants, who='family'):
            table[v] = vals
    return table, None, b


def site_basis_table(f):
    """[(field, lo, hi)] union over paths of OccupiedSite::get_basis, and whether pushes are guarded."""
    b = f.one(self_adt='site::OccupiedSite', name='get_basis')
    if b is None:
        return None, 'OccupiedSite::get_basis not found', None
    sx, res = _basis_items(f, b, [SYM('self'), SYM('rot_symmetry')])
    if res is None:
        return None, 'get_basis is not loop-free', b
    seen = {}
    for o, items in res:
        for item in items:
            if item[0] != 'struct':
                return None, 'pushed item is not a StandardBasis literal', b
            cell = sfield(item, 'value')
            fld = cell[1][5:] if cell and cell[0] == 'sym' and cell[1].startswith('self.') else None
            key = (fld, bound_of(f, item, 0), bound_of(f, item, 1))
            seen[repr(key)] = key
    return list(seen.values()), None, b


# ---- evaluators ---------------------------------------------------------------------------------

def eval_num(v, env):
    """Exact numeric evaluation of a sym expression (Fractions); env: sym name -> Fraction. Raises KeyError/ValueError."""
    k = v[0]
    if k == 'num':
        return v[1]
    if k == 'bool':
        return v[1]
    if k == 'sym':
        return env[v[1]]
    if k == 'un':
        a = eval_num(v[2], env)
        return -a if v[1] == 'Neg' else (not a)
    if k == 'bin':
        a, b = eval_num(v[2], env), eval_num(v[3], env)
        return {'Add': lambda: a + b, 'Sub': lambda: a - b, 'Mul': lambda: a * b, 'Div': lambda: a / b,
                'BitAnd': lambda: a and b, 'BitOr': lambda: a or b}[v[1]]()
    if k == 'cmp':
        a, b = eval_num(v[2], env), eval_num(v[3], env)
        return {'Lt': a < b, 'Le': a <= b, 'Gt': a > b, 'Ge': a >= b, 'Eq': a == b, 'Ne': a != b}[v[1]]
    if k == 'app':
        f, args = v[1], v[2]
        if f in ('min', 'imin'):
            return min(eval_num(args[0], env), eval_num(args[1], env))
        if f in ('max', 'imax'):
            return max(eval_num(args[0], env), eval_num(args[1], env))
        if f.startswith('as:'):
            return eval_num(args[0], env)
        if f == 'abs':
            return abs(eval_num(args[0], env))
    raise ValueError('cannot evaluate %r' % (v,))


def interval(v, env):
    """Real interval (lo, hi) of a sym expression; env: sym name -> (lo, hi) with float('inf') allowed."""
    k = v[0]
    if k == 'num':
        return (float(v[1]), float(v[1]))
    if k == 'sym':
        return env[v[1]]
    if k == 'un' and v[1] == 'Neg':
        a = interval(v[2], env)
        return (-a[1], -a[0])
    if k == 'app' and v[1].startswith('as:'):
        return interval(v[2][0], env)
    if k == 'bin':
        a, b = interval(v[2], env), interval(v[3], env)
        if v[1] == 'Add':
            return (a[0] + b[0], a[1] + b[1])
        if v[1] == 'Sub':
            return (a[0] - b[1], a[1] - b[0])
        if v[1] == 'Mul':
            ps = [x * y for x in a for y in b if not (math.isinf(x) and y == 0 or math.isinf(y) and x == 0)] or [0.0]
            return (min(ps), max(ps))
        if v[1] == 'Div':
            if b[0] <= 0 <= b[1]:
                raise ValueError('division by an interval containing 0')
            qs = []
            for x in a:
                for y in b:
                    qs.append(0.0 if math.isinf(y) else x / y)
            return (min(qs), max(qs))
    raise ValueError('cannot bound %r' % (v,))
