"""Calls that std forwards to a trait impl of the workspace, made direct (normalisation at load time, judges nothing).

`s.parse::<T>()` is `<T as FromStr>::from_str(s)`; `x.into()` through the blanket `impl<T, U: From<T>> Into<U> for T` is
`U::from(x)`; `x.try_into()` is `U::try_from(x)`; `it.sum::<S>()` / `product` is `<S as Sum<A>>::sum(it)`;
`it.collect::<C>()` is `<C as FromIterator<A>>::from_iter(it)`.  In MIR each of these is a call of a function whose body
lives in core/alloc, so the workspace impl it ends in is invisible to the call graph, to helper splicing and to symbolic
evaluation.  Where the workspace has exactly one matching impl, the call is redirected to it (same arguments, same result:
that is what the forwarding function is documented to do).
"""


def _impl_bodies(facts, trait_suffix, method):
    return [b for b in facts.bodies.values() if not b.is_closure and b.fn_name == method and
            facts.norm(b.impl_trait or '').endswith(trait_suffix)]


def _redirect(t, body, how):
    fc = t['func']
    t['func'] = {'k': 'const', 'ty': fc.get('ty'), 'fn': body.path, 'fn_canon': body.canon, 'fn_local': True,
                 'gargs': list(fc.get('gargs') or []), 'resolved': body.path, 'resolved_canon': body.canon, 'resolved_local': True,
                 'resolved_kind': 'Item', 'trait': body.impl_trait, 'forwarded_from': fc.get('fn'), 'how': how}


def _self_ty_of(facts, b):
    """Self type of an impl method as a normalised string: `<T as Trait<..>>::m` or `..::<impl Trait<..> for T>::m`."""
    p = facts.norm(b.path)
    if p.startswith('<') and ' as ' in p:
        depth = 0
        for i, ch in enumerate(p):
            if ch == '<':
                depth += 1
            elif ch == '>':
                depth -= 1
            if depth == 1 and p.startswith(' as ', i):
                return p[1:i]
    if ' for ' in p:
        tail = p.rsplit(' for ', 1)[1]
        depth = 0
        for i, ch in enumerate(tail):
            if ch == '<':
                depth += 1
            elif ch == '>':
                if depth == 0:
                    return tail[:i]
                depth -= 1
    return facts.norm(b.impl_self_adt or '') or None


def _trait_arg_of(facts, b, trait):
    """First generic argument of the trait in the impl header (`From<X>` -> X), or None."""
    p = facts.norm(b.path)
    k = p.find(trait + '<')
    if k < 0:
        return None
    depth, start = 0, k + len(trait) + 1
    for i in range(start, len(p)):
        ch = p[i]
        if ch == '<':
            depth += 1
        elif ch == '>':
            if depth == 0:
                return p[start:i]
            depth -= 1
        elif ch == ',' and depth == 0:
            return p[start:i]
    return None


def _strip(ty):
    import re
    return re.sub(r"'[A-Za-z_][A-Za-z0-9_]*", "'_", (ty or '').replace('packing::', '').strip())


def lower_forwarders(facts):
    n = 0
    from_str = _impl_bodies(facts, 'str::FromStr', 'from_str')
    froms = _impl_bodies(facts, 'convert::From', 'from')
    try_froms = _impl_bodies(facts, 'convert::TryFrom', 'try_from')
    sums = _impl_bodies(facts, 'iter::Sum', 'sum') + _impl_bodies(facts, 'iter::Product', 'product')
    from_iters = _impl_bodies(facts, 'iter::FromIterator', 'from_iter')
    if not (from_str or froms or try_froms or sums or from_iters):
        return 0
    for b in list(facts.bodies.values()):
        for bi, t in b.calls():
            fc = t['func']
            fn = fc.get('fn') or ''
            g = [_strip(x) for x in (fc.get('gargs') or [])]
            if fc.get('resolved_local'):
                continue
            last = fn.rsplit('::', 1)[-1]
            cands = []
            if last == 'parse' and '<impl str>' in fn and g:
                cands = [x for x in from_str if _strip(_self_ty_of(facts, x)) == g[0]]
            elif last == 'into' and (fc.get('trait') or '').endswith('convert::Into') and len(g) >= 2:
                cands = [x for x in froms if _strip(_self_ty_of(facts, x)) == g[1] and
                         _strip(_trait_arg_of(facts, x, 'From')) == g[0]]
                if not cands and (g[0].startswith('impl ') or (g[0].isidentifier() and g[0][:1].isupper() and len(g[0]) <= 2)):
                    # `fn with_bounds(b: impl Into<Bounds>)`: inside the generic function the source type is a parameter; with
                    # exactly one workspace `From<_> for Bounds` that impl is what every non-identity instantiation calls
                    cands = [x for x in froms if _strip(_self_ty_of(facts, x)) == g[1]]
            elif last == 'try_into' and (fc.get('trait') or '').endswith('convert::TryInto') and len(g) >= 2:
                cands = [x for x in try_froms if _strip(_self_ty_of(facts, x)) == g[1] and _strip(_trait_arg_of(facts, x, 'TryFrom')) == g[0]]
            elif last in ('sum', 'product') and (fc.get('trait') or '').endswith('iter::Iterator') and len(g) >= 2:
                cands = [x for x in sums if x.fn_name == last and _strip(_self_ty_of(facts, x)) == g[1]]
            elif last == 'collect' and (fc.get('trait') or '').endswith('iter::Iterator') and len(g) >= 2:
                cands = [x for x in from_iters if _strip(_self_ty_of(facts, x)).split('<')[0] == g[1].split('<')[0]]
            if len(cands) == 1:
                _redirect(t, cands[0], last)
                n += 1
    return n
