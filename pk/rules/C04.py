"""C04 — every crystal produced has the symmetry of the requested wallpaper group (clauses)."""
import math
from fractions import Fraction

from .. import tables as T
from ..celltables import dof_table, from_family_table
from ..harness import where
from ..sym import SYM, SymEx
from ..terms import Norm, NotNumeric
from .common import places_in_body

LEVEL = 'other'
EXPLANATION = ('The placement set is invariant under the group iff (a) copies are operation*site in fractional space, (b) '
               'the wrap changes translations by lattice vectors only, (c) the fractional->Cartesian step keeps the linear '
               'part W, which is only legitimate when W commutes with the cell matrix: W = +-I, or the cell is rectangular and '
               'STAYS rectangular, (d) the optimiser moves only declared degrees of freedom. (a),(b) are decided by C15; here: '
               'set_position touches only the translation entries; for every group whose operations contain a linear part other '
               'than +-I the paired crystal family has no angle degree of freedom and starts at pi/2; the family fields are '
               'never written after construction. Cartesian invariance is DERIVED from these, not observed.')

PI = Fraction(math.pi)


def _run_rules(ctx):
    rep, f = ctx.rep, ctx.facts
    rep.trust('pk/tables.py triplet reader; pk/celltables.py lifting; C15 (composition order, wrap) and C16 (tables are the groups)')
    # R1/R2 imported: run the C15 composition clause here too (cheap) so that C04 stands alone
    from .C15 import run as run_c15
    sub = type('Ctx', (), {})()
    sub.__dict__.update(ctx.__dict__)
    from ..harness import Report
    sub.rep = Report('C15', ctx.tier)
    run_c15(sub)
    for o in sub.rep.obligations:
        if (o['rule'] in ('R2', 'R3') or o['instance'].startswith('one-placement')) and not o['instance'].startswith(('site-transform', 'anchor:site-transform')):
            (rep.ok if o['ok'] else rep.fail)('R1', 'C15:' + o['instance'], o['construct'], o['why']) if o['ok'] else \
                rep.fail('R1', 'C15:' + o['instance'], o['construct'], o['why'], o['reason'])
    rep.analysed |= sub.rep.analysed
    # R2 set_position writes only the translation entries
    sp = f.one(self_adt='transform::Transform2', name='set_position')
    if rep.check(sp is not None, 'R2', 'anchor:set_position', 'transform::Transform2', 'found', 'set_position not found', 'anchor-lost'):
        rep.saw(sp)
        n = Norm()
        sx = SymEx(f)
        outs = sx.run(sp, [SYM('T'), SYM('p')])
        ok = len(outs) == 1 and not sx.aborted
        why = 'not a single loop-free path'
        if ok:
            try:
                r = sx.deep(outs[0].st, outs[0].ret)
                got = {(i, j): n.rf(sx.mat_elem(outs[0].st, r, i, j)) for i in range(3) for j in range(3)}
                e = lambda i, j: n.atom('T.0[%d,%d]' % (i, j))
                bad = [(i, j) for i in range(3) for j in range(3) if (i, j) not in ((0, 2), (1, 2)) and not got[(i, j)].equals(e(i, j))]
                okt = got[(0, 2)].equals(n.atom('p.x')) and got[(1, 2)].equals(n.atom('p.y'))
                ok = not bad and okt
                why = 'entries %s are modified / translation = (%s, %s)' % (bad, got[(0, 2)].canon(), got[(1, 2)].canon())
            except (NotNumeric, TypeError, KeyError) as ex:
                ok, why = False, str(ex)[:100]
        rep.check(ok, 'R2', 'set_position-touches-only-translation', where(sp), 'writes (0,2) := p.x, (1,2) := p.y only', why)
    # R3 group <-> family <-> degrees of freedom
    path, table, problems = T.lift_group_table(f)
    dof, err, db = dof_table(f)
    ff, err2, fb = from_family_table(f)
    if not rep.check(table is not None and dof is not None and ff is not None, 'R3', 'anchor:tables', 'wallpaper/cell',
                     'lifted', '; '.join(filter(None, [';'.join(problems or []), err, err2])), 'anchor-lost'):
        return
    rep.floor('R3', 'groups', len(table), 7, path)
    n = Norm()
    n_nontrivial = 0
    for g in sorted(table):
        rec = table[g]
        if not rec['ops']:
            continue
        try:
            ops = [T.read_triplet(s) for s in rec['ops']]
        except T.TripletError:
            rep.fail('R3', 'readable:%s' % g, path, 'unreadable operation string (see C16)', 'undecidable-shape')
            continue
        nontrivial = [o for o in ops if T.linear(o) not in (((1, 0), (0, 1)), ((-1, 0), (0, -1)))]
        fam = rec['family']
        loc = 'src/wallpaper.rs:%s (%s arm %s) + %s' % (rec.get('line'), path, g, db.path if db else '')
        if not nontrivial:
            rep.ok('R3', 'linear-parts-commute:%s' % g, loc, 'all linear parts are +-I: commute with every cell')
            continue
        n_nontrivial += 1
        free = [x[0] for x in dof.get(fam, [('?', None, None)])]
        rep.check('angle' not in free, 'R3', 'no-angle-dof:%s' % g, loc,
                  'group %s (mirror/glide) is paired with %s whose free parameters are %s' % (g, fam, free),
                  'group %s has reflections but its family %s lets the optimiser move the cell angle: the cell leaves the '
                  'rectangular family and the kept linear part no longer maps the lattice onto itself' % (g, fam))
        a0 = ff.get(fam, {}).get('angle')
        try:
            ok = a0 is not None and n.rf(a0).equals(n.const(PI / 2))
        except (NotNumeric, TypeError):
            ok = False
        rep.check(ok, 'R3', 'right-angle-start:%s' % g, loc, 'family %s starts at angle pi/2' % fam,
                  'group %s needs a rectangular cell but family %s starts at angle %s' % (g, fam, a0 and n.canon_value(a0)))
        # every W must be diagonal (commutes with diag(a,b)) for a rectangular cell with free ratio
        diag = all(T.linear(o)[0][1] == 0 and T.linear(o)[1][0] == 0 for o in ops)
        rep.check(diag or 'ratio' not in free, 'R3', 'linear-parts-commute:%s' % g, loc,
                  'all linear parts are diagonal: they commute with every rectangular cell matrix',
                  'group %s has a non-diagonal linear part but the side ratio is free' % g)
        rep.sample('%s: family %s, free %s, initial angle pi/2, %d non-trivial linear parts (all diagonal)' % (g, fam, free, len(nontrivial)))
    rep.floor('R3', 'groups with reflections checked against their family', n_nontrivial, 5)
    # R4 family never written after construction
    nw = 0
    for body in f.bodies.values():
        for bi, si, pl, w in places_in_body(body):
            if not w:
                continue
            for e in pl['p']:
                if isinstance(e, dict) and e.get('n') == 'family' and \
                        e.get('of', '').replace('packing::', '').startswith(('cell::Cell2', 'wallpaper::Wallpaper')):
                    nw += 1
                    rep.fail('R4', 'family-is-immutable:%s' % body.path, where(body, bi),
                             'the crystal family of an existing cell/wallpaper is overwritten in %s' % body.path)
    rep.ok('R4', 'family-is-immutable', 'cell::Cell2.family / wallpaper::Wallpaper.family',
           'no assignment through the family field outside constructors (struct literals)')
    # cloning (the CLI optimises clones) preserves the family and the cell parameters field-to-field
    from .C09 import clone_problems
    ncl = 0
    for cb in f.trait_impl_methods('clone::Clone', 'clone'):
        if cb.crate_kind != 'lib' or f.norm(cb.impl_self_adt or '') not in ('cell::Cell2', 'site::OccupiedSite', 'wallpaper::Wallpaper'):
            continue
        ncl += 1
        probs = clone_problems(f, cb)
        rep.check(not probs, 'R4', 'clone-preserves-family-and-parameters:%s' % f.norm(cb.impl_self_adt), where(cb),
                  'every field from the same-named field of self', 'a cloned %s is not a faithful copy (%s): optimising a clone can '
                  'leave the crystal family of the group' % (f.norm(cb.impl_self_adt), probs[:3]))
    rep.floor('R4', 'Clone impls of cell/site', ncl, 2)
    # family of the cell comes from the group's table entry: initialise passes wallpaper.family to from_family
    from ..mirutil import Tracer, call_matches, field_path
    k = 0
    for adt in ('state::packed::PackedState', 'state::potential::PotentialState'):
        ib = f.one(self_adt=adt, name='initialise')
        if ib is None:
            continue
        rep.saw(ib)
        t = Tracer(ib)
        for bi, tt in ib.calls():
            if call_matches(tt, 'Cell2::from_family'):
                k += 1
                o = t.origin(tt['args'][0])
                rep.check(o['o'] == 'arg' and field_path(o['p']) == ['family'] and 'Wallpaper' in ib.local_ty(o['l']), 'R4',
                          'cell-family-from-wallpaper:%s' % adt, where(ib, bi), 'Cell2::from_family(wallpaper.family, ..)',
                          'the cell is not created in the family of the requested group')
    rep.floor('R4', 'from_family call sites in initialise', k, 2)
    # R5: the operations applied are those of the named group: the table obligations of C16 (group axioms, general positions,
    # point-group signatures) are a necessary condition of "has the symmetry of its wallpaper group" (imported)
    from .common import import_obligations
    import_obligations(ctx, 'C16', 'R5', only_rules={'R1', 'R2', 'R3'}, floor=20)


def run(ctx):
    _run_rules(ctx)
    from .common import import_obligations
    # the Cartesian map the symmetry argument is stated in: lattice vectors A, B (C14.R1)
    import_obligations(ctx, 'C14', 'LATTICE', only_rules={'R1'}, floor=3)
