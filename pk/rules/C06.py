"""C06 — a rejected move leaves no trace; the result is the last accepted state."""
from ..anchors import AnchorLost, OptimiserAnchors, handle_of, is_trait_call
from ..harness import where
from ..mirutil import Defs, Tracer, call_matches, field_path
from .common import rule_writers, writes_cell_reachable, places_in_body

LEVEL = 'other'
EXPLANATION = ('Structural decision over the MIR control-flow graph of the stepping function and the basis '
               'handle: one parameter write per proposal, the undo on every reject path on the same handle '
               '(same container, same index value), undo value = value captured before the write, the returned '
               'object is the moved-in state, score_current only takes accepted scores.')


def _run_rules(ctx):
    rep, f, cg = ctx.rep, ctx.facts, ctx.cg
    rep.trust('rustc nightly MIR construction; pk/cfg.py dominators and reachability; pk/mirutil.py provenance tracing')
    rule_writers(ctx, 'WRITERS')
    try:
        oa = OptimiserAnchors(f)
    except AnchorLost as e:
        rep.fail('R0', 'anchor:stepping-function', '', str(e), 'anchor-lost')
        return
    b, cfg, tr = oa.body, oa.cfg, oa.tr
    rep.saw(b)
    inner = oa.inner
    hdr = inner['header']

    # ---- R1: one write per proposal ------------------------------------------------
    ss_in_loop = [(bi, t) for bi, t in oa.set_sampled_calls if bi in inner['body']]
    rep.check(len(oa.set_sampled_calls) == 1 and len(ss_in_loop) == 1, 'R1', 'one-set_sampled-per-iteration',
              where(b, oa.set_sampled_calls[0][0]),
              'exactly one Basis::set_sampled call, inside the proposal loop',
              'found %d Basis::set_sampled calls (%d in the proposal loop): a proposal may change more than one '
              'parameter' % (len(oa.set_sampled_calls), len(ss_in_loop)))
    ss_bb, ss_t = oa.set_sampled_calls[0]
    inner_only = cfg.innermost_loop_of(ss_bb)
    rep.check(inner_only is inner, 'R1', 'set_sampled-in-same-loop-as-decision', where(b, ss_bb),
              'same innermost loop', 'set_sampled and the decision are in different loops')
    for lt in inner['latches']:
        rep.check(cfg.dominates(ss_bb, lt), 'R1', 'set_sampled-dominates-latch', where(b, ss_bb),
                  'every iteration proposes exactly once', 'an iteration can reach the latch without proposing')
    # nothing else in an iteration reaches a cell write
    n_other = 0
    for bi in sorted(inner['body']):
        t = b.blocks[bi]['term']
        if t['t'] != 'call' or bi == ss_bb:
            continue
        if is_trait_call(t, 'Basis', 'reset_value'):
            continue
        for s in cg.sites_for(b):
            if s['bb'] != bi:
                continue
            roots = s['targets']
            if not roots:
                continue
            n_other += 1
            p = writes_cell_reachable(ctx, roots)
            rep.check(p is None, 'R1', 'no-other-writer-in-iteration:%s' % (s['declared'] or s['resolved']),
                      where(b, bi), 'callee cannot reach SharedValue::set_value',
                      'a call in the proposal loop other than set_sampled/reset_value can write a parameter cell: '
                      + ' -> '.join(p or []))
    rep.floor('R1', 'workspace calls in the proposal loop checked for cell writes', n_other, 2)
    # State::score / generate_basis impls never write
    for meth in ('score', 'generate_basis', 'total_shapes'):
        impls = cg.impls_of('traits::State', meth)
        for im in impls:
            rep.saw(im)
            p = writes_cell_reachable(ctx, [im.path])
            rep.check(p is None, 'R1', 'State::%s-is-read-only:%s' % (meth, f.norm(im.impl_self_adt or '?')),
                      where(im), 'no path to SharedValue::set_value',
                      'State::%s reaches a parameter write: %s' % (meth, ' -> '.join(p or [])))
        if meth == 'score':
            rep.floor('R1', 'State::score impls', len(impls), 2)

    # ---- R2: reject => undo on the same handle --------------------------------------
    rc = oa.reset_calls
    if rep.floor('R2', 'Basis::reset_value calls in the stepping function', len(rc), 1, where(b)):
        r_bbs = {bi for bi, _ in rc}
        # executions on which the decision returned None: every path from the decision to the loop head passes an undo
        exits = set(cfg.exits())
        r_none = oa.reach_under(0, oa.after_decision(), avoid=r_bbs)
        bad = sorted(r_none & ({hdr} | exits))
        rep.check(not bad, 'R2', 'reject-edge-must-undo', where(b, oa.decision_switch_bb),
                  'on executions where the decision is None, every path from the decision (bb%d) to the loop head bb%d or a '
                  'return passes through Basis::reset_value (bb%s)' % (oa.decision_bb, hdr, sorted(r_bbs)),
                  'a rejected proposal reaches %s without being undone' % ['bb%d' % x for x in bad])
        reach_some = oa.reach_under(1, oa.after_decision(), avoid={hdr})
        rep.check(not (reach_some & r_bbs), 'R2', 'accept-edge-must-not-undo', where(b, oa.decision_switch_bb),
                  'no reset_value between the decision and the loop head on executions where the decision is Some',
                  'an accepted proposal can be undone: reset_value reachable when the decision is Some (bb%s)'
                  % sorted(reach_some & r_bbs))
        # same handle
        c1, i1 = handle_of(b, tr, ss_t['args'][0])
        rep.check(c1 is not None and i1 is not None, 'R2', 'proposal-handle-shape', where(b, ss_bb),
                  'handle = element of a container selected by an index',
                  'cannot resolve which basis element set_sampled receives', 'undecidable-shape')
        for bi, t in rc:
            c2, i2 = handle_of(b, tr, t['args'][0])
            if not rep.check(c2 is not None and i2 is not None, 'R2', 'undo-handle-shape', where(b, bi),
                             'handle = element of a container selected by an index',
                             'cannot resolve which basis element reset_value receives', 'undecidable-shape'):
                continue
            if c1 is None:
                continue
            rep.check(c1 == c2, 'R2', 'undo-same-container', where(b, bi),
                      'both handles come from local _%s' % c1,
                      'proposal uses container _%s but undo uses container _%s' % (c1, c2))
            same = _same_value(b, cfg, oa.defs, i1, i2, ss_bb, bi, inner)
            rep.check(same[0], 'R2', 'undo-same-index', where(b, bi), same[1], same[1])
            rep.sample('%s: reject path of decision bb%d -> reset_value(bb%d) on container _%s index %s — same as set_sampled in bb%d'
                       % (b.path, oa.decision_bb, bi, c2, _idx_desc(b, i2), ss_bb))

    # ---- R3: the undo value is exact (basis handle) ----------------------------------
    _r3(ctx)

    # ---- R4: what is returned ---------------------------------------------------------
    state_args = [i for i in b.args() if i != 1]
    n_ret = 0
    for bi, bb in enumerate(b.blocks):
        if bi not in cfg.reach:
            continue
        for si, s in enumerate(bb['stmts']):
            if s['s'] == 'assign' and s['place']['l'] == 0 and not s['place']['p']:
                n_ret += 1
                o = tr.origin(s['rv']['a']) if s['rv']['r'] == 'use' else {'o': 'rvalue'}
                okr = o['o'] == 'arg' and o['l'] in state_args and not o['p']
                if not okr:
                    okr = _state_component_returned(b, tr, oa.defs, s['rv'], state_args)
                rep.check(okr, 'R4', 'return-is-the-moved-in-state', where(b, bi, si),
                          'return place := move of the state parameter',
                          'the stepping function returns something other than the state it was given '
                          '(e.g. a saved copy or a discarded trial)')
        t = bb['term']
        if t['t'] == 'call' and t['dest']['l'] == 0 and not t['dest']['p']:
            n_ret += 1
            rep.fail('R4', 'return-is-the-moved-in-state', where(b, bi), 'the return value is produced by a call')
    rep.floor('R4', 'assignments to the return place', n_ret, 1, where(b))
    for bi, t in b.calls():
        if call_matches(t, 'Clone::clone') and t['args']:
            o = tr.origin(t['args'][0])
            if o['o'] == 'arg' and o['l'] in state_args:
                rep.fail('R4', 'no-second-copy-of-the-state', where(b, bi),
                         'the stepping function clones the state: a second copy exists that could be handed back')
    rep.ok('R4', 'no-second-copy-of-the-state:scan', where(b), 'no Clone::clone on the state parameter')

    # ---- R5: bookkeeping of score_current ---------------------------------------------
    old_op = oa.dec_args.get('old')
    if old_op is None:
        f64s = oa.old_local()
        old_op = f64s[0][1] if f64s else None
    sc = oa.arg_local(old_op) if old_op is not None else None
    if rep.check(sc is not None, 'R5', 'anchor:score_current', where(b, oa.decision_bb),
                 'score_current = local _%s' % sc, 'cannot identify the current-score local passed to the decision',
                 'anchor-lost'):
        srcs = _sources(b, oa, sc)
        bad = [s for s in srcs if s[0] == 'other']
        rep.check(not bad, 'R5', 'score_current-only-takes-accepted-scores', where(b, oa.decision_bb),
                  'definitions of score_current: %s' % sorted({s[0] for s in srcs}),
                  'score_current is assigned from something other than the accepted payload / itself / the initial '
                  'score: %s' % bad)
        rep.floor('R5', 'definition sources of score_current', len({s[0] for s in srcs}), 2)
        # the score a proposal is compared with is the RUNNING score: inside the proposal loop it takes the accepted payload
        # (a value frozen at the start of the loop would accept every proposal that beats the loop's first score)
        inner_srcs = _sources(b, oa, sc, within=oa.inner['body'])
        rep.check(any(s2[0] == 'accepted-payload' for s2 in inner_srcs), 'R5', 'compared-score-is-updated-on-acceptance',
                  where(b, oa.decision_bb), 'inside the proposal loop the compared score takes the accepted payload',
                  'the score passed to the decision as the current one is never updated with an accepted score inside the '
                  'proposal loop (it is fixed for the whole loop): later proposals are compared with a stale score')
        # ... and nothing else: a value computed before the proposal loop (a snapshot of the score the loop started with) is
        # not the score of the current state once a proposal of this loop has been accepted
        stale = sorted({s2[1] for s2 in inner_srcs if s2[0] == 'outside'})
        rep.check(not stale, 'R5', 'compared-score-never-falls-back-to-a-snapshot', where(b, oa.decision_bb),
                  'inside the proposal loop the compared score takes only the accepted payload or keeps its own value',
                  'inside the proposal loop the score passed to the decision as the current one is assigned a value that was '
                  'computed before the loop (%s): after an acceptance in this loop it is no longer the score of the current '
                  'state, so later proposals are compared with a stale score' % ', '.join(stale))
        rep.sample('%s: score_current=_%d defined from %s' % (b.path, sc, sorted({s[0] for s in srcs})))


def _idx_desc(b, o):
    if o['o'] == 'call':
        return 'result of %s (bb%d)' % (o['term']['func'].get('fn'), o['bb'])
    if o['o'] in ('local', 'arg'):
        return '_%d' % o['l']
    if o['o'] == 'const':
        return 'const %s' % (o['c'].get('int'))
    return o['o']


def _same_value(b, cfg, defs, i1, i2, bb1, bb2, loop):
    """Do two index origins denote the same run-time value within one loop iteration?"""
    if i1['o'] != i2['o']:
        return False, 'proposal index is %s but undo index is %s' % (_idx_desc(b, i1), _idx_desc(b, i2))
    if i1['p'] or i2['p']:
        if i1['p'] != i2['p']:
            return False, 'index projections differ'
    if i1['o'] == 'call':
        if i1['bb'] != i2['bb']:
            return False, 'proposal index comes from the call in bb%d, undo index from a different call in bb%d (a fresh ' \
                          'draw / different element)' % (i1['bb'], i2['bb'])
        if i1['bb'] not in loop['body']:
            # defined once outside: same value everywhere
            return True, 'both indices are the result of the single call in bb%d (outside the loop)' % i1['bb']
        ok = cfg.dominates(i1['bb'], bb1) and cfg.dominates(i1['bb'], bb2)
        return ok, 'both indices are the single-definition result of the call in bb%d, which dominates both uses ' \
                   'inside one iteration' % i1['bb']
    if i1['o'] in ('local', 'arg'):
        if i1['l'] != i2['l']:
            return False, 'proposal index is local _%d but undo index is local _%d' % (i1['l'], i2['l'])
        # multiple definitions: none may lie between the two uses
        between = cfg.reachable_after(bb1, avoid={bb2}) | {bb1}
        for (dbi, _si, _k, _p) in defs.of(i1['l']):
            if dbi in between and dbi != bb1 and dbi in cfg.reach:
                # definition on a path proposal -> undo
                can_reach = bb2 in cfg.reachable_from([dbi])
                if can_reach:
                    return False, 'index local _%d is re-assigned in bb%d between the proposal and the undo' % (i1['l'], dbi)
        return True, 'both indices read local _%d with no intervening assignment' % i1['l']
    if i1['o'] == 'const':
        same = i1['c'].get('int') == i2['c'].get('int')
        return same, 'constant indices %s / %s' % (i1['c'].get('int'), i2['c'].get('int'))
    return False, 'index shape not recognised'


def _sources(b, oa, sc, within=None):
    """Classify every definition that can flow into local sc (flow-insensitive, through copies, tuples and fields).  With
    `within` only definitions located in those blocks are followed (what can flow into sc without leaving a loop)."""
    defs = oa.defs
    out = []
    seen = set()

    def operand(a, fp, bi):
        if a.get('k') == 'const':
            out.append(('other', 'constant at bb%d' % bi))
            return
        if a['l'] == sc and not a['p'] and not fp:
            out.append(('itself', bi))
            return
        # field names, with the variant an enum payload was read out of kept as '#Variant'
        pp = []
        for e in a['p']:
            if isinstance(e, dict) and 'downcast' in e:
                pp.append('#%s' % e['downcast'])
            elif isinstance(e, dict) and 'f' in e:
                pp.append(e.get('n') or str(e['f']))
        visit(a['l'], tuple(pp) + tuple(fp), bi)

    def rvalue(rv, fp, bi):
        if rv['r'] == 'use':
            operand(rv['a'], fp, bi)
        elif rv['r'] == 'aggr' and fp and rv.get('agg') in ('tuple', 'adt'):
            if fp[0].startswith('#'):
                if rv.get('variant') is not None and rv.get('variant') != fp[0][1:]:
                    return          # this definition builds another variant: it cannot be what the payload is read from
                fp = fp[1:]
                if not fp:
                    out.append(('other', 'whole variant at bb%d' % bi))
                    return
            names = rv.get('fields') or [str(i) for i in range(len(rv['ops']))]
            idx = None
            for i, n in enumerate(names):
                if str(n) == fp[0] or str(i) == fp[0]:
                    idx = i
            if idx is None or idx >= len(rv['ops']):
                out.append(('other', 'aggregate without field %s at bb%d' % (fp[0], bi)))
            else:
                operand(rv['ops'][idx], fp[1:], bi)
        else:
            out.append(('other', 'computed (%s) at bb%d' % (rv['r'], bi)))

    def visit(l, fp, frm):
        if (l, fp) in seen:
            return
        seen.add((l, fp))
        if 1 <= l <= b.arg_count and not defs.of(l):
            out.append(('other', 'parameter _%d' % l))
            return
        n = 0
        for (bi, si, kind, payload) in defs.of(l):
            if bi not in oa.cfg.reach:
                continue
            if within is not None and bi not in within:
                n += 1
                if l != sc:
                    out.append(('outside', '_%d (defined at bb%d, before the loop)' % (l, bi)))
                continue
            n += 1
            if kind == 'call':
                if call_matches(payload, 'Option::<T>::expect', 'Option::<T>::unwrap') and not fp:
                    # the payload of an Option obtained by expect()/unwrap(): same as projecting `.0` out of it
                    a0 = payload['args'][0]
                    if 'l' in a0:
                        visit(a0['l'], tuple(field_path(a0['p'])) + ('0',), bi)
                        continue
                fpn = tuple(x for x in fp if not x.startswith('#'))
                if bi == oa.decision_bb and fpn == ('0',):
                    out.append(('accepted-payload', frm))
                elif is_trait_call(payload, 'State', 'score') and fpn == ('0',) and bi not in oa.inner['body']:
                    out.append(('initial-score', frm))
                else:
                    out.append(('other', 'call result at bb%d%s' % (bi, (' field ' + '.'.join(fp)) if fp else '')))
                continue
            rvalue(payload, fp, bi)
        for (bi, si, pl, rv) in defs.pwrites.get(l, []):
            if bi not in oa.cfg.reach or (within is not None and bi not in within):
                continue
            wp = tuple(field_path(pl['p']))
            fpx = tuple(x for x in fp if not x.startswith('#'))
            if fpx[:len(wp)] == wp and not any(x.startswith('#') for x in fp):
                n += 1
                if rv.get('r') in ('call', 'setdiscr'):
                    out.append(('other', 'partial write by %s at bb%d' % (rv.get('r'), bi)))
                else:
                    rvalue(rv, fp[len(wp):], bi)
        if n == 0:
            out.append(('other', 'no definition of _%d found' % l))
    visit(sc, (), None)
    return out


def _aggregate_defs(defs, l, depth=0):
    """The definitions of local l, looking through plain moves of whole locals (`r = move tmp`, the hand-over of a spliced
    helper's result).  Anything else is returned as it is, for the caller to reject."""
    out = []
    for d in defs.of(l):
        if d[2] == 'assign' and d[3]['r'] == 'use' and 'l' in d[3]['a'] and not d[3]['a']['p'] and depth < 4:
            inner = _aggregate_defs(defs, d[3]['a']['l'], depth + 1)
            if inner:
                out.extend(inner)
                continue
        out.append(d)
    return out


def _state_component_returned(b, tr, defs, rv, state_args, depth=0):
    """The returned value is a record that carries the moved-in state next to other data (`(state, summary)`), or the state
    component of such a record built on every path (`helper(state).0` with the helper spliced in)."""
    def is_state(op):
        if 'l' not in op:
            return False
        o = tr.origin(op)
        return o['o'] == 'arg' and o['l'] in state_args and not o['p']
    if rv['r'] == 'aggr' and rv.get('agg') == 'adt' and str(rv.get('adt', '')).endswith('result::Result') and rv.get('variant') == 'Err':
        return True         # a fallible stepping function failing: no state is handed back on this path
    if rv['r'] == 'aggr' and rv.get('agg') in ('tuple', 'adt'):
        st = [op for op in rv['ops'] if is_state(op)]
        # exactly one component is the state parameter; no other component has its type (a saved copy riding along)
        sty = b.local_ty(state_args[0]) if state_args else None
        others = [op for op in rv['ops'] if not is_state(op) and op.get('ty') == sty]
        return len(st) == 1 and not others
    if rv['r'] == 'use' and 'l' in rv['a'] and depth < 3:
        a = rv['a']
        flds = [e for e in a['p'] if isinstance(e, dict) and 'f' in e]
        dcs = [e for e in a['p'] if isinstance(e, dict) and 'downcast' in e]
        if len(flds) == 1 and len(a['p']) == 1 + len(dcs) and len(dcs) <= 1:
            ds = _aggregate_defs(defs, a['l'])
            # (`match helper(state) { Ok(s) => s, Err(e) => panic!(..) }`: only the definitions that build the read variant count)
            if dcs:
                ds = [d for d in ds if not (d[2] == 'assign' and d[3]['r'] == 'aggr' and d[3].get('agg') == 'adt' and
                                            d[3].get('variant') != dcs[0]['downcast'])]
            if ds and all(d[2] == 'assign' and d[3]['r'] == 'aggr' and d[3].get('agg') in ('tuple', 'adt') and
                          flds[0]['f'] < len(d[3]['ops']) and is_state(d[3]['ops'][flds[0]['f']]) for d in ds):
                return True
        if not a['p']:
            ds = [d for d in defs.of(a['l'])]
            if ds and all(d[2] == 'assign' and _state_component_returned(b, tr, defs, d[3], state_args, depth + 1) or
                          (d[2] == 'assign' and d[3]['r'] == 'use' and is_state(d[3]['a'])) for d in ds):
                return True
    return False


def _r3(ctx):
    rep, f, cg = ctx.rep, ctx.facts, ctx.cg
    sb_set = f.one(self_adt='basis::StandardBasis', trait='Basis', name='set_value')
    sb_reset = f.one(self_adt='basis::StandardBasis', trait='Basis', name='reset_value')
    sb_get = f.one(self_adt='basis::StandardBasis', trait='Basis', name='get_value')
    sb_samp = f.one(self_adt='basis::StandardBasis', trait='Basis', name='set_sampled')
    if not rep.check(all(x is not None for x in (sb_set, sb_reset, sb_get, sb_samp)), 'R3',
                     'anchor:StandardBasis-Basis-impl', 'basis::StandardBasis', 'found',
                     'the Basis impl of StandardBasis (set_value/reset_value/get_value/set_sampled) was not found',
                     'anchor-lost'):
        return
    for x in (sb_set, sb_reset, sb_get, sb_samp):
        rep.saw(x)
    from ..cfg import CFG
    # get_value returns the cell's value
    tg = Tracer(sb_get)
    gcalls = [(bi, t) for bi, t in sb_get.calls() if call_matches(t, 'SharedValue::get_value')]
    okg = len(gcalls) == 1
    if okg and gcalls[0][1]['dest']['l'] != 0:
        # the value may reach the return slot through temporaries (a spliced `impl From<&StandardBasis> for f64`)
        ro = tg.origin({'k': 'copy', 'l': 0, 'p': []})
        okg = ro['o'] == 'call' and ro.get('bb') == gcalls[0][0] and not ro['p']
    if okg:
        o = tg.origin(gcalls[0][1]['args'][0])
        okg = o['o'] == 'arg' and field_path(o['p']) == ['value']
    rep.check(okg, 'R3', 'get_value-reads-own-cell', where(sb_get), 'returns SharedValue::get_value(self.value)',
              'StandardBasis::get_value does not simply return its own cell\'s value', 'undecidable-shape')
    # the undo field: the field of the handle in which set_value captures the cell's value before it writes the cell (`old` in
    # the reference tree; the name is the code's, the role is this).  reset_value must then write exactly that field back.
    OLD = 'old'
    try:
        from ..celltables import recorder as _rec
        from ..sym import SYM as _SYM, SymEx as _SX
        _sx = _SX(f, models=[_rec({'basis::SharedValue::set_value': 'cellwrite'})])
        _outs = _sx.run(sb_set, [_SYM('self'), _SYM('x')])
        _cands = None
        for _o in _outs:
            _seen, _names = False, set()
            for _e in _o.effects:
                if _e[0] == ('rec', 'cellwrite'):
                    _seen = True
                elif not _seen and isinstance(_e[0], tuple) and _e[0][0] == 'sym' and str(_e[0][1]).startswith('self.') and \
                        _e[1] == _SYM('self.value.value') and _e[0][1].count('.') == 1:
                    _names.add(_e[0][1][5:])
            _cands = _names if _cands is None else (_cands & _names)
        if _cands and len(_cands) == 1 and not _sx.aborted:
            OLD = sorted(_cands)[0]
    except Exception:      # noqa: BLE001
        pass
    # set_value, path-sensitively: on EVERY path the pre-write value of the cell is captured in self.old before the
    # (single) cell write, and the write targets the handle's own cell
    from ..celltables import recorder
    from ..sym import SYM, SymEx
    sx = SymEx(f, models=[recorder({'basis::SharedValue::set_value': 'cellwrite'})])
    outs = sx.run(sb_set, [SYM('self'), SYM('x')])
    if rep.check(bool(outs) and not sx.aborted, 'R3', 'set_value-loop-free', where(sb_set), '%d paths' % len(outs),
                 'set_value is not loop-free', 'undecidable-shape'):
        bad_capture = bad_writes = bad_target = 0
        for o in outs:
            seq = []
            for e in o.effects:
                if e[0] == ('rec', 'cellwrite'):
                    seq.append(('w', e[1][0]))
                elif e[0] == SYM('self.' + OLD):
                    seq.append(('old', e[1]))
            writes = [i for i, x in enumerate(seq) if x[0] == 'w']
            caps = [i for i, x in enumerate(seq) if x[0] == 'old']
            if len(writes) != 1:
                bad_writes += 1
                continue
            if seq[writes[0]][1] != SYM('self.value'):
                bad_target += 1
            good = [i for i in caps if i < writes[0] and seq[i][1] == SYM('self.value.value')]
            later = [i for i in caps if i > writes[0]]
            if not good or later or (caps and caps[-1] not in good):
                bad_capture += 1
        rep.check(bad_writes == 0, 'R3', 'set_value-writes-cell-once', where(sb_set), 'one cell write on each of %d paths' % len(outs),
                  '%d path(s) of set_value write the cell zero or several times' % bad_writes)
        rep.check(bad_capture == 0, 'R3', 'old-is-pre-write-value', where(sb_set),
                  'on every path self.old := value of the cell before the write',
                  'on %d of %d paths of set_value the cell is overwritten without first capturing its current value in self.old '
                  '(or old is set to something else): a later reset_value restores a stale value' % (bad_capture, len(outs)))
        rep.check(bad_target == 0, 'R3', 'write-targets-own-cell', where(sb_set), 'writes self.value', 'set_value writes a different cell')
        rep.sample('set_value: %d paths, each: old := cell value; one write to self.value' % len(outs))
    # reset_value writes exactly self.old to self.value
    trs = Tracer(sb_reset)
    rcalls = [(bi, t) for bi, t in sb_reset.calls() if call_matches(t, 'SharedValue::set_value')]
    if rep.check(len(rcalls) == 1, 'R3', 'reset-writes-cell-once', where(sb_reset), 'one cell write',
                 'reset_value writes the cell %d times' % len(rcalls)):
        bi, t = rcalls[0]
        a0 = trs.origin(t['args'][0])
        a1 = trs.origin(t['args'][1])
        rep.check(a0['o'] == 'arg' and a0['l'] == 1 and field_path(a0['p']) == ['value'], 'R3',
                  'reset-targets-own-cell', where(sb_reset, bi), 'writes self.value', 'reset_value writes a different cell')
        rep.check(a1['o'] == 'arg' and a1['l'] == 1 and field_path(a1['p']) == [OLD], 'R3',
                  'reset-writes-old', where(sb_reset, bi), 'value written = self.old',
                  'reset_value restores something other than the captured old value (origin: %s %s)'
                  % (a1['o'], field_path(a1.get('p', []))))
        rep.sample('reset_value: SharedValue::set_value(self.value, self.old)')
        # ... on EVERY execution where there is something to undo: a path of reset_value that skips the write must be a path on
        # which the cell already holds the captured value (decided on witness pairs cell/old of representable values, down to one unit in the last place)
        from fractions import Fraction
        from ..celltables import eval_num
        from ..optmodel import _mentions_opaque
        sxr = SymEx(f, models=[recorder({'basis::SharedValue::set_value': 'cellwrite'})])
        routs = sxr.run(sb_reset, [SYM('self')])
        if routs and not sxr.aborted:
            ulp = Fraction(1, 2 ** 52)          # all witness pairs are exactly representable f64 values
            wit = [('old=cell+1', 7, Fraction(8)), ('old=cell-1', 7, Fraction(6)), ('cell=1,old=1+1ulp', 1, 1 + ulp),
                   ('cell=1,old=1-ulp/2', 1, 1 - ulp / 2), ('cell=0,old=2^-130', 0, Fraction(1, 2 ** 130)),
                   ('cell=0,old=-2^-130', 0, Fraction(-1, 2 ** 130)), ('cell=1e6,old=-1e6', 10 ** 6, Fraction(-10 ** 6))]
            n_dec = 0
            for lab, cell, old in wit:
                env = {'self.value.value': Fraction(cell), 'self.' + OLD: old}
                skipping, unknown = [], False
                for o in routs:
                    feas = True
                    for c in o.pc:
                        if c[0] != 'cond':
                            continue
                        try:
                            if bool(eval_num(c[1], env)) != c[2]:
                                feas = False
                                break
                        except (KeyError, ValueError, ZeroDivisionError):
                            if _mentions_opaque(c[1]) and 'self.' not in repr(c[1]):
                                continue
                            unknown = True
                    if feas and not any(e[0] == ('rec', 'cellwrite') for e in o.effects):
                        skipping.append(o)
                if unknown:
                    rep.sample('reset_value, %s: a path condition could not be evaluated; not decided' % lab)
                    continue
                n_dec += 1
                rep.check(not skipping, 'R3', 'reset-always-restores:' + lab, where(sb_reset),
                          'every feasible path writes the cell',
                          'with the cell at %s and the captured value %s (%s) reset_value has a feasible path that does not write '
                          'the cell: the rejected proposal is not undone' % (cell, float(old), lab))
            rep.sample('reset_value: %d paths; %d of %d witness pairs decided' % (len(routs), n_dec, len(wit)))
    # `old` has no other writer in the crate
    n = 0
    for body in f.bodies.values():
        for bi, si, pl, w in places_in_body(body):
            if not w:
                continue
            for e in pl['p']:
                if isinstance(e, dict) and e.get('n') == OLD and e.get('of', '').startswith('basis::StandardBasis'):
                    n += 1
                    from .common import direct_sampler
                    ds = direct_sampler(ctx) if body is sb_samp else None
                    rep.check(body is sb_set or (ds is not None and ds['ok'] and ('self.' + OLD) in ds.get('undo', [])),
                              'R3', 'old-has-single-writer:%s' % body.path, where(body, bi),
                              'only set_value assigns old (or a set_sampled that captures and writes itself: %s)'
                              % (ds['why'][:160] if ds else 'n/a'),
                              'StandardBasis.old is also assigned in %s%s' % (body.path, ('; ' + ds['why']) if ds else ''))
    rep.floor('R3', 'writes to StandardBasis.old', n, 1)
    # set_sampled: exactly one set_value, no loop
    css = CFG(sb_samp)
    sv = [(bi, t) for bi, t in sb_samp.calls() if is_trait_call(t, 'Basis', 'set_value')]
    from .common import direct_sampler
    ds = direct_sampler(ctx)
    rep.check((len(sv) == 1 and not css.loops()) or (ds is not None and ds['ok']), 'R3', 'set_sampled-sets-once', where(sb_samp),
              'one set_value, loop-free' if sv else (ds['why'] if ds else ''),
              'set_sampled calls set_value %d times / contains a loop: old may go stale%s' % (len(sv), ('; ' + ds['why']) if ds else ''))


def thorough(ctx):
    """Thorough tier: compile-fail witnesses (+ compiling twins) for the type-level remainder."""
    from ..witness import run_witnesses
    rep = ctx.rep
    res, tail, rc = run_witnesses(ctx.repo)
    wanted = {'W1BasisCannotOutliveState': 'a basis handle cannot outlive its state', 'W3bBasisFieldsArePrivate': 'old/min/max of a handle cannot be forged'}
    n = 0
    for name, verdict in sorted(res.items()):
        w, kind, _line = name.split(':')
        if w not in wanted:
            continue
        n += 1
        rep.check(verdict == 'ok', 'W', '%s:%s' % (w, kind), 'witness/src/lib.rs', wanted[w] + (' (does not compile)' if kind == 'compile_fail' else ' (twin compiles)'),
                  'witness %s/%s failed: the type-level guarantee "%s" no longer holds for downstream code (or the public API it uses changed)' % (w, kind, wanted[w]))
    rep.floor('W', 'witness doctests', n, 4, 'witness/src/lib.rs')


def run(ctx):
    _run_rules(ctx)
    from .common import import_obligations
    # the score carried forward on acceptance is the proposal's (C07.R2): otherwise the returned state's score is not the current score
    import_obligations(ctx, 'C07', 'R6', only_rules={'R2'}, floor=1)
    # "the result is the last accepted state", as the command line delivers it: what is written is a result of the stages, not
    # the state they started from (C10.R1 written-state obligations)
    import_obligations(ctx, 'C10', 'R7', only_rules={'R1'}, floor=1, only_instances=lambda k: 'written-state' in k)
    # the state the optimiser is handed (a clone, in the command line) is the input state: clone fidelity (C09.R3)
    import_obligations(ctx, 'C09', 'R8', only_rules={'R3'}, floor=2)

