"""C14 — one lattice: Cartesian map, periodic images and cell area agree."""
from ..harness import where
from ..lineage import adaptor_chain
from ..mirutil import Tracer, call_matches, field_path
from ..poly import subst
from ..sym import NUM, SYM, SymEx, sfield
from ..terms import Norm, NotNumeric

LEVEL = 'other'
EXPLANATION = ('Cell2::to_cartesian / area / to_cartesian_point / to_cartesian_translate are loop-free and executed '
               'symbolically; exact normal forms show: the map is linear with A=(a,0), B=(b cos t, b sin t); the '
               'translate replaces only the two translation entries by to_cartesian(p + (n,m)); area = A x B. '
               'periodic_images is the cartesian product of two -k..=k ranges, filtered by a closure whose 8-row '
               'truth table equals zero OR NOT(x=0 AND y=0), mapped through to_cartesian_translate with (x,y) in order.')

CELL = 'cell::Cell2'


def cell_atoms(n):
    L = n.atom('self.length.value')
    R = n.atom('self.ratio.value')
    t_arg = n.atom('self.angle.value')
    return L, R, t_arg


def lattice(f):
    """Returns dict with the normal forms of to_cartesian (or raises)."""
    b = f.one(self_adt=CELL, name='to_cartesian')
    if b is None:
        return None
    n = Norm()
    sx = SymEx(f)
    outs = sx.run(b, [SYM('self'), SYM('x'), SYM('y')])
    if len(outs) != 1 or sx.aborted:
        return {'body': b, 'error': 'to_cartesian is not a single loop-free path (%d paths)' % len(outs)}
    r = sx.deep(outs[0].st, outs[0].ret)
    try:
        X, Y = n.rf(sfield(r, '0')), n.rf(sfield(r, '1'))
    except (NotNumeric, TypeError) as e:
        return {'body': b, 'error': 'non-numeric result: %s' % e}
    one, zero = n.const(1), n.const(0)
    Ax, Ay = subst(subst(X, 'x', one), 'y', zero), subst(subst(Y, 'x', one), 'y', zero)
    Bx, By = subst(subst(X, 'x', zero), 'y', one), subst(subst(Y, 'x', zero), 'y', one)
    return {'body': b, 'n': n, 'X': X, 'Y': Y, 'A': (Ax, Ay), 'B': (Bx, By), 'sx': sx}


def _run_rules(ctx):
    rep, f = ctx.rep, ctx.facts
    rep.trust('pk/sym.py + model table (f64 sin/cos, nalgebra Point/Translation/Transform ops); pk/poly.py')
    rep.assume('real-number semantics (rounding not decided); nalgebra Transform*Point is the affine action when '
               'the projective row does not contribute')
    lat = lattice(f)
    if not rep.check(lat is not None and 'error' not in lat, 'R1', 'anchor:to_cartesian', CELL,
                     'evaluated', (lat or {}).get('error', 'Cell2::to_cartesian not found'),
                     'anchor-lost' if lat is None else 'undecidable-shape'):
        return
    b, n = lat['body'], lat['n']
    rep.saw(b)
    L, R, T = cell_atoms(n)
    x, y = n.atom('x'), n.atom('y')
    cosT, sinT = n.fn('cos', T), n.fn('sin', T)
    a_, b_ = L, L * R
    lin_x = (lat['X'] - (x * lat['A'][0] + y * lat['B'][0])).is_zero()
    lin_y = (lat['Y'] - (x * lat['A'][1] + y * lat['B'][1])).is_zero()
    rep.check(lin_x and lin_y, 'R1', 'to_cartesian-is-linear', where(b), 'f(x,y) = x*f(1,0) + y*f(0,1)',
              'the fractional->Cartesian map is not linear in (x, y)')
    rep.check(lat['A'][0].equals(a_) and lat['A'][1].is_zero(), 'R1', 'lattice-vector-A', where(b), 'A = (a, 0), a = length',
              'first lattice vector is (%s, %s), expected (length, 0)' % (lat['A'][0].canon(), lat['A'][1].canon()))
    rep.check(lat['B'][0].equals(b_ * cosT) and lat['B'][1].equals(b_ * sinT), 'R1', 'lattice-vector-B', where(b),
              'B = (b cos t, b sin t), b = length*ratio',
              'second lattice vector is (%s, %s), expected (length*ratio*cos(angle), length*ratio*sin(angle))'
              % (lat['B'][0].canon(), lat['B'][1].canon()))
    rep.sample('to_cartesian: A=(%s,%s) B=(%s,%s)' % (lat['A'][0].canon(), lat['A'][1].canon(), lat['B'][0].canon(),
                                                   lat['B'][1].canon()))
    # R4 area
    ab = f.one(self_adt=CELL, name='area')
    if rep.check(ab is not None, 'R4', 'anchor:area', CELL, 'found', 'Cell2::area not found', 'anchor-lost'):
        rep.saw(ab)
        sx = SymEx(f)
        outs = sx.run(ab, [SYM('self')])
        ok = len(outs) == 1
        if ok:
            try:
                ar = n.rf(outs[0].ret)
                cross = lat['A'][0] * lat['B'][1] - lat['A'][1] * lat['B'][0]
                ok = ar.equals(cross) or ar.equals(-cross)
                rep.check(ok, 'R4', 'area-is-A-cross-B', where(ab), 'area = A.x*B.y - A.y*B.x = %s' % cross.canon(),
                          'Cell2::area = %s is not |A x B| = %s of the lattice vectors to_cartesian uses' % (ar.canon(), cross.canon()))
                rep.sample('area = %s' % ar.canon())
            except NotNumeric as e:
                rep.fail('R4', 'area-is-A-cross-B', where(ab), 'non-numeric area: %s' % e, 'undecidable-shape')
        else:
            rep.fail('R4', 'area-is-A-cross-B', where(ab), 'area is not a single loop-free path', 'undecidable-shape')
    # R2 one map
    _one_map(ctx, lat)
    # R3 index set
    _images(ctx)


def _tc(lat, n, px, py):
    """to_cartesian applied to (px, py) using the extracted lattice vectors (linear map)."""
    return (px * lat['A'][0] + py * lat['B'][0], px * lat['A'][1] + py * lat['B'][1])


def _one_map(ctx, lat):
    rep, f = ctx.rep, ctx.facts
    n = lat['n']
    # to_cartesian_point
    bp = f.one(self_adt=CELL, name='to_cartesian_point')
    if rep.check(bp is not None, 'R2', 'anchor:to_cartesian_point', CELL, 'found', 'not found', 'anchor-lost'):
        rep.saw(bp)
        sx = SymEx(f)
        outs = sx.run(bp, [SYM('self'), SYM('p')])
        ok = len(outs) == 1
        if ok:
            r = sx.deep(outs[0].st, outs[0].ret)
            try:
                ex, ey = _tc(lat, n, n.atom('p.x'), n.atom('p.y'))
                ok = n.rf(sfield(r, 'x')).equals(ex) and n.rf(sfield(r, 'y')).equals(ey)
            except (NotNumeric, TypeError):
                ok = False
        rep.check(ok, 'R2', 'point-map-is-to_cartesian', where(bp), 'to_cartesian_point(p) = Point(to_cartesian(p.x, p.y))',
                  'to_cartesian_point does not map a point through to_cartesian component-wise')
    bc = f.one(self_adt=CELL, name='center')
    if bc is not None:
        rep.saw(bc)
        sx = SymEx(f)
        outs = sx.run(bc, [SYM('self')])
        ok = len(outs) == 1
        if ok:
            r = sx.deep(outs[0].st, outs[0].ret)
            try:
                h = n.const(1) / n.const(2)
                ex, ey = _tc(lat, n, h, h)
                ok = n.rf(sfield(r, 'x')).equals(ex) and n.rf(sfield(r, 'y')).equals(ey)
            except (NotNumeric, TypeError):
                ok = False
        rep.check(ok, 'R2', 'center-is-to_cartesian-half-half', where(bc), 'center = to_cartesian(1/2, 1/2)',
                  'Cell2::center is not the image of (1/2, 1/2) under to_cartesian')
    gc = f.one(self_adt=CELL, name='get_corners')
    if gc is not None:
        rep.saw(gc)
        from ..lineage import adaptor_chain
        from ..mirutil import Tracer as _T
        tg = _T(gc)
        src, chain = adaptor_chain(tg, {'k': 'copy', 'l': 0, 'p': []})
        names = [c[0] for c in chain]
        okc = names[:2] == ['collect', 'map'] and all(x in ('collect', 'map', 'into_iter', 'iter') for x in names)
        if okc:
            mt = [c for c in chain if c[0] == 'map'][0][1]
            co = tg.origin(mt['args'][1])
            cb = f.body(co['rv']['closure']) if co['o'] == 'rvalue' and co['rv'].get('agg') == 'closure' else None
            okc = False
            if cb is not None:
                tc = _T(cb)
                calls = list(cb.calls())
                okc = len(calls) == 1 and call_matches(calls[0][1], 'Cell2::to_cartesian_point') and calls[0][1]['dest']['l'] == 0 \
                    and tc.origin(calls[0][1]['args'][1]).get('l') == 2
        if not okc:
            # value-based: the returned sequence is [to_cartesian(-1/2,-1/2), (-1/2,1/2), (1/2,1/2), (1/2,-1/2)] (a constant table,
            # an array or a chain evaluated by their definitions)
            sxc = SymEx(f)
            oc = sxc.run(gc, [SYM('self')])
            if len(oc) == 1 and not sxc.aborted:
                rv = sxc.deep(oc[0].st, oc[0].ret)
                seq = sxc.as_seq(oc[0].st, rv)
                if seq is not None and len(seq) == 4:
                    try:
                        hh = n.const(1) / n.const(2)
                        want = [(-hh, -hh), (-hh, hh), (hh, hh), (hh, -hh)]
                        okc = True
                        for pt, (wx, wy) in zip(seq, want):
                            pt = sxc.deep(oc[0].st, pt)
                            ex, ey = _tc(lat, n, wx, wy)
                            okc = okc and n.rf(sfield(pt, 'x')).equals(ex) and n.rf(sfield(pt, 'y')).equals(ey)
                    except (NotNumeric, TypeError, AttributeError):
                        okc = False
        rep.check(okc, 'R2', 'corners-through-to_cartesian_point', where(gc), 'corners = fractional corners mapped by to_cartesian_point',
                  'get_corners does not map its fractional corner list through to_cartesian_point')
    # isometry & translate
    for nm, extra in (('to_cartesian_isometry', []), ('to_cartesian_translate', ['x', 'y'])):
        bt = f.one(self_adt=CELL, name=nm)
        if not rep.check(bt is not None, 'R2', 'anchor:' + nm, CELL, 'found', nm + ' not found', 'anchor-lost'):
            continue
        rep.saw(bt)
        sx = SymEx(f)
        outs = sx.run(bt, [SYM('self'), SYM('T')] + [SYM(e) for e in extra])
        if not rep.check(len(outs) == 1 and not sx.aborted, 'R2', nm + '-loop-free', where(bt), 'single path',
                         '%s is not a single loop-free path' % nm, 'undecidable-shape'):
            continue
        r = sx.deep(outs[0].st, outs[0].ret)
        e = lambda i, j: n.atom('T.0[%d,%d]' % (i, j))
        px, py = e(0, 2), e(1, 2)
        if extra:
            px, py = px + n.atom('x'), py + n.atom('y')
        ex, ey = _tc(lat, n, px, py)
        try:
            got = {(i, j): n.rf(sx.mat_elem(outs[0].st, r, i, j)) for i in range(3) for j in range(3)}
        except (NotNumeric, TypeError) as ex_:
            rep.fail('R2', nm + '-result-shape', where(bt), 'result is not a 3x3 transform: %s' % str(ex_)[:100],
                     'undecidable-shape')
            continue
        rep.check(got[(0, 2)].equals(ex) and got[(1, 2)].equals(ey), 'R2', nm + '-translation', where(bt),
                  'new translation = to_cartesian(p%s)' % (' + (n, m)' if extra else ''),
                  '%s: the Cartesian translation is (%s, %s), expected to_cartesian of the fractional position%s'
                  % (nm, got[(0, 2)].canon()[:120], got[(1, 2)].canon()[:120], ' shifted by (n, m) in that order' if extra else ''))
        keep = all(got[(i, j)].equals(e(i, j)) for i in range(3) for j in range(3) if (i, j) not in ((0, 2), (1, 2)))
        rep.check(keep, 'R2', nm + '-linear-part-untouched', where(bt), 'the 2x2 block and bottom row are unchanged',
                  '%s modifies matrix entries other than the two translation entries' % nm)
        rep.sample('%s: translation -> (%s, %s)' % (nm, got[(0, 2)].canon()[:100], got[(1, 2)].canon()[:100]))


def _images(ctx):
    """periodic_images, read in nest form (pk/loopform.py): whatever mix of iproduct!/flat_map/for/helpers the source uses,
    it must be  for i in -shells..=shells { for j in -shells..=shells { if keep(zero,i,j) { yield translate(t,i,j) } } }."""
    from ..nest import Nest
    rep, f = ctx.rep, ctx.facts
    b = f.one(self_adt=CELL, name='periodic_images')
    if not rep.check(b is not None, 'R3', 'anchor:periodic_images', CELL, 'found', 'not found', 'anchor-lost'):
        return
    rep.saw(b)
    n = Nest(f, b)
    for p in n.b.inlined:
        rep.note('periodic_images: spliced %s' % p)
    ys = n.calls(lambda t: t['func'].get('fn') == 'pk::yield')
    loops = n.loops_around(ys[0][0]) if len(ys) == 1 else []
    shape_ok = len(ys) == 1 and len(loops) == 2 and not any(d['adaptors'] for d in loops)
    rep.check(shape_ok, 'R3', 'image-chain-shape', where(b),
              'yields once per (i, j) of two nested index loops (fused: %s)' % (n.b.fused,),
              'periodic_images is not a two-level nest over the index ranges: %d yield site(s), %d enclosing loop(s), '
              'remaining adaptors %s — elements can be dropped, repeated or reordered'
              % (len(ys), len(loops), [d['adaptors'] for d in loops]), 'violation' if ys else 'undecidable-shape')
    if not shape_ok:
        return
    ybb = ys[0][0]
    outer, inner = loops
    t = n.tr
    shells_arg = [i for i in n.b.args() if n.b.local_name(i) == 'shells'] or [3]
    for k, d in enumerate(loops):
        s2 = t.origin({'k': 'copy', 'l': d['iter_local'], 'p': []}) if d['iter_local'] is not None else {'o': '?'}
        for _ in range(4):
            if s2['o'] == 'call' and call_matches(s2['term'], 'IntoIterator::into_iter', 'IntoIterator>::into_iter') and s2['term']['args']:
                s2 = t.origin(s2['term']['args'][0])
            elif s2['o'] == 'call' and call_matches(s2['term'], 'Clone::clone', 'Clone>::clone') and s2['term']['args'] and \
                    'RangeInclusive' in str(s2['term']['args'][0].get('ty', '')):
                # `let r = -s..=s; iproduct!(r.clone(), r)`: a clone of a range that nothing has advanced is that range
                src_o = t.origin(s2['term']['args'][0])
                src_l = src_o.get('l')
                advanced = False
                for bb_ in n.b.blocks:
                    for st_ in bb_['stmts']:
                        if st_['s'] == 'assign' and st_['rv'].get('r') == 'ref' and st_['rv'].get('mut') and \
                                st_['rv']['place'].get('l') == src_l and src_l is not None:
                            advanced = True
                if advanced:
                    break
                s2 = src_o
        okr = False
        why = 'index loop %d does not range over -shells..=shells' % k
        if s2['o'] == 'call' and call_matches(s2['term'], 'RangeInclusive::<Idx>::new'):
            lo, hi = [t.origin(x) for x in s2['term']['args'][:2]]
            lo_ok = lo['o'] == 'rvalue' and lo['rv']['r'] == 'unop' and lo['rv']['op'] == 'Neg' and \
                t.origin(lo['rv']['a']).get('l') in shells_arg and t.origin(lo['rv']['a'])['o'] == 'arg'
            hi_ok = hi['o'] == 'arg' and hi['l'] in shells_arg
            okr = lo_ok and hi_ok
            if not okr:
                why = 'range bounds of index loop %d are not (-shells, shells): lo=%s hi=%s' % (k, lo['o'], hi['o'])
        elif s2['o'] == 'rvalue' and 'Range' in str(s2['rv'].get('adt')):
            why = 'index loop %d is a half-open range: the +shells shell is missing' % k
        rep.check(okr, 'R3', 'index-range:%d' % k, where(b), '-shells..=shells', why)
    rep.check(n.recreated_per_iteration(inner, outer) and n.always_entered(outer) and n.always_entered(inner, within=outer),
              'R3', 'index-loops-are-a-full-product', where(b), 'inner range rebuilt for every outer index; no index skipped',
              'the index loops are not a full product (inner iterator shared across outer indices, or a loop is skipped)')
    # one iteration, symbolically: which (zero, i == 0, j == 0) reach the yield, and what is yielded
    sx, outs = n.iteration(inner, {ybb})
    if not rep.check(bool(outs) and not sx.aborted, 'R3', 'filter-truth-table', where(b), 'one iteration is loop-free',
                     'one iteration of the index nest is not loop-free', 'undecidable-shape'):
        return
    io, ii = 'item%d' % outer['header'], 'item%d' % inner['header']
    # the argument that says whether the untranslated image is wanted: a bool, or a two-variant enum (its discriminant)
    zname = n.b.local_name(n.b.args()[-1]) or 'zero'
    rows, err = {}, None
    for z in (0, 1):
        for x0 in (0, 1):
            for y0 in (0, 1):
                res = set()
                for o in outs:
                    sat = True
                    for c in o.pc:
                        if c[0] in ('assume', 'logcond'):
                            continue        # (whether a log line is written does not select what is yielded: both outcomes are explored)
                        if c[0] in ('switch', 'switch-not') and c[1] == ('app', 'discr', (SYM(zname),)):
                            holds = (z == c[2]) if c[0] == 'switch' else (z not in c[2])
                            if not holds:
                                sat = False
                                break
                            continue
                        v = _eval_bool(c[1], z, x0, y0, io, ii, zname) if c[0] == 'cond' else None
                        if v is None:
                            err = 'unrecognised condition on the way to the yield: %r' % (c[1],)
                            break
                        if v != c[2]:
                            sat = False
                            break
                    if err:
                        break
                    if sat:
                        res.add(isinstance(o.ret, tuple) and o.ret[0] == 'stopped' and o.ret[1] == ybb)
                if err:
                    break
                if len(res) != 1:
                    err = 'whether an index pair is yielded is not a function of (zero, i==0, j==0)'
                    break
                rows[(z, x0, y0)] = res.pop()
            if err:
                break
        if err:
            break
    if err:
        rep.fail('R3', 'filter-truth-table', where(b), err, 'undecidable-shape')
    else:
        # one value of the argument keeps everything, the other drops exactly the (0,0) translate
        def table(excl):
            return {(z, x0, y0): bool(z != excl or not (x0 and y0)) for z in (0, 1) for x0 in (0, 1) for y0 in (0, 1)}
        is_bool = n.b.local_ty(n.b.args()[-1]) == 'bool'
        want = table(0)
        if not is_bool and all(rows.get(k) == v for k, v in table(1).items()):
            want = table(1)
        diff = [k for k in sorted(want) if rows.get(k) != want[k]]
        rep.check(not diff, 'R3', 'filter-truth-table', where(b),
                  'keep(zero, i=0, j=0) == zero OR NOT(i=0 AND j=0) on all 8 rows',
                  'the image filter differs from "drop only the (0,0) translate, and only when zero is false" '
                  'on rows (zero, i==0, j==0) = %s' % diff)
        rep.extra['filter_truth_table'] = {str(k): v for k, v in sorted(rows.items())}
    # what is yielded: the value self.to_cartesian_translate(transform, i, j) has (compared as exact normal forms, so the
    # call may be spelled through a helper or with hoisted sub-expressions)
    ref_b = f.one(self_adt=CELL, name='to_cartesian_translate')
    if not rep.check(ref_b is not None, 'R3', 'anchor:to_cartesian_translate', CELL, 'found', 'not found', 'anchor-lost'):
        return
    ok, why = True, ''
    nyield = 0
    nm = Norm()
    for o in outs:
        if isinstance(o.ret, tuple) and o.ret[0] == 'stopped' and o.ret[1] == ybb:
            nyield += 1
            v = n.arg_values(sx, o, ybb)[0]
            got = nm.canon_value(v)
            good = False
            for a, c in ((io, ii), (ii, io)):
                rx = SymEx(f)
                routs = rx.run(ref_b, [SYM('self'), SYM('transform'), SYM(a), SYM(c)])
                if len(routs) == 1 and not rx.aborted:
                    if nm.canon_value(rx.deep(routs[0].st, routs[0].ret)) == got:
                        good = True
            if not good:
                ok, why = False, 'a yielded item is %s' % (got[:300],)
    rep.check(ok and nyield > 0, 'R3', 'each-index-mapped-by-translate', where(b),
              'every yielded item equals self.to_cartesian_translate(transform, i, j) (exact normal forms)',
              'periodic_images does not yield to_cartesian_translate(transform, i, j) for its index pair: %s' % why)


def show_val(v, depth=0):
    if not isinstance(v, tuple) or depth > 4:
        return str(v)[:40]
    if v[0] == 'sym':
        return v[1]
    if v[0] == 'num':
        return str(v[1])
    if v[0] == 'app':
        return '%s(%s)' % (v[1], ', '.join(show_val(x, depth + 1) for x in v[2]))
    if v[0] in ('bin', 'cmp'):
        return '(%s %s %s)' % (show_val(v[2], depth + 1), v[1], show_val(v[3], depth + 1))
    return str(v)[:80]


def _eval_bool(v, z, x0, y0, io='item.0', ii='item.1', zname='zero'):
    k = v[0]
    if k == 'bool':
        return bool(v[1])
    if k == 'un' and v[1] == 'Not':
        r = _eval_bool(v[2], z, x0, y0, io, ii, zname)
        return None if r is None else (not r)
    if k == 'sym':
        if v[1] == zname:
            return bool(z)
        return None
    if k == 'cmp' and v[1] in ('Eq', 'Ne'):
        a, b = v[2], v[3]
        if b[0] == 'sym' and a[0] == 'num':
            a, b = b, a
        if a[0] == 'sym' and b[0] == 'num' and b[1] == 0 and a[1] in (io, ii):
            val = x0 if a[1] == io else y0
            return bool(val) if v[1] == 'Eq' else (not bool(val))
    if k == 'bin' and v[1] in ('BitAnd', 'BitOr'):
        a, b = _eval_bool(v[2], z, x0, y0, io, ii, zname), _eval_bool(v[3], z, x0, y0, io, ii, zname)
        if a is None or b is None:
            return None
        return (a and b) if v[1] == 'BitAnd' else (a or b)
    return None


def import_into(ctx, rule, prefix='C14:'):
    """Run the C14 obligations and record them in ctx.rep under `rule` (for properties that depend on the lattice map)."""
    from ..harness import Report
    sub = type('Ctx', (), {})()
    sub.__dict__.update(ctx.__dict__)
    sub.rep = Report('C14', ctx.tier)
    run(sub)
    for o in sub.rep.obligations:
        if o['rule'] == 'R4' or o['instance'].startswith(('center-', 'corners-', 'anchor:area')):
            continue      # area / centre / corners do not influence images or placements
        if o['ok']:
            ctx.rep.ok(rule, prefix + o['instance'], o['construct'], o['why'])
        else:
            ctx.rep.fail(rule, prefix + o['instance'], o['construct'], o['why'], o['reason'])
    ctx.rep.analysed |= sub.rep.analysed


_EXCL = {}


def excludes_identity(ctx, value, want_all=False):
    """Does passing `value` as periodic_images' last argument exclude exactly the untranslated image?  True / False / None.
    Read off the truth table of the image filter (R3): the argument may be a bool or a two-variant enum."""
    f = ctx.facts
    key = id(f)
    if key not in _EXCL:
        from ..harness import Report
        sub = type('Ctx', (), {})()
        sub.__dict__.update(ctx.__dict__)
        sub.rep = Report('C14', ctx.tier)
        _images(sub)
        tt = sub.rep.extra.get('filter_truth_table')
        ok = all(o['ok'] for o in sub.rep.obligations if 'truth-table' in o['instance'])
        _EXCL[key] = (tt, ok)
    tt, ok = _EXCL[key]
    if not tt or not ok:
        return None
    z = None
    if isinstance(value, tuple) and value[0] == 'bool':
        z = 1 if value[1] else 0
    elif isinstance(value, tuple) and value[0] == 'struct' and value[2] is not None:
        z = value[2][1]
    if z is None:
        return None
    # rows keyed (z, i==0, j==0): excluded iff the (1,1) row is False for this z
    others = all(tt.get(str((z, a, c))) is True for a in (0, 1) for c in (0, 1) if (a, c) != (1, 1))
    if want_all:
        return others and tt.get(str((z, 1, 1))) is True
    return tt.get(str((z, 1, 1))) is False and others


def flag_value(t, op):
    """The symbolic value of a constant flag operand (bool or unit enum variant) by definition tracing, else None."""
    o = t.origin(op)
    if o['o'] == 'const':
        from ..mirutil import const_value
        v = const_value(o.get('c', {}))
        return ('bool', v) if isinstance(v, bool) else None
    if o['o'] == 'rvalue' and o['rv']['r'] == 'aggr' and o['rv'].get('agg') == 'adt' and not o['rv']['ops'] and not o['p']:
        rv = o['rv']
        return ('struct', rv['adt'].replace('packing::', ''), (rv['variant'], rv['vi']), ())
    return None


def run(ctx):
    _run_rules(ctx)
    from .common import import_obligations
    # a cloned cell is the same lattice (C09.R3, Cell2)
    import_obligations(ctx, 'C09', 'R5', only_rules={'R3'}, floor=1, only_instances=lambda k: 'Cell2' in k)
    # the cell outline drawn next to the structure is the image of the unit square under the same map (C11.R7 corners)
    import_obligations(ctx, 'C11', 'R6', only_rules={'R7'}, floor=1, only_instances=lambda k: 'corners' in k)
