"""C13 — the pair potential is the shifted, truncated 12-6 Lennard-Jones law."""
from ..anchors import is_trait_call
from ..harness import where
from ..lineage import adaptor_chain
from ..mirutil import Tracer, call_matches, field_path
from ..poly import subst
from ..sym import SYM, SymEx, sfield
from ..terms import Norm, NotNumeric

LEVEL = 'other'
EXPLANATION = ('LJ2::energy is loop-free: it is executed symbolically over all paths and each guarded result is '
               'normalised to an exact rational function over Q in the atoms (sigma, epsilon, cutoff, r^2). The '
               'normal forms are compared with the reference law 4 eps ((s/r)^12-(s/r)^6) - shift, the value at the '
               'cutoff is shown to be the zero polynomial, positions occur only inside r^2, and the swap self<->other '
               'is compared. Real-number identities; rounding is not decided.')


def r2_model(norm):
    """norm_squared(self.position - other.position) (either orientation) becomes the single atom r2."""
    def m(sx, st, name, declared, args, t):
        if not name.endswith('::norm_squared'):
            return None
        v = args[0]
        if v[0] == 'ref':
            v = sx.load(st, v)
        if v[0] != 'struct':
            return None
        x, y = sfield(v, 'x'), sfield(v, 'y')
        try:
            dx, dy = norm.rf(x), norm.rf(y)
        except NotNumeric:
            return None
        for a, b in (('self', 'other'), ('other', 'self')):
            rx = norm.atom('%s.position.x' % a) - norm.atom('%s.position.x' % b)
            ry = norm.atom('%s.position.y' % a) - norm.atom('%s.position.y' % b)
            if dx.equals(rx) and dy.equals(ry):
                return SYM('r2')
        return None
    return m


def evaluate(f, body, argnames):
    n = Norm()
    sx = SymEx(f, models=[r2_model(n)])
    outs = sx.run(body, [SYM(a) for a in argnames])
    res = []
    for o in outs:
        pcs = tuple(sorted(repr(n.cond(c)) for c in o.pc if c[0] != 'assume'))
        res.append((o, pcs))
    return n, sx, res


def run(ctx):
    rep, f = ctx.rep, ctx.facts
    rep.trust('pk/sym.py symbolic MIR interpreter and its model table (f64::powi, nalgebra Point-Point, norm_squared); '
              'pk/poly.py exact normal form')
    rep.assume('real-number semantics: identities hold over the reals, floating-point rounding is not decided')
    b = f.one(self_adt='shape::components::lj2::LJ2', trait='Potential', name='energy')
    if not rep.check(b is not None, 'R1', 'anchor:LJ2::energy', 'shape::components::lj2::LJ2', 'found',
                     '<LJ2 as Potential>::energy not found', 'anchor-lost'):
        return
    rep.saw(b)
    n, sx, res = evaluate(f, b, ['self', 'other'])
    if not rep.check(bool(res) and not sx.aborted, 'R1', 'leaf-is-loop-free', where(b), '%d paths' % len(res),
                     'LJ2::energy could not be executed symbolically (loops/unsupported shape): %s' % sx.aborted[:2],
                     'undecidable-shape'):
        return
    rep.floor('R1', 'paths through LJ2::energy', len(res), 3, where(b))
    eps, sig, r2 = n.atom('self.epsilon'), n.atom('self.sigma'), n.atom('r2')
    four = n.const(4)
    s2r2 = (sig * sig) / r2
    lj = four * eps * (s2r2.pow(6) - s2r2.pow(3))
    cut_atom = 'self.cutoff#Some.0'
    x = n.atom(cut_atom)
    sx_ = sig / x
    shift = four * eps * (sx_.pow(12) - sx_.pow(6))
    seen = {'uncut': 0, 'cut-inside': 0, 'cut-outside': 0}
    for o, pcs in res:
        try:
            val = n.rf(o.ret)
        except NotNumeric as e:
            rep.fail('R1', 'numeric-result', where(b), 'a path returns a non-numeric value: %s' % e, 'undecidable-shape')
            continue
        conds = [n.cond(c) for c in o.pc if c[0] != 'assume']
        sw = [c for c in conds if c[0] == 'switch' and 'self.cutoff' in c[1]]
        swn = [c for c in conds if c[0] == 'switch-not' and 'self.cutoff' in c[1]]
        cmpc = [c for c in conds if c[0] == 'cmp']
        is_none = any(c[2] == 0 for c in sw) or (swn and not sw)
        is_some = any(c[2] == 1 for c in sw) or (swn and not sw and False)
        if swn and not sw:
            # `otherwise` edge: the variant not listed
            listed = swn[0][2]
            is_none = 0 not in listed
            is_some = 1 not in listed
        if is_none and not cmpc:
            seen['uncut'] += 1
            rep.check(val.equals(lj), 'R1', 'uncut-branch-is-12-6', where(b),
                      'value == 4 eps ((s^2/r^2)^6 - (s^2/r^2)^3)',
                      'without a cutoff the energy is not 4*eps*((sigma/r)^12-(sigma/r)^6); got %s' % _short(val))
            rep.sample('cutoff=None: E = %s' % _short(val))
        elif is_some and len(cmpc) == 1:
            op, diff = cmpc[0][1], cmpc[0][2]
            inside_guard = (r2 - x * x)
            if op in ('Lt', 'Le') and diff.equals(inside_guard):
                seen['cut-inside'] += 1
                rep.check(val.equals(lj - shift), 'R2', 'cut-branch-is-shifted-12-6', where(b),
                          'value == LJ(r) - LJ(cutoff) under guard r^2 %s cutoff^2' % op,
                          'inside the cutoff the energy is not the 12-6 law shifted by its value at the cutoff; got %s'
                          % _short(val))
                at_cut = subst(val, 'r2', x * x)
                rep.check(at_cut.is_zero(), 'R2', 'zero-at-the-cutoff', where(b),
                          'substituting r^2 := cutoff^2 gives the zero polynomial',
                          'the energy does not vanish at r = cutoff (discontinuous truncation): %s' % _short(at_cut))
                rep.sample('cutoff=Some(x), r^2 < x^2: E = LJ(r) - LJ(x); at r=x: %s' % _short(at_cut))
            elif op in ('Ge', 'Gt') and diff.equals(inside_guard):
                seen['cut-outside'] += 1
                rep.check(val.is_zero(), 'R2', 'zero-beyond-the-cutoff', where(b), 'value == 0 when r^2 >= cutoff^2',
                          'beyond the cutoff the energy is not exactly zero: %s' % _short(val))
            elif op in ('Lt', 'Le') and diff.equals(-inside_guard):
                # guard written as cutoff^2 < r^2  (outside)
                seen['cut-outside'] += 1
                rep.check(val.is_zero(), 'R2', 'zero-beyond-the-cutoff', where(b), 'value == 0 when r^2 > cutoff^2',
                          'beyond the cutoff the energy is not exactly zero: %s' % _short(val))
            elif op in ('Ge', 'Gt') and diff.equals(-inside_guard):
                seen['cut-inside'] += 1
                rep.check(val.equals(lj - shift), 'R2', 'cut-branch-is-shifted-12-6', where(b), 'shifted law',
                          'inside the cutoff the energy is not the shifted 12-6 law; got %s' % _short(val))
            else:
                rep.fail('R2', 'cutoff-guard', where(b), 'the cutoff guard is not a comparison of r^2 with cutoff^2: %s %s'
                         % (op, _short(diff)))
        else:
            rep.fail('R2', 'path-shape', where(b), 'unrecognised path through LJ2::energy: conditions %s' % (conds,),
                     'undecidable-shape')
        # R3: distance only
        atoms = val.atoms()
        bad = [a for a in atoms if 'position' in a]
        rep.check(not bad, 'R3', 'distance-only:%s' % ('none' if is_none else 'some'), where(b),
                  'positions occur only inside r^2', 'the energy depends on the positions other than through the '
                  'distance: %s' % bad[:3])
    for k2, v in seen.items():
        rep.check(v >= 1, 'R2' if k2 != 'uncut' else 'R1', 'branch-present:%s' % k2, where(b), 'present',
                  'no path of LJ2::energy realises the %s case' % k2, 'anchor-lost')
    # R4 swap symmetry
    n2 = Norm()
    sx2 = SymEx(f, models=[r2_model(n2)])
    outs_ab = sx2.run(b, [SYM('self'), SYM('other')])
    outs_ba = sx2.run(b, [SYM('other'), SYM('self')])

    def table(outs):
        d = {}
        for o in outs:
            key = tuple(sorted(repr(n2.cond(c)) for c in o.pc if c[0] != 'assume'))
            try:
                d[key] = n2.rf(o.ret).canon()
            except NotNumeric:
                d[key] = 'non-numeric'
        return d
    tab, tba = table(outs_ab), table(outs_ba)
    sym_ok = tab == tba
    only_self = sorted({a for o, _ in res for a in _atoms_safe(n, o.ret) if a.startswith('self.')} |
                       {'self.cutoff'})
    uses_other = any(a.startswith('other.') for o, _ in res for a in _atoms_safe(n, o.ret))
    rep.check(sym_ok, 'R4', 'LJ2::energy/parameters-of-self-only' if not uses_other else 'LJ2::energy/swap-symmetry',
              where(b), 'E(a,b) and E(b,a) have the same guarded normal form',
              'E(a,b) != E(b,a): the value uses %s and no parameter of the other particle, so unlike particles '
              '(e.g. the trimer\'s sigma=2 centre and sigma=2*radius satellites) get two different pair energies'
              % only_self)
    # R5 molecule energy and R6 transforms
    _molecule(ctx)
    _ops(ctx)


def _atoms_safe(n, v):
    try:
        return n.rf(v).atoms()
    except NotNumeric:
        return set()


def _short(rf):
    s = rf.canon()
    return s if len(s) < 300 else s[:300] + '...'


def _molecule(ctx):
    rep, f = ctx.rep, ctx.facts
    b = f.one(self_adt='shape::lj_shape::LJShape2', trait='Potential', name='energy')
    if not rep.check(b is not None, 'R5', 'anchor:LJShape2::energy', 'shape::lj_shape::LJShape2', 'found',
                     '<LJShape2 as Potential>::energy not found', 'anchor-lost'):
        return
    rep.saw(b)
    ok, why = full_product_fold(f, b, 'Potential', 'energy', ('sum',))
    rep.check(ok, 'R5', 'molecule-energy-is-sum-over-full-product', where(b), why, why)
    rep.sample('LJShape2::energy: ' + why)
    # the second spelling of the same sum (`<LJShape2 as Shape>::score`, the molecule-pair score of the Shape interface): sibling
    # implementations of one quantity must both be the sum over self x other
    b2 = f.one(self_adt='shape::lj_shape::LJShape2', trait='Shape', name='score')
    if b2 is not None:
        rep.saw(b2)
        ok2, why2 = full_product_fold(f, b2, 'Potential', 'energy', ('sum', 'fold'))
        rep.check(ok2, 'R5', 'molecule-score-is-sum-over-full-product', where(b2), why2, why2)


def _items_source(f, t, op, depth):
    """(param local, field path) an iterator operand ranges over; follows std iter/into_iter/deref and workspace helper
    functions (Shape::iter, IntoIterator for &Shape) whose body simply iterates a field of their receiver."""
    path = []
    cur = op
    for _ in range(12):
        o = t.origin(cur)
        if o['o'] == 'arg':
            return (o['l'], field_path(o['p']) + path)
        if o['o'] != 'call' or not o['term']['args']:
            return 'a factor of the product does not come from a parameter'
        term = o['term']
        cb = f.body_of_fnconst(term['func'])
        if cb is not None:
            if depth >= 4:
                return 'helper nesting too deep'
            inner = _items_source(f, Tracer(cb), {'k': 'copy', 'l': 0, 'p': []}, depth + 1)
            if isinstance(inner, str):
                return inner
            if inner[0] != 1:
                return 'helper %s does not iterate its receiver' % cb.path
            path = inner[1] + path
            cur = term['args'][0]
            continue
        nm = (callee_name_(term) or '').rsplit('::', 1)[-1]
        if nm in ('iter', 'into_iter', 'deref'):
            cur = term['args'][0]
            continue
        return 'a factor of the product passes through %s' % nm
    return 'source chain too long'


def callee_name_(term):
    fn = term.get('func', {})
    return fn.get('resolved') or fn.get('fn')


def full_product_fold(f, b, trait, method, sinks):
    """Does the body reduce (any / sum) `s.<method>(o)` over the full product self.items x other.items?  Decided on the
    nest form (pk/nest.py), so for-loops, iproduct!, flat_map, .any/.fold/.sum and extracted helpers are one shape."""
    from ..nest import full_product_reduction
    kind = 'any' if 'any' in sinks else 'sum'
    return full_product_reduction(f, b, lambda t: is_trait_call(t, trait, method), kind, {(1, ('items',)), (2, ('items',))})


def _ops(ctx):
    rep, f = ctx.rep, ctx.facts
    # (selected by what they are — `impl Mul<..Transform2..> for ..LJ2..` and the reverse — not by the file they live in)
    bodies = [b for b in f.bodies.values() if b.fn_name == 'mul' and not b.is_closure and (b.impl_trait or '').endswith('ops::Mul') and
              'transform::Transform2' in b.path and 'lj2::LJ2' in b.path]
    rep.floor('R6', 'Mul impls between Transform2 and LJ2', len(bodies), 8)
    for b in bodies:
        rep.saw(b)
        n = Norm()
        sx = SymEx(f)
        tys = [b.local_ty(1), b.local_ty(2)]
        names = ['T' if 'Transform2' in ty else 'P' for ty in tys]
        outs = sx.run(b, [SYM(nm) for nm in names])
        ok = len(outs) == 1 and sorted(names) == ['P', 'T']
        why = ''
        if ok:
            r = sx.deep(outs[0].st, outs[0].ret)
            try:
                for fld in ('sigma', 'epsilon'):
                    ok &= n.rf(sfield(r, fld)).equals(n.atom('P.' + fld))
                ok &= sfield(r, 'cutoff') == SYM('P.cutoff')
                pos = sfield(r, 'position')
                px, py = n.atom('P.position.x'), n.atom('P.position.y')
                e = lambda i, j: n.atom('T.0[%d,%d]' % (i, j))
                ok &= n.rf(sfield(pos, 'x')).equals(e(0, 0) * px + e(0, 1) * py + e(0, 2))
                ok &= n.rf(sfield(pos, 'y')).equals(e(1, 0) * px + e(1, 1) * py + e(1, 2))
            except (NotNumeric, TypeError, AttributeError) as ex:
                ok = False
                why = str(ex)[:100]
        rep.check(ok, 'R6', 'transform-keeps-parameters:%s' % b.path, where(b),
                  'sigma, epsilon, cutoff copied field-to-field; position = T * position',
                  'transforming a particle changes its potential parameters or does not move it by T %s' % why)
