"""C07 — moves are accepted according to the Metropolis rule."""
import re
from ..absval import AbsEval, B, F, FINITE, show
from ..anchors import AnchorLost, OptimiserAnchors, is_trait_call
from ..harness import where
from ..mirutil import call_matches, field_path
from ..sym import SYM, SymEx, sfield
from ..terms import Norm, NotNumeric

LEVEL = 'other'
EXPLANATION = ('The decision function is loop-free: it is executed symbolically over all paths; the path conditions '
               'are evaluated in an IEEE-754 float-class abstract domain for every scenario (kT = +0 / kT > 0) x '
               '(new > old, new = old, new < old, no score), giving a must/may decision table; the acceptance '
               'probability expression is compared with min(exp((new-old)/kT),1) as an exact normal form; the '
               'draw, generator, score and temperature arguments are traced by dataflow in the stepping function.')

U_ENV = F('+0', 'ps')      # rand Standard f64: uniform on [0, 1)
KT_POS = F('ps', '1', 'pb')


def decision_params(f, body):
    """(role names, symbolic arguments) of a decision function: a parameter is a role by its name; a parameter of a plain struct
    type (`proposal: Proposal { new, old, kt }`) contributes its fields as roles and is passed as that struct of symbols."""
    from ..sym import STRUCT
    names, argv = [], []
    ren = getattr(body, 'role_rename', None) or {}      # actual name -> new / old / kt (anchors.OptimiserAnchors._discover_roles)
    for i in body.args():
        nm = body.local_name(i) or 'arg%d' % i
        ty = f.norm(body.local_ty(i))
        ref = ty.startswith('&')
        ty = ty.lstrip('&').replace('mut ', '').strip().split('<')[0]
        a = f.adts.get(ty)
        flds = [fl['name'] for fl in (a.get('fields') or [])] if a and len(a.get('variants') or []) == 1 else []
        if flds and not body.local_ty(i).startswith(('&mut', '*')) and ty.rsplit('::', 1)[-1] != 'MCOptimiser' and \
                (not ref or a.get('crate_kind') == 'lib'):
            names.extend(ren.get(x, x) for x in flds)
            argv.append(STRUCT(ty, (a['variants'][0], 0), [(fn_, SYM(ren.get(fn_, fn_))) for fn_ in flds]))
        else:
            names.append(ren.get(nm, nm))
            argv.append(SYM(ren.get(nm, nm)))
    return names, argv


def decision_paths(f, body):
    sx = SymEx(f)
    names, argv = decision_params(f, body)
    from ..sym import resolve_option_returns
    outs = resolve_option_returns(sx, sx.run(body, argv))
    return sx, names, outs


def classify_path(o, env, rel, new_is_some, new_name='new'):
    """'must' | 'may' | 'no' feasibility of a path under an abstract scenario."""
    status = 'must'
    for c in o.pc:
        if c[0] == 'assume':
            continue
        if c[0] in ('switch', 'switch-not'):
            d = c[1]
            if d[0] == 'app' and d[1] == 'discr' and d[2][0] == ('sym', new_name):
                dv = 1 if new_is_some else 0
                holds = (dv == c[2]) if c[0] == 'switch' else (dv not in c[2])
                if not holds:
                    return 'no'
                continue
            status = 'may'
            continue
        if c[0] == 'cond':
            ae = AbsEval(env, rel=rel)
            v = ae.ev(c[1])
            vals = v[1] if v[0] == 'b' else frozenset((True, False))
            if c[2] not in vals:
                return 'no'
            if len(vals) > 1:
                status = 'may'
    return status


OUTCOME = [None]        # the result type of the decision (anchors.OptimiserAnchors.outcome), set by the rules that use this module


def ret_kind(sx, o):
    """'Some' (accepted, carries the score) / 'None' (rejected) of a path's result, whatever two-variant type says it."""
    r = o.ret
    if r[0] == 'struct' and r[2] is not None:
        oc = OUTCOME[0]
        if oc is not None and r[1].split('<')[0] == oc['name'] and oc['name'] != 'std::option::Option':
            return 'Some' if oc['sem'].get(r[2][1]) == 1 else 'None'
        return r[2][0]
    return None


def decision_table(f, body, kt_classes, new_name='new', old_name='old', kt_name='kt'):
    sx, names, outs = decision_paths(f, body)
    table = {}
    for scen, rel, some in (('better', 'gt', True), ('equal', 'eq', True), ('worse', 'lt', True), ('invalid', None, False)):
        env = {old_name: ('f', FINITE), new_name + '#Some.0': ('f', FINITE), kt_name: kt_classes,
               'app:Rng::gen': U_ENV}
        relation = (new_name + '#Some.0', old_name, rel) if rel else None
        acc = rej = 0
        for o in outs:
            st = classify_path(o, env, relation, some, new_name)
            if st == 'no':
                continue
            k = ret_kind(sx, o)
            if k == 'Some':
                acc += 1
            elif k == 'None':
                rej += 1
            else:
                acc += 1
                rej += 1
        table[scen] = 'must-accept' if acc and not rej else 'must-reject' if rej and not acc else 'may' if acc and rej else 'dead'
    return table, sx, names, outs


def _run_rules(ctx):
    rep, f = ctx.rep, ctx.facts
    rep.trust('pk/sym.py, pk/absval.py IEEE class arithmetic; rand: Rng::gen::<f64>() is Standard-uniform on [0,1)')
    rep.assume('scores of valid states are finite')
    try:
        oa = OptimiserAnchors(f)
    except AnchorLost as e:
        rep.fail('R0', 'anchor:stepping-function', '', str(e), 'anchor-lost')
        return
    b = oa.body
    db = oa.decision_body
    rep.saw(b)
    if not rep.check(db is not None, 'R1', 'anchor:decision-function', where(b, oa.decision_bb), 'workspace function',
                     'the decision is not a workspace function whose body can be analysed', 'anchor-lost'):
        return
    rep.saw(db)
    OUTCOME[0] = oa.outcome
    params, _argv = decision_params(f, db)
    need = {'new', 'old', 'kt'}
    if not rep.check(need <= set(params), 'R1', 'decision-roles', where(db), 'parameters %s' % params,
                     'cannot identify the new/old/kt roles of the decision function\'s parameters: %s' % params,
                     'undecidable-shape'):
        return
    # ---- R1 decision table ------------------------------------------------------------
    want = {
        'kT_zero': (F('+0'), {'better': 'must-accept', 'equal': 'must-accept', 'worse': 'must-reject', 'invalid': 'must-reject'}),
        'kT_positive': (KT_POS, {'better': 'must-accept', 'equal': 'must-accept', 'worse': 'may', 'invalid': 'must-reject'}),
    }
    outs = None
    for label, (ktc, expect) in want.items():
        table, sx, names, outs = decision_table(f, db, ktc)
        if sx.aborted:
            rep.fail('R1', 'decision-loop-free', where(db), 'the decision function is not loop-free: %s' % sx.aborted[:2],
                     'undecidable-shape')
            return
        for scen, w in expect.items():
            got = table[scen]
            rep.check(got == w, 'R1', 'decision:%s:%s' % (label, scen), where(db), '%s -> %s' % (scen, got),
                      'at %s a proposal with %s is %s, the Metropolis rule requires %s' % (label, scen, got, w))
        rep.sample('decision table %s: %s' % (label, table))
    rep.floor('R1', 'paths through the decision function', len(outs), 4, where(db))
    rep.extra['inlined'] = sorted(sx.inlined)
    # ---- R2 payload identity -------------------------------------------------------------
    n_some = 0
    for o in outs:
        if ret_kind(sx, o) == 'Some':
            n_some += 1
            v = sfield(sx.deep(o.st, o.ret), '0')
            rep.check(v == SYM('new#Some.0'), 'R2', 'accepted-payload-is-the-proposal-score', where(db),
                      'Some(new_score)', 'an accepting path returns %r instead of the proposal\'s own score' % (v,))
    rep.floor('R2', 'accepting paths', n_some, 2, where(db))
    # ---- R3 probability formula ----------------------------------------------------------
    n = Norm()
    new, old, kt = n.atom('new#Some.0'), n.atom('old'), n.atom('kt')
    p_ref = n.fn('min', n.fn('exp', (new - old) / kt), n.const(1), commutative=True)
    found = 0
    for o in outs:
        if ret_kind(sx, o) != 'Some':
            continue
        conds = [c for c in o.pc if c[0] == 'cond']
        prob = [c for c in conds if 'Rng::gen' in repr(c[1])]
        if not prob:
            continue
        found += 1
        for c in prob:
            cc = n.cmp_canon(c[1], c[2])
            ok = False
            why = 'the acceptance test is not a comparison of the uniform draw with the acceptance probability'
            if cc[0] == 'cmp' and cc[1] in ('Lt', 'Le'):
                draws = [a for a in cc[2].atoms() if a.startswith('Rng::gen(')]
                if len(draws) == 1:
                    U = n.atom(draws[0])
                    ok = cc[2].equals(U - p_ref)
                    if not ok:
                        if cc[2].equals(p_ref - U):
                            why = 'the comparison is reversed: accepts when U > p, i.e. with probability 1 - p'
                        else:
                            why = 'acceptance is U < p with p = %s, expected min(exp((new-old)/kT), 1)' % \
                                  (U - cc[2]).canon()[:200]
            rep.check(ok, 'R3', 'acceptance-probability-formula', where(db),
                      'accept <=> U < min(exp((new-old)/kT), 1)', why)
            rep.sample('worse-or-equal path: accept iff %s %s 0' % (cc[2].canon()[:160] if cc[0] == 'cmp' else cc, cc[1]))
    rep.floor('R3', 'probabilistic accepting paths', found, 1, where(db))
    # ---- R4 one draw per step from the seeded stream ---------------------------------------
    from ..cfg import CFG
    gens = [(bi, t) for bi, t in db.calls() if call_matches(t, 'Rng::gen')]
    dcfg = CFG(db)
    rep.check(len(gens) == 1 and dcfg.loop_depth(gens[0][0]) == 0, 'R4', 'one-draw-per-decision', where(db),
              'exactly one Rng::gen call, not in a loop', 'the decision draws %d uniform numbers' % len(gens))
    from ..mirutil import Tracer
    dtr = Tracer(db)
    rng_params = [i for i in db.args() if db.local_ty(i).startswith('&mut ') and i not in (1,)]
    for gbi, gt in gens:
        go = dtr.origin(gt['args'][0])
        rep.check(go['o'] == 'arg' and go['l'] in rng_params and not field_path(go['p']), 'R4',
                  'draw-from-the-generator-argument', where(db, gbi), 'Rng::gen(rng parameter)',
                  'the uniform draw does not come from the generator passed to the decision (it comes from %s)'
                  % (go['o'] if go['o'] != 'call' else (go['term']['func'].get('fn'))))
    cfg, tr = oa.cfg, oa.tr
    ndec = [bi for bi, t in b.calls() if (t['func'].get('resolved') or t['func'].get('fn')) ==
            (oa.decision['func'].get('resolved') or oa.decision['func'].get('fn'))]
    rep.check(len(ndec) == 1, 'R4', 'one-decision-per-iteration', where(b, oa.decision_bb), 'one call',
              'the decision function is called %d times in the stepping function' % len(ndec))
    for lt in oa.inner['latches']:
        rep.check(cfg.dominates(oa.decision_bb, lt), 'R4', 'decision-on-every-iteration', where(b, oa.decision_bb),
                  'dominates the latch', 'an iteration can skip the decision')
    ss_bb = oa.set_sampled_calls[0][0]
    sc_bb = oa.proposal_score_bb
    rep.check(cfg.dominates(ss_bb, sc_bb) and cfg.dominates(sc_bb, oa.decision_bb) and sc_bb in oa.inner['body'], 'R4',
              'score-evaluated-after-proposal', where(b, sc_bb), 'set_sampled (bb%d) -> score (bb%d) -> decision (bb%d)'
              % (ss_bb, sc_bb, oa.decision_bb),
              'the score handed to the decision is not evaluated between the proposal and the decision')
    # generator provenance
    seeds = [(bi, t) for bi, t in b.calls() if call_matches(t, 'SeedableRng::seed_from_u64')]
    if rep.check(len(seeds) == 1, 'R4', 'single-seeded-generator', where(b), 'one seed_from_u64',
                 'expected exactly one seed_from_u64 in the stepping function, found %d' % len(seeds)):
        sbi, st = seeds[0]
        so = tr.origin(st['args'][0])
        rep.check(so['o'] == 'arg' and so['l'] == 1 and field_path(so['p']) == ['seed'], 'R4', 'generator-seeded-from-self.seed',
                  where(b, sbi), 'seed_from_u64(self.seed)', 'the generator is not seeded from the optimiser\'s seed field')
        gen_local = st['dest']['l']
        n_rng = 0
        for bi, t in b.calls():
            if bi not in oa.inner['body']:
                continue
            gty = '&mut ' + b.local_ty(gen_local)
            for ai, a in enumerate(t['args']):
                aty = a.get('ty', '')
                if not aty.startswith('&mut ') or 'l' not in a:
                    continue
                o = tr.origin(a)
                # a generator is recognised by its type, or (inside an inlined generic helper, where its type is the helper's
                # type parameter) by where it comes from
                from_ctor = o['o'] == 'call' and call_matches(o['term'], 'SeedableRng::seed_from_u64', 'SeedableRng::from_entropy',
                                                              'SeedableRng::from_seed', 'SeedableRng::from_rng', 'rand::thread_rng',
                                                              'rngs::thread::thread_rng')
                if aty == gty or from_ctor:
                    n_rng += 1
                    rep.check(o.get('l') == gen_local, 'R4', 'rng-argument-is-the-seeded-generator:%s'
                              % ((t['func'].get('fn') or '?').rsplit('::', 1)[-1]), where(b, bi),
                              'generator local _%d' % gen_local, 'a call in the proposal loop uses a different generator')
        rep.floor('R4', 'generator arguments in the proposal loop', n_rng, 3, where(b))
    _zero_temperature_reaches_decision_as_zero(ctx, oa)
    # R6: "worse by d" is measured against the CURRENT score: the bookkeeping obligations of C06.R5 (what the decision's `old`
    # argument can hold) are part of the Metropolis rule as applied by the optimiser
    from ..harness import Report
    from .C06 import run as run_c06
    sub = type('Ctx', (), {})()
    sub.__dict__.update(ctx.__dict__)
    sub.rep = Report('C06', ctx.tier)
    run_c06(sub)
    n_imp = 0
    for o in sub.rep.obligations:
        if o['rule'] not in ('R5', 'R2', 'R3'):
            # (R2/R3: "not accepted" means the state goes back to what it was: a rejected proposal that is not undone, or is
            # undone to something other than the pre-move value, stays in the state although the rule turned it down)
            continue
        n_imp += 1
        if o['ok']:
            rep.ok('R6', 'C06:' + o['rule'] + '/' + o['instance'], o['construct'], o['why'])
        else:
            rep.fail('R6', 'C06:' + o['rule'] + '/' + o['instance'], o['construct'], o['why'], o['reason'])
    rep.floor('R6', 'imported undo / score-bookkeeping obligations (C06.R2, R3, R5)', n_imp, 20)
    rep.analysed |= sub.rep.analysed
    # argument roles
    old_l = oa.arg_local(oa.dec_args['old'])
    kt_l = oa.arg_local(oa.dec_args['kt'], scope='outer')
    rep.check(old_l is not None and kt_l is not None and old_l != kt_l, 'R4', 'old-and-kt-are-locals', where(b, oa.decision_bb),
              'old=_%s kt=_%s' % (old_l, kt_l), 'cannot resolve the old/kt arguments of the decision', 'undecidable-shape')
    if kt_l is not None:
        inits = [d for d in oa.defs.of(kt_l) if d[0] not in (oa.outer or oa.inner)['body']]
        ok = False
        for d in inits:
            if d[2] == 'assign' and d[3]['r'] == 'use':
                fld = oa.self_field(d[3]['a'])
                ok = ok or fld == 'kt_start'
        rep.check(ok, 'R4', 'temperature-argument-is-the-schedule-variable', where(b, oa.decision_bb),
                  'kt local initialised from self.kt_start', 'the temperature passed to the decision is not the schedule '
                  'variable initialised from kt_start')


def _zero_temperature_reaches_decision_as_zero(ctx, oa):
    """R5: with kt_start = 0 the temperature argument of the decision is +0 on every step (else "never at kT = 0" is void)."""
    from ..optmodel import build_families
    from .C05 import zero_stays_zero
    rep, f = ctx.rep, ctx.facts
    fams, err, bb = build_families(f)
    if not rep.check(fams is not None, 'R5', 'anchor:builder', where(bb) if bb else 'optimisation', 'evaluated', err or '',
                     'anchor-lost' if bb is None else 'undecidable-shape'):
        return
    kt_l = oa.arg_local(oa.dec_args['kt'], scope='outer')
    zero_stays_zero(ctx, oa, fams, bb, kt_l, 'R5', 'R5', key_prefix='kT-argument-at-kt_start=0:')


def run(ctx):
    _run_rules(ctx)
    # R7: the temperature asked for through the builder is the one the rule is applied at (setter fidelity)
    from .common import builder_setters
    builder_setters(ctx, 'R7', ['kt_start', 'kt_finish', 'kt_ratio'])
