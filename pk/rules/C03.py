"""C03 — the Lennard-Jones score is minus the crystal's lattice energy per molecule (clauses)."""
from ..anchors import is_trait_call
from ..cfg import CFG
from ..harness import where
from ..loops import lift
from ..mirutil import Tracer, call_matches, callee_name, const_value, field_path
from ..pairloops import positions_frames
from ..sym import NUM, SYM
from ..terms import Norm, NotNumeric
from fractions import Fraction

LEVEL = 'other'
EXPLANATION = ('CLAUSES. (R1) the returned payload is -sum/(number of molecules) and sum is only ever updated as '
               'sum + w*energy(p,q) starting from 0. (R2) pair weights: the in-cell nest visits each unordered pair once '
               '(enumerate + skip(index+1)), the periodic nest visits the full ORDERED product x all images without the identity, '
               'i.e. each unordered image pair twice: the lattice energy per cell E = sum_{i<j} e + 1/2 sum_{i,j,n!=0} e requires '
               'w(periodic) = w(in-cell)/2. (R3) all operands are Cartesian; the molecule energy is the sum over the full component '
               'product (C13.R5). Convergence of the truncated sum / sufficiency of the image range is NOT decided.')

ADT = 'state::potential::PotentialState'


# Crystals of the default trimer (LJShape2::from_trimer(r, 120, 1): outer particles at (+-0.866, 1/6), every particle cut at 3.5)
# in which a pair of particles closer than the cutoff lies in the stated image shell (plain geometry, recomputed in
# DESIGN section 11.2): whatever number of shells the score searches for these cells must be at least that.
RANGE_WITNESSES = [
    {'name': 'p1-trimer-square-1.2', 'a': 1.2, 'b': 1.2, 'angle': 1.5707963267948966, 'min_shells': 4,
     'why': 'the outer particles of a molecule and of its image four cells along a are 4*1.2 - 1.732 = 3.068 < 3.5 apart'},
    {'name': 'p1-trimer-square-1.7', 'a': 1.7, 'b': 1.7, 'angle': 1.5707963267948966, 'min_shells': 3,
     'why': 'the outer particles of a molecule and of its image three cells along a are 3*1.7 - 1.732 = 3.368 < 3.5 apart'},
    {'name': 'p2-trimer-square-4', 'a': 4.0, 'b': 4.0, 'angle': 1.5707963267948966, 'min_shells': 2,
     'why': 'with the p2 site at x = 0.45 the second molecule\'s image two cells along a has a particle 2.689 < 3.5 from a '
            'particle of the first'},
]


def _run_rules(ctx):
    rep, f = ctx.rep, ctx.facts
    rep.assume('NOT DECIDED: that the 3 searched shells cover the cutoff / the truncated sum has converged (depends on cell '
               'parameters); representation independence follows from R1-R3 only up to that')
    b = f.one(self_adt=ADT, trait='State', name='score')
    if not rep.check(b is not None, 'R1', 'anchor:PotentialState::score', ADT, 'found', 'LJ State::score not found', 'anchor-lost'):
        return
    rep.saw(b)
    from ..pairs import PairNests
    pl = PairNests(f, b, 'Potential', 'energy')
    b = pl.b            # the nest form of the score function
    cfg, tr = pl.cfg, pl.tr
    # ---- R1 sign and normalisation ---------------------------------------------------------
    somes = []
    for bi in sorted(cfg.reach):
        for si, s in enumerate(b.blocks[bi]['stmts']):
            if s['s'] == 'assign' and s['place']['l'] == 0 and s['rv']['r'] == 'aggr' and s['rv'].get('variant') == 'Some':
                somes.append((bi, si, s['rv']['ops'][0]))
    rep.floor('R1', 'Some(score) assignments', len(somes), 1, where(b))
    sum_local = None

    def leaf(o):
        if o['o'] == 'call' and is_trait_call(o['term'], 'State', 'total_shapes'):
            return SYM('N')
        if o['o'] == 'local' and not o['p'] and b.local_ty(o['l']) == 'f64':
            return SYM('local:%d' % o['l'])
        return None
    n = Norm()
    for bi, si, op in somes:
        e = lift(tr, op, leaf)
        ok = False
        why = 'cannot lift the returned expression'
        if e is not None:
            try:
                got = n.rf(e)
                locs = [a for a in got.atoms() if a.startswith('local:')]
                if len(locs) == 1:
                    sum_local = int(locs[0].split(':')[1])
                    ref = -n.atom(locs[0]) / n.atom('N')
                    ok = got.equals(ref)
                    why = 'score = %s' % got.canon()
            except NotNumeric as ex:
                why = str(ex)[:100]
        rep.check(ok, 'R1', 'score-is-minus-sum-per-molecule', where(b, bi, si), 'Some(-sum / total_shapes)',
                  'the LJ score is not -(energy sum)/(number of molecules): %s' % why)
    if sum_local is None:
        return
    # sum: 0 then sum + w*e only.  The running total may be handed through copies (a helper's parameter and result, a
    # fold's accumulator): take the web of locals connected to it by plain copies and classify every other definition.
    from ..mirutil import copy_web
    web = copy_web(b, tr, cfg.reach, sum_local)
    acc = []
    okd = True
    n_init = 0
    for wl in sorted(web):
        for (dbi, si, kind, rv) in tr.defs.of(wl):
            if dbi not in cfg.reach:
                continue
            if kind != 'assign':
                okd = False
                continue
            if rv['r'] == 'use':
                o = tr.origin(rv['a'])
                if o['o'] == 'const' and const_value(o['c']) == 0.0:
                    n_init += 1
                    continue
                if o['o'] == 'local' and not o['p'] and o['l'] in web:
                    continue
                if o['o'] == 'rvalue' and not o['p']:
                    rv = o['rv']
                    dbi, si = o.get('bb', dbi), o.get('si', si)
                else:
                    okd = False
                    continue
            if rv['r'] == 'binop' and rv['op'] == 'Add':
                ops = [rv['a'], rv['b']]
                selfs = []
                for x in ops:
                    ox = tr.origin(x)
                    if ox['o'] == 'local' and not ox['p'] and ox['l'] in web:
                        selfs.append(x)
                if len(selfs) == 1:
                    other = ops[1 - ops.index(selfs[0])]
                    if (dbi, si) not in [(a[0], a[1]) for a in acc]:
                        acc.append((dbi, si, other))
                    continue
            okd = False
    okd = okd and n_init >= 1
    rep.check(okd, 'R1', 'sum-starts-at-zero-and-only-accumulates', where(b), 'sum := 0; sum := sum + term',
              'the energy accumulator is assigned something other than 0 / sum + term')
    rep.floor('R1', 'energy accumulation sites', len(acc), 2, where(b))
    # ---- R2 pair weights -----------------------------------------------------------------------
    for p in pl.problems:
        rep.fail('R2', 'loop-structure', where(b), p, 'undecidable-shape')
    weights = {}
    for (dbi, si, term) in acc:
        def leaf2(o):
            if o['o'] == 'call' and is_trait_call(o['term'], 'Potential', 'energy'):
                return SYM('e@%d' % o['bb'])
            return None
        e = lift(tr, term, leaf2)
        try:
            g = n.rf(e) if e is not None else None
        except NotNumeric:
            g = None
        if g is None:
            rep.fail('R2', 'accumulated-term-shape', where(b, dbi, si), 'accumulated term is not w*energy(p,q)', 'undecidable-shape')
            continue
        es = [a for a in g.atoms() if a.startswith('e@')]
        if len(es) != 1:
            rep.fail('R2', 'accumulated-term-shape', where(b, dbi, si), 'accumulated term does not contain exactly one energy()', 'undecidable-shape')
            continue
        w = g / n.atom(es[0])
        if not w.is_const_like():
            rep.fail('R2', 'accumulated-term-shape', where(b, dbi, si), 'weight is not a constant', 'undecidable-shape')
            continue
        from ..poly import reduce_rf
        wr = reduce_rf(w)
        wv = wr.n.const_value() / wr.d.const_value()
        ebb = int(es[0].split('@')[1])
        kind = 'triangular' if pl.tri and pl.tri['bb'] == ebb else 'periodic' if pl.per and pl.per['bb'] == ebb else None
        weights[kind] = (wv, dbi, si)
    tri, per = pl.tri, pl.per
    okt = tri is not None and not tri['why'] and tri['c'] == 1
    rep.check(okt, 'R2', 'in-cell-pairs-once', where(b, tri['bb']) if tri else where(b),
              'in-cell: each unordered pair {i<j} exactly once', 'the in-cell energy loop is not enumerate x skip(index+1): %s c=%s'
              % ((tri or {}).get('why'), (tri or {}).get('c')))
    from .C14 import excludes_identity
    zs = [excludes_identity(ctx, z) for z in (per or {}).get('zero_values', [])]
    okp = per is not None and not per['why'] and bool(zs) and all(z is True for z in zs)
    rep.check(okp, 'R2', 'periodic-pairs-full-ordered-product', where(b, per['bb']) if per else where(b),
              'periodic: all ordered (i,j) x all images n != 0', 'the periodic energy loop is not the full ordered product without the '
              'identity image: %s untranslated image excluded=%s' % ((per or {}).get('why'), zs))
    if 'triangular' in weights and 'periodic' in weights and okt and okp:
        wt, wp = weights['triangular'][0], weights['periodic'][0]
        rep.check(wp * 2 == wt and wt != 0, 'R2', 'PotentialState::score/periodic-accumulation', where(b, weights['periodic'][1], weights['periodic'][2]),
                  'w(in-cell) = %s, w(periodic) = %s = w(in-cell)/2' % (wt, wp),
                  'in-cell pairs (each unordered pair once) carry weight %s and periodic pairs (each unordered image pair TWICE, as '
                  '(i,j,n) and (j,i,-n)) carry weight %s: image pairs count double, so the score of one and the same crystal '
                  'changes when a molecule is moved across a cell face' % (wt, wp))
        rep.sample('weights: in-cell %s (unordered pairs once), periodic %s (ordered product over images)' % (wt, wp))
    else:
        rep.fail('R2', 'weights-identified', where(b), 'could not attribute the accumulation sites to the two loop nests: %s' % list(weights),
                 'undecidable-shape')
    if per and per.get('shell_values'):
        rep.sample('periodic image range: shells = %s (sufficiency for the cutoff is not decided)' % [str(v[1]) for v in per['shell_values']])
    # ---- R6 crystals whose geometry REQUIRES a number of image shells (necessary instances of the undecided sufficiency) -----
    if per is not None:
        from .C01 import _shell_witnesses
        _shell_witnesses(ctx, pl, per, per.get('shell_cases'), witnesses=RANGE_WITNESSES, rule='R6',
                         consequence='pairs within the cutoff are left out of the lattice sum')
    # ---- R3 frames ---------------------------------------------------------------------------------
    probs = positions_frames(f, ADT)
    rep.check(not probs, 'R3', 'placements-are-cartesian', ADT, 'both operands of every energy() are Cartesian placements of the shape',
              'coordinate frames are mixed: %s' % probs)
    # the periodic images really are the lattice translates of the placements (C14 obligations, necessary here)
    from .C14 import import_into
    import_into(ctx, 'LATTICE')
    from .C12 import shape_transform_obligations
    from .C12 import ALL_SHAPES
    shape_transform_obligations(ctx, 'SHAPE', ALL_SHAPES[2:])
    # what is summed: the pair law and the sum over particle pairs (C13 R1-R3, R5; R4, the known asymmetry finding, stays C13's)
    from .common import import_obligations
    import_obligations(ctx, 'C13', 'PAIR', only_rules={'R1', 'R2', 'R3', 'R5'}, floor=10)
    ts = f.one(self_adt=ADT, trait='State', name='total_shapes')
    if rep.check(ts is not None, 'R1', 'anchor:total_shapes', ADT, 'found', 'total_shapes not found', 'anchor-lost'):
        ok, why = total_shapes_is_sum_of_multiplicities(f, ts)
        rep.check(ok, 'R1', 'molecule-count-is-sum-of-multiplicities', where(ts), why, why)
    from .C13 import _molecule
    _molecule(ctx)       # molecule energy = sum over the full component product (C13.R5), necessary here
    rep.note('pair-energy asymmetry for unlike particles is the known finding C13/R4')


def total_shapes_is_sum_of_multiplicities(f, ts):
    """total_shapes = sum over ALL occupied sites of multiplicity()  (nest form: fold / map+sum / for are one shape)."""
    from ..nest import single_loop_sum
    ok, why, info = single_loop_sum(f, ts, opaque=('OccupiedSite::multiplicity',))
    if not ok:
        return False, 'total_shapes is not the sum of the sites\' multiplicities: ' + why
    if info['source'] != (1, ['occupied_sites']):
        return False, 'total_shapes does not range over self.occupied_sites: %s' % (info['source'],)
    nm = info['norm']
    from ..sym import APP, SYM
    want = nm.rf(APP('OccupiedSite::multiplicity', SYM(info['item'])))
    for pc, inc in info['terms']:
        if [c for c in pc if c[0] != 'assume'] or not inc.equals(want):
            return False, 'the per-site term is %s (conditions %s), not site.multiplicity()' % (inc.canon()[:100], [c for c in pc if c[0] != 'assume'][:2])
    return True, 'total_shapes = sum over sites of multiplicity()'


def run(ctx):
    _run_rules(ctx)
    from .common import import_obligations
    # moving a particle keeps its parameters (C13.R6)
    import_obligations(ctx, 'C13', 'PAIR', only_rules={'R6'}, floor=4)
    # the molecules summed over are the group's copies of the site, wrapped into the cell (C15 R2, R3)
    import_obligations(ctx, 'C15', 'PLACEMENTS', only_rules={'R2', 'R3'}, floor=4)

