"""C05 — zero-temperature optimisation never lowers the score."""
from ..absval import F, IVL, show
from ..anchors import AnchorLost, OptimiserAnchors
from ..harness import where
from ..optmodel import LocalFix, U64, build_families, feasible, field_values
from .C07 import decision_table

LEVEL = 'other'
EXPLANATION = ('Abstract interpretation over IEEE-754 float classes. (R1) the builder is executed symbolically; for '
               'every configuration family (kt_ratio/kt_finish present or not) the cooling factor stored in the '
               'optimiser is evaluated abstractly with kt_start = +0 and every admissible kt_finish/kt_ratio/steps: it '
               'must be finite and non-negative. (R2) the schedule variable\'s abstract value in the stepping function '
               '(least fixpoint over all its definitions, any number of loops) must stay {+0}. (R3) at kT = +0 the '
               'decision function must-rejects worse and invalid proposals on every path.')

NONNEG_FINITE = frozenset(('+0', 'ps', '1', 'pb'))


def builder_env(kt_start):
    return {
        'self.kt_start': kt_start,
        # "whatever the other settings are": every finite value the CLI accepts, of either sign
        'self.kt_finish#Some.0': F('nb', '-1', 'ns', '-0', '+0', 'ps', '1', 'pb'),
        'self.kt_ratio#Some.0': F('nb', '-1', 'ns', '-0', '+0', 'ps', '1', 'pb'),
        'self.steps': U64, 'self.inner_steps': U64,
        'self.max_step_size': F('+0', 'ps', '1', 'pb'),
        'self.seed#Some.0': U64,
    }


def fam_label(fam):
    return ','.join('%s=%s' % (k, fam[k]) for k in sorted(fam) if k in ('kt_ratio', 'kt_finish'))


def zero_stays_zero(ctx, oa, fams, bb, kt_l, r1, r2, key_prefix=''):
    """For every builder path feasible at kt_start = +0: stored factor finite and non-negative (r1), and the schedule
    variable's fixpoint in the stepping function stays {+0} (r2)."""
    rep = ctx.rep
    env = builder_env(F('+0'))
    done = {}
    n_feasible = 0
    for fam in fams:
        lab = fam_label(fam['family'])
        if not feasible(fam, env):
            continue        # e.g. the arm guarded by kt_start > 0
        fv = field_values(fam['fields'], env)
        r = fv.get('kt_ratio')
        sig = (lab, repr(r))
        if sig in done:
            continue
        done[sig] = True
        n_feasible += 1
        ok = r is not None and r[0] == 'f' and r[1] <= NONNEG_FINITE
        rep.check(ok, r1, key_prefix + lab, where(bb),
                  'cooling factor in %s for kt_start=+0' % show(r),
                  'with kt_start = 0 and %s the cooling factor computed by the builder is %s (not finite/non-negative): '
                  '0 * inf = NaN makes kT NaN after the first inner loop (min(exp(x/NaN),1) = 1), 0 * negative = -0.0 makes '
                  '(new-old)/kT = +inf for a worse move (min(exp(inf),1) = 1): every valid move is then accepted' % (lab, show(r)))
        lf = LocalFix(oa.body, fv)
        kv = lf.env.get(kt_l)
        ok2 = kv is not None and kv[0] == 'f' and kv[1] <= frozenset(('+0',))
        rep.check(ok2, r2, key_prefix + 'kt-stays-zero:' + lab, where(oa.body, oa.decision_bb),
                  'kT in %s over all loop iterations' % show(kv),
                  'starting from kT = +0 the temperature can become %s in the stepping function (%s)' % (show(kv), lab))
        rep.sample('%s: kt_ratio field in %s; kT fixpoint %s' % (lab, show(r), show(kv)))
    rep.floor(r1, 'feasible builder paths at kt_start=+0', n_feasible, 3, where(bb))


def _run_rules(ctx):
    rep, f = ctx.rep, ctx.facts
    rep.trust('pk/sym.py, pk/absval.py (IEEE class arithmetic incl. 0*inf=NaN, x/0=inf, min(NaN,1)=1), pk/optmodel.py')
    rep.assume('settings: kt_finish, kt_ratio any finite f64 (what the CLI accepts); scores of valid states finite')
    try:
        oa = OptimiserAnchors(f)
    except AnchorLost as e:
        rep.fail('R0', 'anchor:stepping-function', '', str(e), 'anchor-lost')
        return
    fams, err, bb = build_families(f)
    if not rep.check(fams is not None, 'R1', 'anchor:builder', where(bb) if bb else 'optimisation', 'evaluated', err or '',
                     'anchor-lost' if bb is None else 'undecidable-shape'):
        return
    rep.saw(bb)
    rep.saw(oa.body)
    labels = sorted({fam_label(x['family']) for x in fams})
    rep.floor('R1', 'configuration families of the builder', len(labels), 3, where(bb))
    env = builder_env(F('+0'))
    kt_l = oa.arg_local(oa.dec_args.get('kt'), scope='outer') if oa.dec_args.get('kt') else None
    if not rep.check(kt_l is not None, 'R2', 'anchor:schedule-variable', where(oa.body, oa.decision_bb), '_%s' % kt_l,
                     'cannot identify the temperature local passed to the decision', 'anchor-lost'):
        return
    zero_stays_zero(ctx, oa, fams, bb, kt_l, 'R1', 'R2')
    # R3 decision at zero temperature
    db = oa.decision_body
    if rep.check(db is not None, 'R3', 'anchor:decision-function', where(oa.body, oa.decision_bb), 'found',
                 'decision function body not available', 'anchor-lost'):
        rep.saw(db)
        from . import C07 as _c07
        _c07.OUTCOME[0] = oa.outcome
        table, sx, names, outs = decision_table(f, db, F('+0'))
        for scen, want in (('better', 'must-accept'), ('equal', 'must-accept'), ('worse', 'must-reject'),
                           ('invalid', 'must-reject')):
            rep.check(table.get(scen) == want, 'R3', 'zero-temperature-decision:' + scen, where(db),
                      '%s -> %s' % (scen, table.get(scen)),
                      'at kT = +0 a %s proposal is %s (required: %s)' % (scen, table.get(scen), want))
        rep.sample('decision table at kT=+0: %s' % table)
    # R4: the hill-climb argument needs exact undo and bookkeeping (C06 obligations, imported)
    from ..harness import Report
    from .C06 import run as run_c06
    sub = type('Ctx', (), {})()
    sub.__dict__.update(ctx.__dict__)
    sub.rep = Report('C06', ctx.tier)
    run_c06(sub)
    for o in sub.rep.obligations:
        if o['rule'] not in ('R2', 'R3', 'R4', 'R5'):
            continue      # one-write-per-proposal / who-may-write are not needed for the hill-climb argument
        if o['ok']:
            rep.ok('R4', 'C06:' + o['rule'] + '/' + o['instance'], o['construct'], o['why'])
        else:
            rep.fail('R4', 'C06:' + o['rule'] + '/' + o['instance'], o['construct'], o['why'], o['reason'])
    rep.analysed |= sub.rep.analysed


def run(ctx):
    _run_rules(ctx)
    # R6: setter fidelity of the builder (a zero starting temperature asked for through the builder must be the one the optimiser gets)
    from .common import builder_setters
    builder_setters(ctx, 'R6', ['kt_start', 'kt_finish', 'kt_ratio'])
