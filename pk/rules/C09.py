"""C09 — same seed, same answer: results do not depend on threads or other replicas (structure)."""
from ..anchors import AnchorLost, OptimiserAnchors, is_trait_call
from ..callgraph import CallGraph
from ..facts import Facts
from ..harness import extract_fixture, where
from ..lineage import adaptor_chain, through
from ..mirutil import Tracer, call_matches, callee_name, field_path
from ..optmodel import build_families
from ..sym import SYM, SymEx, sfield
from .C10 import pipeline_fn
from .common import places_in_body, writes_cell_reachable

LEVEL = 'other'
EXPLANATION = ('Ownership/effect facts decided on the type graph, MIR and call graph: (R1) no shared or global storage is '
               'reachable from a state value (no Rc/Arc/raw pointer/reference/Cell/Mutex/atomic; the only interior-mutable '
               'leaf is SharedValue.value: UnsafeCell<f64> held inline); (R2) no static mut / interior-mutable static / '
               'thread_local; (R3) every manual Clone builds each field from the same-named field of self; (R4) replica '
               'closures use the shared state only as receiver of Clone::clone, and no Clone impl can write a cell; '
               '(R5) no nondeterminism source is called from seeded paths, from_entropy only under seed == None; '
               '(R6) every build() in a replica closure follows .seed(replica index) on the same builder. Each '
               'zero-expected rule is also run on a fixture crate that must be flagged.')

UNIQUE_OWNERS = ('std::vec::Vec', 'std::string::String', 'std::boxed::Box', 'alloc::vec::Vec', 'alloc::string::String',
                 'alloc::boxed::Box')
FORBIDDEN_ADTS = ('std::rc::Rc', 'std::sync::Arc', 'std::cell::Cell', 'std::cell::RefCell', 'std::sync::Mutex',
                  'std::sync::RwLock', 'std::sync::atomic::', 'std::rc::Weak', 'std::sync::Weak', 'std::cell::OnceCell',
                  'std::sync::OnceLock', 'alloc::rc::Rc', 'alloc::sync::Arc', 'core::cell::', 'std::sync::nonpoison',
                  'std::sync::poison::mutex::Mutex', 'std::sync::poison::rwlock::RwLock')
ND_SOURCES = ('thread_rng', 'from_entropy', 'rand::random', 'OsRng', 'SystemTime::now', 'Instant::now', 'std::env::',
              'RandomState::new', 'HashMap', 'HashSet', 'std::thread::current', 'current_thread_index', 'current_num_threads',
              'getrandom', 'std::process::id', 'EntropyRng')


def storage_problems(types, root, allow_cell=None):
    """Walk the type graph from `root`; return list of (path-of-fields, problem)."""
    out = []
    seen = set()

    def walk(tk, trail):
        if tk in seen:
            return
        seen.add(tk)
        n = types.get(tk)
        if n is None:
            return
        k = n['kind']
        if k == 'adt':
            p = n['path']
            if p.startswith(UNIQUE_OWNERS):
                for a in n.get('targs', []):
                    walk(a, trail + ['<%s>' % p.rsplit('::', 1)[-1]])
                return
            if any(p.startswith(x) or x in p for x in FORBIDDEN_ADTS):
                out.append(('.'.join(trail), 'shared/interior-mutable type %s' % p))
                return
            if n.get('is_unsafe_cell'):
                if allow_cell and trail[-2:] == allow_cell[0] and n.get('targs') == allow_cell[1]:
                    return
                out.append(('.'.join(trail), 'UnsafeCell outside SharedValue.value'))
                return
            if n.get('is_phantom'):
                return
            for v in n['variants']:
                for fl in v['fields']:
                    walk(fl['ty'], trail + [p.rsplit('::', 1)[-1], fl['name']] if False else trail + [fl['name']])
        elif k == 'ref':
            inner = types.get(n['inner'], {})
            if inner.get('kind') == 'prim' and n['inner'] == 'str' and False:
                return
            out.append(('.'.join(trail), 'reference field (%s)' % tk))
        elif k == 'rawptr':
            out.append(('.'.join(trail), 'raw pointer field (%s)' % tk))
        elif k in ('array', 'tuple'):
            for x in ([n['inner']] if k == 'array' else n['elems']):
                walk(x, trail)
        elif k in ('fnptr', 'dyn', 'closure'):
            out.append(('.'.join(trail), '%s field' % k))
    walk(root, [root.split('<')[0].rsplit('::', 1)[-1]])
    return out, len(seen)


_ATOMIC_WRITES = ('::fetch_add', '::fetch_sub', '::fetch_max', '::fetch_min', '::store', '::fetch_or', '::fetch_and', '::swap')


def static_only_observed(facts, path):
    """An atomic counter that is only counted up and reported: every use of the static in the workspace is an atomic update whose
    returned old value is dropped or only logged, or a load whose value flows only into log / print arguments.  Such a static
    carries nothing from one computation into another."""
    n = 0
    for b in facts.bodies.values():
        seeds = set()
        uses = []
        tr = None
        for bi, bb in enumerate(b.blocks):
            for st in bb['stmts']:
                if st['s'] == 'assign':
                    rv = st['rv']
                    for o in [rv.get('a'), rv.get('b')] + list(rv.get('ops') or []):
                        if isinstance(o, dict) and o.get('k') == 'const' and (o.get('static') or '').replace('packing::', '') == path:
                            uses.append(('stmt', bi, st))
            t = bb['term']
            if t['t'] == 'call':
                for ai, a in enumerate(t['args']):
                    src = a
                    if isinstance(a, dict) and 'l' in a:
                        tr = tr or Tracer(b)
                        o = tr.origin(a)
                        src = o['c'] if o['o'] == 'const' else None
                    if isinstance(src, dict) and src.get('k') == 'const' and (src.get('static') or '').replace('packing::', '') == path:
                        uses.append(('call', bi, t, ai))
        for u in uses:
            if u[0] == 'stmt':
                # the address is copied into a local first (`_3 = const &STATIC`): the call that takes the local is judged
                continue
            _k, bi, t, ai = u
            n += 1
            nm = callee_name(t) or ''
            if any(x in nm for x in _FMT_ARG):
                continue            # the counters record itself handed to a log line (its Display reads the counters)
            if ai != 0 or 'atomic' not in nm.lower():
                return False
            if nm.endswith(_ATOMIC_WRITES) or nm.endswith('::load'):
                if t['dest']['p']:
                    return False
                seeds.add(t['dest']['l'])
            else:
                return False
        if seeds:
            r = _flows_only_to_log(b, seeds, allow_return=True)
            if r is False:
                return False
            if r == 'returns' and not _result_only_logged(facts, b, 0):
                return False
    return n > 0


def _result_only_logged(facts, fn_body, depth):
    """Every call of fn_body in the workspace uses the result for nothing but log / print arguments (or hands it on as ITS result,
    one more level)."""
    if depth > 2:
        return False
    found = False
    for b in facts.bodies.values():
        seeds = set()
        for bi, t in b.calls():
            cb = facts.body_of_fnconst(t['func']) if t['func'].get('k') == 'const' else None
            if cb is not None and (cb is fn_body or cb.path == fn_body.path):
                if t['dest']['p']:
                    return False
                seeds.add(t['dest']['l'])
                found = True
        if seeds:
            r = _flows_only_to_log(b, seeds, allow_return=True)
            if r is False or (r == 'returns' and not _result_only_logged(facts, b, depth + 1)):
                return False
    return True


def _all_atomic(facts, ty):
    """An atomic integer / bool, or a workspace struct all of whose fields are (a counters record)."""
    if 'atomic::Atomic' in ty:
        return True
    a = facts.adts.get(facts.norm(ty).split('<')[0])
    fl = (a or {}).get('fields') or []
    return bool(fl) and all('atomic::Atomic' in (x.get('ty') or '') for x in fl)


def static_problems(facts):
    out = []
    for s in facts.statics:
        if s['mutable']:
            out.append((s['path'], 'static mut'))
        elif not s['freeze'] and _all_atomic(facts, s.get('ty', '')) and not s['thread_local'] and \
                static_only_observed(facts, s['path'].replace('packing::', '')):
            continue        # a counter that is only counted and reported
        elif not s['freeze']:
            out.append((s['path'], 'static with interior mutability' + (' (thread_local)' if s['thread_local'] else '')))
        elif s['thread_local']:
            out.append((s['path'], 'thread_local static'))
    return out


CLOCKS = ('SystemTime::now', 'Instant::now')
_TIME_DERIVED = ('Instant::elapsed', 'Instant::duration_since', 'Instant::saturating_duration_since', 'SystemTime::elapsed',
                 'SystemTime::duration_since', 'Duration::as_secs_f64', 'Duration::as_secs_f32', 'Duration::as_secs',
                 'Duration::as_millis', 'Duration::as_micros', 'Duration::as_nanos', 'Duration::subsec_millis',
                 'Duration::subsec_micros', 'Duration::subsec_nanos', 'for std::time::Instant>::sub', 'for std::time::Duration>::sub',
                 'for std::time::Duration>::add', 'Result::<T, E>::unwrap_or_default', 'Result::<T, E>::unwrap_or', 'Clone>::clone')
_FMT_ARG = ('core::fmt::rt::Argument::<\'_>::new_', 'fmt::rt::Argument::new_', 'fmt::Arguments::<\'a>::new', 'fmt::Arguments::new',
            'Arguments::<\'a>::new_v1', 'Arguments::new_v1')
_LOG_SINKS = ('log::__private_api_log', 'log::__private_api::log', 'std::io::_eprint', 'std::io::_print')


def clock_only_logged(body):
    """Every clock reading made in `body` flows, through time arithmetic, into the arguments of a log / print line and nowhere
    else: not into a branch, a call, a field, the result.  (Elapsed time that is only reported does not make a result depend on
    when or where the code ran.)  Forward data flow over the locals of the body; any other use of a time-derived value fails."""
    time = set()
    for bi, t in body.calls():
        if any(x in (callee_name(t) or '') for x in CLOCKS):
            if t['dest']['p']:
                return False
            time.add(t['dest']['l'])
    if not time:
        return True
    return _flows_only_to_log(body, time)


def _flows_only_to_log(body, seeds, allow_return=False):
    """True / False; with allow_return, 'returns' if the only escape is into the function's result."""
    time, fmt = set(seeds), set()
    returned = [False]

    def reads(op):
        return isinstance(op, dict) and 'l' in op and op.get('k') in ('copy', 'move')
    for _ in range(30):
        changed = False
        for bi, bb in enumerate(body.blocks):
            if bb.get('cleanup'):
                continue
            for st in bb['stmts']:
                if st['s'] != 'assign':
                    continue
                rv = st['rv']
                srcs = [o for o in [rv.get('a'), rv.get('b')] + list(rv.get('ops') or []) if reads(o)]
                if 'place' in rv and isinstance(rv['place'], dict) and rv['r'] != 'discr':
                    # (which variant an `Option<Instant>` is was decided by whoever built it, not by the clock)
                    srcs.append({'l': rv['place']['l'], 'k': 'copy'})
                for kind in (time, fmt):
                    if any(o['l'] in kind for o in srcs):
                        if st['place']['p'] and any(e == 'deref' for e in st['place']['p']):
                            return False            # stored through a pointer: escapes
                        if rv['r'] in ('binop', 'unop', 'cast') and kind is time and rv['r'] != 'cast':
                            pass                    # arithmetic on a time value is still a time value
                        if st['place']['l'] == 0:
                            if not allow_return:
                                return False        # becomes (part of) the result
                            returned[0] = True
                        if st['place']['l'] not in kind:
                            kind.add(st['place']['l'])
                            changed = True
            t = bb['term']
            if t['t'] == 'switch' and reads(t['discr']) and (t['discr']['l'] in time or t['discr']['l'] in fmt):
                return False                        # control flow depends on the clock
            if t['t'] == 'call':
                nm = callee_name(t) or ''
                ta = [a for a in t['args'] if reads(a) and a['l'] in time]
                fa = [a for a in t['args'] if reads(a) and a['l'] in fmt]
                if not ta and not fa:
                    continue
                dest = t['dest']['l'] if t.get('dest') and not t['dest']['p'] else None
                if any(x in nm for x in CLOCKS):
                    continue
                if ta and any(x in nm for x in _TIME_DERIVED):
                    if dest == 0 and allow_return:
                        returned[0] = True
                        continue
                    if dest is None or dest == 0:
                        return False
                    if dest not in time:
                        time.add(dest)
                        changed = True
                elif any(x in nm for x in _FMT_ARG):
                    if dest is None or dest == 0:
                        return False
                    if dest not in fmt:
                        fmt.add(dest)
                        changed = True
                elif any(x in nm for x in _LOG_SINKS) and not ta:
                    continue
                else:
                    return False                    # a time-derived value handed to anything else
        if not changed:
            break
    return 'returns' if returned[0] else True


def nd_reachable(facts, cg, roots):
    ext = cg.ext_reachable(roots)
    hits = []
    for name, callers in ext.items():
        if any(x in name for x in ND_SOURCES):
            if any(x in name for x in CLOCKS):
                # a clock that is only read to report elapsed time in a log line
                callers = [k for k in callers if not clock_only_logged(facts.bodies[k])]
                if not callers:
                    continue
            hits.append((name, sorted(callers)[:3]))
    # parallel reductions whose result depends on how rayon splits the work: a float sum / product (floating-point addition is
    # not associative), a reduction or fold with an arbitrary operator, find_any
    for k in cg.reachable(roots):
        b = facts.bodies[k]
        for bi, t in b.calls():
            fc = t['func']
            if not (fc.get('trait') or '').endswith('ParallelIterator'):
                continue
            m = (fc.get('fn') or '').rsplit('::', 1)[-1]
            dty = t['dest'].get('ty', '')
            if (m in ('sum', 'product') and ('f64' in dty or 'f32' in dty)) or \
                    m in ('reduce', 'reduce_with', 'fold', 'fold_with', 'try_fold', 'try_reduce', 'find_any', 'find_map_any'):
                hits.append(('ParallelIterator::%s -> %s in %s (the result depends on the order in which rayon combines the pieces)'
                             % (m, dty[:40], k), [k]))
    # HashMap/HashSet typed locals in reachable bodies
    for k in cg.reachable(roots):
        b = facts.bodies[k]
        for l in b.locals:
            if 'std::collections::HashMap' in l['ty'] or 'std::collections::HashSet' in l['ty']:
                hits.append(('HashMap/HashSet local in ' + k, [k]))
                break
    return hits


def clone_problems(facts, body):
    """Manual Clone impl: each field of the result must be built from the same-named field of self only."""
    sx = SymEx(facts)
    outs = sx.run(body, [SYM('self')])
    if len(outs) != 1 or sx.aborted:
        return ['clone is not a single loop-free path']
    r = sx.deep(outs[0].st, outs[0].ret)
    if r == SYM('self'):
        return []           # `*self` (the derived Clone of a Copy type): a bitwise copy
    if r[0] != 'struct':
        return ['clone does not return a struct literal']
    probs = []
    for name, v in r[3]:
        syms = set()

        def walk(x):
            if isinstance(x, tuple):
                if x and x[0] == 'sym':
                    syms.add(x[1])
                    return
                for y in x:
                    walk(y)
        walk(v)
        if not syms:
            probs.append('field %s is not built from self' % name)
        for s in syms:
            if not (s == 'self.' + name or s.startswith('self.' + name + '.') or s.startswith('self.' + name + '#')):
                probs.append('field %s is built from %s' % (name, s))
    return probs


def _run_rules(ctx):
    rep, f, cg = ctx.rep, ctx.facts, ctx.cg
    rep.trust('rayon executes each closure call with the arguments it was given; rustc type information (field types, Freeze); '
              'derived Clone impls are field-wise')
    # ---------------- positive controls -------------------------------------------------
    try:
        ff = Facts(extract_fixture())
        fcg = CallGraph(ff)
        sp, _ = storage_problems(ff.types, 'RootState')
        kinds = ' | '.join(p[1] for p in sp)
        for want in ('Rc', 'raw pointer', 'Arc', 'Cell', 'reference'):
            rep.check(want in kinds, 'PC', 'fixture-flags-%s' % want.replace(' ', '-'), 'fixtures/positive/src/lib.rs',
                      'flagged', 'the storage-shape rule does not flag a %s field in the fixture' % want, 'selfcheck')
        st = static_problems(ff)
        rep.check(len(st) >= 3, 'PC', 'fixture-flags-statics', 'fixtures/positive/src/lib.rs', '%d statics flagged' % len(st),
                  'the global-state rule does not flag the fixture\'s static mut / atomic / thread_local', 'selfcheck')
        nd = nd_reachable(ff, fcg, ['root_calls_nondeterministic'])
        rep.check(len(nd) >= 3, 'PC', 'fixture-flags-nondeterminism', 'fixtures/positive/src/lib.rs', '%d sources' % len(nd),
                  'the nondeterminism rule does not flag SystemTime/env/HashMap in the fixture', 'selfcheck')
        cb = ff.one(self_adt='CloneBad', trait='Clone', name='clone')
        rep.check(cb is not None and bool(clone_problems(ff, cb)), 'PC', 'fixture-flags-bad-clone',
                  'fixtures/positive/src/lib.rs', 'flagged', 'the clone-fidelity rule does not flag the fixture', 'selfcheck')
    except Exception as e:  # noqa
        rep.fail('PC', 'fixture', 'fixtures/positive', 'positive-control fixture could not be analysed: %s' % str(e)[:300],
                 'selfcheck')
    # ---------------- R1 storage shape --------------------------------------------------
    roots = ['state::packed::PackedState<S>', 'state::potential::PotentialState<S>', 'shape::line_shape::LineShape',
             'shape::molecular_shape2::MolecularShape2', 'shape::lj_shape::LJShape2']
    n_types = 0
    for r in roots:
        if not rep.check(r in f.types, 'R1', 'anchor:type:%s' % r, r, 'found', 'type %s not found in the type graph' % r,
                         'anchor-lost'):
            continue
        probs, n = storage_problems(f.types, r, allow_cell=(['value', 'value'], ['f64']))
        # allow exactly SharedValue.value: UnsafeCell<f64>
        probs = [p for p in probs if not (p[1].startswith('UnsafeCell') and p[0].endswith('.value'))]
        n_types += n
        rep.check(not probs, 'R1', 'storage-shape:%s' % r, r, 'no shared storage reachable (%d types visited)' % n,
                  'a state value can reach shared or unsynchronised storage: %s' % probs[:3])
    # the optimiser is handed to `optimise_state(&self, ..)` by shared reference — one value may serve several replicas at once —
    # so it must be plain data too: no interior mutability (counters, caches), nothing shared
    for r in ('optimisation::MCOptimiser', 'optimisation::BuildOptimiser'):
        if not rep.check(f.type_info(r) is not None and r in f.types, 'R1', 'anchor:type:%s' % r, r, 'found',
                         'type %s not found in the type graph' % r, 'anchor-lost'):
            continue
        probs, n = storage_problems(f.types, r)
        n_types += n
        rep.check(not probs, 'R1', 'optimiser-is-plain-data:%s' % r, r, 'no interior mutability or shared storage (%d types visited)' % n,
                  'the optimiser holds state that concurrent replicas using the same optimiser would share: %s' % probs[:3])
    sv = f.types.get('basis::SharedValue')
    ok = False
    if sv:
        flds = sv['variants'][0]['fields']
        ok = len(flds) == 1 and flds[0]['ty'] == 'std::cell::UnsafeCell<f64>'
    rep.check(ok, 'R1', 'cell-is-inline-UnsafeCell<f64>', 'basis::SharedValue', 'SharedValue { value: UnsafeCell<f64> } by value',
              'SharedValue no longer holds its f64 inline in an UnsafeCell: two state values may alias one cell')
    rep.floor('R1', 'types visited in the state type graph', n_types, 40)
    rep.sample('type graph from %s: %d type nodes, only interior-mutable leaf = SharedValue.value: UnsafeCell<f64>' % (roots[0], n_types))
    # ---------------- R2 global state ---------------------------------------------------
    st = static_problems(f)
    rep.check(not st, 'R2', 'no-global-mutable-state', 'workspace crates', '%d statics, none mutable' % len(f.statics),
              'global mutable state exists: %s' % st[:3])
    # ---------------- R3 clone fidelity -------------------------------------------------
    n_manual = 0
    for b in f.trait_impl_methods('clone::Clone', 'clone'):
        if b.crate_kind != 'lib':
            continue        # (derived impls are checked like hand-written ones: what matters is what the copy is made of)
        adt = f.norm(b.impl_self_adt or '')
        if adt in ('cell::Cell2', 'site::OccupiedSite') or adt.startswith(('state::', 'basis::SharedValue', 'shape::', 'wallpaper::')):
            n_manual += 1
            rep.saw(b)
            probs = clone_problems(f, b)
            rep.check(not probs, 'R3', 'clone-fidelity:%s' % adt, where(b), 'every field from the same-named field of self',
                      'the manual Clone of %s does not copy field-to-field: %s' % (adt, probs[:3]))
            rep.sample('%s::clone: field-to-field from self' % adt)
    rep.floor('R3', 'Clone impls in the state type graph', n_manual, 2)
    clone_roots = [b.key_in_facts for b in f.trait_impl_methods('clone::Clone', 'clone') if b.crate_kind == 'lib']
    p = writes_cell_reachable(ctx, clone_roots)
    rep.check(p is None, 'R3', 'clone-never-writes-a-cell', 'all Clone impls', 'no Clone impl reaches SharedValue::set_value',
              'cloning can write a parameter cell: %s' % ' -> '.join(p or []))
    # ---------------- R7 the parallel reduction is schedule-independent only for a total order -------------
    from .C10 import _ordering
    from ..harness import Report
    sub = type('Ctx', (), {})()
    sub.__dict__.update(ctx.__dict__)
    sub.rep = Report('C10', ctx.tier)
    _ordering(sub)
    for o in sub.rep.obligations:
        (rep.ok('R7', 'total-order:' + o['instance'], o['construct'], o['why']) if o['ok'] else
         rep.fail('R7', 'total-order:' + o['instance'], o['construct'],
                  o['why'] + ' — rayon\'s tree reduction returns the same maximum for every schedule only if the comparison is a '
                  'total order on the exact scores', o['reason']))
    # ---------------- R4 / R6 replica closures -------------------------------------------
    _closures(ctx)
    # ---------------- R5 nondeterminism ---------------------------------------------------
    try:
        oa = OptimiserAnchors(f)
    except AnchorLost as e:
        rep.fail('R5', 'anchor:stepping-function', '', str(e), 'anchor-lost')
        return
    nd_roots = [oa.body.path]
    for b in f.bodies.values():
        if b.is_closure or b.crate_kind != 'lib' or not b.impl_trait:
            continue
        tr = f.norm(b.impl_trait)
        if tr.endswith(('traits::State', 'clone::Clone', 'cmp::Ord', 'cmp::PartialOrd', 'cmp::PartialEq', 'traits::ToSVG',
                        'ser::Serialize', '_serde::Serialize', 'traits::Basis', 'traits::Intersect', 'traits::Potential',
                        'traits::Shape')):
            nd_roots.append(b.key_in_facts)
    hits = nd_reachable(f, cg, nd_roots)
    rep.floor('R5', 'seeded-path roots', len(nd_roots), 40)
    rep.check(not hits, 'R5', 'no-nondeterminism-source-on-seeded-paths', where(oa.body),
              'none of %s is called from %d roots' % (list(ND_SOURCES)[:6], len(nd_roots)),
              'a nondeterminism source is reachable from seeded code: %s' % hits[:3])
    # from_entropy only in the builder, under seed == None
    fams, err, bb = build_families(f)
    ent_names = ('from_entropy', 'thread_rng', 'OsRng', 'rand::random')
    ent = cg.callers_of(lambda n: any(x in n for x in ent_names))
    # judged in the builder's nest form: a closure handed to unwrap_or_else / a helper is spliced into the builder.  A second
    # constructor over the same builder record (`try_build`, `impl TryFrom<Builder>`: the helper that derives the values spliced
    # into each) is judged the same way; any other function holding an entropy source is outside the builder
    nbb = f.nest_form(bb, yields=False) if bb is not None else None
    spliced = set(getattr(nbb, 'inlined', [])) if nbb is not None else set()
    bty = _strip_ref(bb.local_ty(1)) if bb is not None and bb.args() else None
    judged = [nbb] if nbb is not None else []
    outside = []
    for k, s in ent:
        b = f.bodies[k]
        if bb is not None and (b is bb or b.path == bb.path or b.path in spliced):
            continue
        if bty and not b.is_closure and b.args() and _strip_ref(b.local_ty(b.args()[0])) == bty and b.crate_kind == 'lib':
            nb2 = f.nest_form(b, yields=False)
            if nb2 is not None and all(x.path != nb2.path for x in judged):
                judged.append(nb2)
            continue
        outside.append((b, s['bb']))
    for b, sbi in outside:
        rep.fail('R5', 'entropy-only-when-unseeded:%s' % b.path, where(b, sbi),
                 'an entropy-seeded generator is created outside the builder')
    from ..cfg import CFG
    for nb in judged:
        sites = [(bi, tt) for bi, tt in nb.calls() if any(x in (callee_name(tt) or '') for x in ent_names)]
        t = Tracer(nb)
        cfg = CFG(nb)
        a1 = nb.args()[0] if nb.args() else 1
        for sbi, _tt in sites:
            guard_ok = False
            for bi in sorted(cfg.reach):
                tt = nb.blocks[bi]['term']
                if tt['t'] == 'switch':
                    o = t.origin(tt['discr'])
                    if o['o'] == 'rvalue' and o['rv']['r'] == 'discr':
                        po = t.origin(dict(o['rv']['place'], k='copy'))
                        if not (field_path(o['rv']['place']['p']) == ['seed'] or
                                (po['o'] == 'arg' and po['l'] == a1 and field_path(po['p']) == ['seed'])):
                            continue
                        none_t = [x[1] for x in tt['arms'] if x[0] == '0'] or [tt['otherwise']]
                        some_t = [x[1] for x in tt['arms'] if x[0] == '1'] or [tt['otherwise']]
                        r_some = cfg.reachable_from(some_t, avoid=set(none_t))
                        r_none = cfg.reachable_from(none_t, avoid=set(some_t))
                        guard_ok = guard_ok or (sbi in r_none and sbi not in (r_some - r_none) and cfg.dominates(bi, sbi))
            rep.check(guard_ok, 'R5', 'entropy-only-when-unseeded:%s' % nb.path, where(nb, sbi),
                      'from_entropy is control dependent on seed == None in the builder',
                      'an entropy-seeded generator is created outside the "no seed given" branch of the builder')
    rep.floor('R5', 'entropy sources located', len(ent), 1)
    if fams:
        seeded = [x for x in fams if x['family'].get('seed') == 'Some']
        ok = bool(seeded) and all(x['fields'].get('seed') == SYM('self.seed#Some.0') for x in seeded)
        rep.check(ok, 'R6', 'optimiser-seed-is-the-builder-seed', where(bb), 'MCOptimiser.seed = builder seed when given',
                  'the optimiser does not use the seed given to the builder')


def _strip_ref(ty):
    ty = (ty or '').strip()
    while ty.startswith('&'):
        ty = ty[1:].strip()
        if ty.startswith("'"):
            ty = ty.split(' ', 1)[1].strip() if ' ' in ty else ty
        if ty.startswith('mut '):
            ty = ty[4:].strip()
    return ty.replace('packing::', '')


def _closures(ctx):
    rep, f, cg = ctx.rep, ctx.facts, ctx.cg
    pfs = pipeline_fn(f)
    if not rep.check(len(pfs) == 1, 'R4', 'anchor:pipeline-function', 'src/main.rs', 'found',
                     'expected one pipeline function', 'anchor-lost'):
        return
    from ..nest import Nest
    rep.saw(pfs[0])
    n = Nest(f, pfs[0], yields=False)
    b, t, cfg = n.b, n.tr, n.cfg
    # nest form (pk/loopform.py): the parallel reduction is read as `for index in 0..count { candidate(stages(index)) }`, the
    # map closures and any helper unknown to the reference tree are spliced into the loop body
    cands = n.calls(lambda tt: tt['func'].get('fn') == 'pk::candidate')
    loops = n.loops_around(cands[0][0]) if len(cands) == 1 else []
    if not rep.check(len(cands) == 1 and len(loops) == 1, 'R4', 'anchor:replica-loop', where(b), 'one replica loop',
                     'the parallel pipeline is not one reduction over one index range (%d reduction input(s), %d loop(s))'
                     % (len(cands), len(loops)), 'undecidable-shape'):
        return
    lp = loops[0]
    body = lp['loop']['body']
    state_params = [i for i in b.args() if b.local_ty(i).lstrip('&').strip().startswith('impl ')]
    stages = [(bi, tt) for bi, tt in b.calls() if bi in body and bi in cfg.reach and call_matches(tt, 'optimise_state')]
    _all = list(stages)
    stages = sorted(_all, key=lambda x: sum(1 for y in _all if cfg.dominates(y[0], x[0])))
    rep.floor('R4', 'optimisation stages in the replica pipeline', len(stages), 3, where(b))
    # the shared state is only ever cloned
    bad = []
    for bbi, tt in b.calls():
        if bbi not in cfg.reach:
            continue
        for ai, a in enumerate(tt['args']):
            o = t.origin(a)
            if o['o'] == 'arg' and o['l'] in state_params and bbi in body:
                if not (call_matches(tt, 'Clone>::clone', 'Clone::clone') and ai == 0):
                    bad.append('passed to %s' % callee_name(tt))
    for bbi, si, pl, w in places_in_body(b):
        if w and pl['l'] in state_params and bbi in body:
            bad.append('written')
    rep.check(not bad, 'R4', 'shared-state-only-cloned', where(b, lp['header']),
              'inside the replica loop the shared state is used only as receiver of Clone::clone',
              'a replica uses the shared state other than by cloning it: %s' % bad[:3])
    prev = None
    for ci, (sbi, tt) in enumerate(stages, 1):
        so = t.origin(tt['args'][1])
        fresh = so['o'] == 'call' and call_matches(so['term'], 'Clone>::clone', 'Clone::clone') and \
            t.origin(so['term']['args'][0]).get('l') in state_params
        chained = prev is not None and so['o'] == 'call' and so.get('bb') == prev and not field_path(so['p'])[1:]
        owned = fresh if ci == 1 else chained
        rep.check(owned, 'R4', 'optimised-state-is-owned:#%d' % ci, where(b, sbi),
                  'state argument = %s' % ('fresh clone of the shared state' if ci == 1 else 'the result of stage #%d' % (ci - 1)),
                  'stage #%d optimises a state that is not %s' % (ci, 'a fresh clone of the shared state' if ci == 1 else
                                                                  'the result of the previous stage'))
        prev = sbi
        # R6: build() <- ... <- seed(index) <- ... <- clone(optimiser)
        bo = t.origin(tt['args'][0])
        chain = []
        seed_arg = None
        cur = bo
        for _ in range(20):
            if cur['o'] != 'call':
                break
            nm = callee_name(cur['term']) or ''
            chain.append(nm.rsplit('::', 1)[-1])
            if nm.endswith('BuildOptimiser::seed'):
                seed_arg = cur['term']['args'][1]
            if call_matches(cur['term'], 'Clone>::clone', 'Clone::clone'):
                break
            cur = t.origin(cur['term']['args'][0])
        idx_ok = False
        if seed_arg is not None:
            d, fp = n.item(seed_arg)
            idx_ok = d is lp and not fp
        structural = 'build' in chain and 'seed' in chain and chain[-1] == 'clone' and idx_ok
        if not structural:
            # by value: at the stage call, on every path, the optimiser is build(builder) with builder.seed = Some(replica index)
            by_value, how = _seed_by_value(n, lp, sbi)
            if by_value:
                structural = True
                chain = chain or ['(by value)']
                rep.sample('stage #%d: builder.seed = Some(replica index) by value (%s)' % (ci, how))
        rep.check(structural, 'R6',
                  'seeded-with-replica-index:#%d' % ci, where(b, sbi),
                  'optimiser.clone()%s' % ''.join('.%s(..)' % c for c in reversed(chain[:-1])),
                  'the optimiser of this stage is not built from a builder seeded with the replica index (chain %s)'
                  % (list(reversed(chain)),))
        rep.sample('stage #%d: %s; state %s' % (ci, ' <- '.join(chain), 'fresh clone' if ci == 1 else 'previous stage'))
    if stages:
        co = t.origin(cands[0][1]['args'][0])
        if co['o'] == 'rvalue' and not co.get('p') and co['rv'].get('r') == 'aggr' and co['rv'].get('agg') in ('adt', 'tuple'):
            # the candidate is a record carrying the state (`Replica { state, index }`, `(state, index)`): what the reduction
            # compares in it is C10.R1's subject; here the state component must be the last stage's result
            for op in co['rv']['ops']:
                if 'l' not in op:
                    continue
                o2 = t.origin(op)
                if o2['o'] == 'call' and o2.get('bb') == stages[-1][0]:
                    co = o2
        rep.check(co['o'] == 'call' and co.get('bb') == stages[-1][0], 'R4', 'candidate-is-the-last-stage', where(b, cands[0][0]),
                  'the value handed to the reduction is the result of the last stage',
                  'the value handed to the reduction is not the result of the last optimisation stage')
    # setters return the same builder and seed() stores Some(arg)
    sb = f.one(self_adt='optimisation::BuildOptimiser', name='seed')
    if rep.check(sb is not None, 'R6', 'anchor:BuildOptimiser::seed', 'optimisation::BuildOptimiser', 'found', 'seed() not found', 'anchor-lost'):
        sx = SymEx(f)
        outs = sx.run(sb, [SYM('self'), SYM('seed')])
        ok = len(outs) == 1
        if ok:
            eff = [(e[0], sx.deep(outs[0].st, e[1])) for e in outs[0].effects]
            ok = len(eff) == 1 and eff[0][0] == SYM('self.seed') and eff[0][1][0] == 'struct' and \
                eff[0][1][2] and eff[0][1][2][0] == 'Some' and sfield(eff[0][1], '0') == SYM('seed') and outs[0].ret == SYM('self')
        rep.check(ok, 'R6', 'seed-setter-stores-its-argument', where(sb), 'self.seed = Some(seed); returns self',
                  'BuildOptimiser::seed does not store exactly Some(argument) and return the same builder')


def _index_shifted(v, want):
    """v is the replica index, or the index shifted by a value that is the same for every replica (`index.wrapping_add(offset)`,
    `index ^ salt`, `index + base`): distinct indices still get distinct seeds and the seed is a function of (index, arguments)."""
    if v == want:
        return True

    def invariant(x):
        r = repr(x)
        return 'item' not in r and "'unk'" not in r and 'Iterator::next' not in r
    if isinstance(v, tuple) and v[0] == 'app' and v[1].rsplit('::', 1)[-1] in ('wrapping_add', 'wrapping_sub') and len(v[2]) == 2:
        a, b2 = v[2]
        return (a == want and invariant(b2)) or (b2 == want and invariant(a) and v[1].endswith('wrapping_add'))
    if isinstance(v, tuple) and v[0] == 'bin' and v[1] in ('Add', 'BitXor', 'Sub', 'AddWithOverflow'):
        a, b2 = v[2], v[3]
        return (a == want and invariant(b2)) or (b2 == want and invariant(a) and v[1] != 'Sub')
    return False


def _seed_by_value(n, lp, sbi):
    """One iteration of the replica loop is executed up to the stage call at block sbi (the builder's setters are executed,
    build() is opaque): on every path the optimiser argument is build(b) with b.seed = Some(item of the replica loop)."""
    try:
        sx, outs = n.iteration(lp, {sbi}, opaque=('optimise_state', 'BuildOptimiser::build'))
    except Exception as ex:      # noqa: BLE001
        return False, 'not evaluated: %s' % str(ex)[:60]
    if sx.aborted or not outs:
        return False, 'not loop-free'
    hits = [o for o in outs if isinstance(o.ret, tuple) and o.ret[0] == 'stopped' and o.ret[1] == sbi]
    if not hits:
        return False, 'stage not reached'
    want = SYM('item%d' % lp['header'])
    for o in hits:
        v = n.arg_values(sx, o, sbi)[0]
        if not (isinstance(v, tuple) and v[0] == 'app' and v[1].endswith('BuildOptimiser::build') and len(v[2]) == 1):
            return False, 'optimiser is not the result of build()'
        bv = v[2][0]
        sd = sfield(bv, 'seed') if isinstance(bv, tuple) and bv[0] == 'struct' else None
        if not (isinstance(sd, tuple) and sd[0] == 'struct' and sd[2] and sd[2][0] == 'Some' and
                _index_shifted(sfield(sd, '0'), want)):
            return False, 'builder.seed is %s' % (repr(sd)[:60],)
    return True, '%d path(s)' % len(hits)


def thorough(ctx):
    """Thorough tier: compile-fail witnesses (+ compiling twins) for the type-level remainder."""
    from ..witness import run_witnesses
    rep = ctx.rep
    res, tail, rc = run_witnesses(ctx.repo)
    wanted = {'W1BasisCannotOutliveState': 'a basis handle cannot outlive its state', 'W2StateIsMoved': 'the optimised state is moved, the original is kept only by Clone'}
    n = 0
    for name, verdict in sorted(res.items()):
        w, kind, _line = name.split(':')
        if w not in wanted:
            continue
        n += 1
        rep.check(verdict == 'ok', 'W', '%s:%s' % (w, kind), 'witness/src/lib.rs', wanted[w] + (' (does not compile)' if kind == 'compile_fail' else ' (twin compiles)'),
                  'witness %s/%s failed: the type-level guarantee "%s" no longer holds for downstream code (or the public API it uses changed)' % (w, kind, wanted[w]))
    rep.floor('W', 'witness doctests', n, 4, 'witness/src/lib.rs')


def run(ctx):
    _run_rules(ctx)
    # R8: setter fidelity of the builder (the seed given is the seed stored)
    from .common import builder_setters
    builder_setters(ctx, 'R8', ['seed'])
    from .common import import_obligations
    # the files written are a function of this run alone (C10.R3: created fresh, each at its own path)
    import_obligations(ctx, 'C10', 'R9', only_rules={'R3'}, floor=4)

