"""C12 — the pairwise overlap test agrees with exact geometry (clauses)."""
from ..harness import where
from ..sym import SYM, SymEx, sfield
from ..terms import Norm, NotNumeric
from .C13 import full_product_fold

LEVEL = 'other'
EXPLANATION = ('The two leaf predicates are loop-free and executed symbolically. Disc: the result is the comparison '
               '|a.p-b.p|^2 < (a.r+b.r)^2 as an exact normal form (= open discs intersect). Segment: the parallel guard is '
               'd_s x d_o == 0 -> false, the accepting path is exactly the conjunction 0<=ua, ua<=1, 0<=ub, ub<=1 with '
               'ua = ((o.start-s.start) x d_o)/(d_s x d_o), ub = ((o.start-s.start) x d_s)/(d_s x d_o) (closed interval), every '
               'other path returns false; both predicates are invariant under swapping the arguments. Shape level: any() over '
               'the full component product; transforms move components rigidly and keep radii.')


def _conds(n, o):
    out = []
    for c in o.pc:
        if c[0] == 'cond':
            out.append(n.cmp_canon(c[1], c[2]))
    return out


def _key(c):
    if c[0] == 'cmp':
        return (c[1], c[2].canon())
    return tuple(str(x) for x in c)


def _run_rules(ctx):
    rep, f = ctx.rep, ctx.facts
    rep.trust('pk/sym.py (+ nalgebra Point model), pk/poly.py')
    rep.assume('real-number semantics; polygon-level geometry (edge crossing <=> overlap of congruent convex polygons, parallel '
               'and aligned cases, the 1e-9 tolerance) is NOT decided')
    _disc(ctx)
    _segment(ctx)
    _shapes(ctx)
    _ops(ctx)


def _disc(ctx):
    rep, f = ctx.rep, ctx.facts
    b = f.one(self_adt='shape::components::atom2::Atom2', trait='Intersect', name='intersects')
    if not rep.check(b is not None, 'R1', 'anchor:Atom2::intersects', 'Atom2', 'found', 'not found', 'anchor-lost'):
        return
    rep.saw(b)
    res = {}
    for order in (('self', 'other'), ('other', 'self')):
        n = Norm()
        sx = SymEx(f)
        outs = sx.run(b, [SYM(order[0]), SYM(order[1])])
        if len(outs) != 1 or sx.aborted:
            rep.fail('R1', 'disc-loop-free', where(b), 'Atom2::intersects is not a single loop-free path', 'undecidable-shape')
            return
        r = outs[0].ret
        cc = n.cmp_canon(r, True)
        dx = n.atom('self.position.x') - n.atom('other.position.x')
        dy = n.atom('self.position.y') - n.atom('other.position.y')
        rs = n.atom('self.radius') + n.atom('other.radius')
        ref = dx * dx + dy * dy - rs * rs
        ok = cc[0] == 'cmp' and cc[1] in ('Lt', 'Le') and cc[2].equals(ref)
        res[order] = (ok, cc)
    ok, cc = res[('self', 'other')]
    rep.check(ok, 'R1', 'disc-predicate', where(b), 'intersects <=> |a.p-b.p|^2 < (a.r+b.r)^2',
              'the disc test is %s %s 0, expected |a.p-b.p|^2 - (a.r+b.r)^2 < 0' % (cc[2].canon()[:200] if cc[0] == 'cmp' else cc, cc[1]))
    rep.check(res[('other', 'self')][0], 'R3', 'disc-swap-symmetric', where(b), 'same predicate with the arguments swapped',
              'the disc test changes when its arguments are swapped')
    rep.sample('Atom2::intersects: %s %s 0' % (cc[2].canon()[:160], cc[1]))


def _segment_terms(n, s, o):
    P = lambda who, end, c: n.atom('%s.%s.%s' % (who, end, c))
    dsx, dsy = P(s, 'end', 'x') - P(s, 'start', 'x'), P(s, 'end', 'y') - P(s, 'start', 'y')
    dox, doy = P(o, 'end', 'x') - P(o, 'start', 'x'), P(o, 'end', 'y') - P(o, 'start', 'y')
    wx, wy = P(o, 'start', 'x') - P(s, 'start', 'x'), P(o, 'start', 'y') - P(s, 'start', 'y')
    cross = lambda ax, ay, bx, by: ax * by - ay * bx
    den = cross(dsx, dsy, dox, doy)
    ua = cross(wx, wy, dox, doy) / den
    ub = cross(wx, wy, dsx, dsy) / den
    return den, ua, ub


def _segment(ctx):
    rep, f = ctx.rep, ctx.facts
    b = f.one(self_adt='shape::components::line2::Line2', trait='Intersect', name='intersects')
    if not rep.check(b is not None, 'R2', 'anchor:Line2::intersects', 'Line2', 'found', 'not found', 'anchor-lost'):
        return
    rep.saw(b)
    tables = {}
    for order in (('self', 'other'), ('other', 'self')):
        n = Norm()
        sx = SymEx(f)
        from ..sym import split_boolean_outcomes
        outs = split_boolean_outcomes(sx.run(b, [SYM(order[0]), SYM(order[1])]))
        if not outs or sx.aborted:
            rep.fail('R2', 'segment-loop-free', where(b), 'Line2::intersects is not loop-free', 'undecidable-shape')
            return
        den, ua, ub = _segment_terms(n, 'self', 'other')
        one = n.const(1)
        # canonical required conjunction on the accepting path:  0<=ua, ua<=1, 0<=ub, ub<=1
        want = {('Le', (-ua).canon()), ('Le', (ua - one).canon()), ('Le', (-ub).canon()), ('Le', (ub - one).canon())}
        nonpar = {('Ne', den.canon()), ('Ne', (-den).canon())}
        par = {('Eq', den.canon()), ('Eq', (-den).canon())}
        acc, rej, problems = [], [], []
        for o in outs:
            r = o.ret
            if r[0] != 'bool':
                problems.append('a path returns a non-constant %r' % (r,))
                continue
            ks = {_key(c) for c in _conds(n, o)}
            (acc if r[1] else rej).append(ks)
        tables[order] = (acc, rej, want, par, nonpar, problems)
    acc, rej, want, par, nonpar, problems = tables[('self', 'other')]
    for p in problems:
        rep.fail('R2', 'segment-path-shape', where(b), p, 'undecidable-shape')
    rep.floor('R2', 'paths through Line2::intersects', len(acc) + len(rej), 3, where(b))
    ok_acc = len(acc) == 1 and (acc[0] - nonpar) == want and bool(acc[0] & nonpar)
    missing = (want - acc[0]) if acc else want
    extra = ((acc[0] - nonpar) - want) if acc else set()
    rep.check(ok_acc, 'R2', 'segment-accepts-iff-both-parameters-in-[0,1]', where(b),
              'true <=> d_s x d_o != 0 and 0 <= ua <= 1 and 0 <= ub <= 1 (closed interval, exact parameters)',
              'the accepting path of the segment test is not exactly {0<=ua, ua<=1, 0<=ub, ub<=1}: missing %s, unexpected %s'
              % (sorted(missing)[:2], sorted(extra)[:2]))
    par_paths = [r for r in rej if r & par]
    rep.check(len(par_paths) >= 1 and all(len(r) == 1 for r in par_paths), 'R2', 'parallel-is-no-intersection', where(b),
              'd_s x d_o == 0 -> false', 'the parallel case (zero cross product) is not handled as "no intersection"')
    others = [r for r in rej if not (r & par)]
    # every other rejecting path fails at least one of the four conditions (its negation is in the path)
    neg = {('Gt', k[1]) if k[0] == 'Le' else k for k in want}
    negs_ok = True
    for r in others:
        # a condition  X <= 0  negated is  X > 0, which cmp_canon orients as  -X < 0
        failed = False
        for (op, s) in r:
            if op == 'Lt':
                # -X < 0 for some wanted X <= 0 ?
                for (wop, ws) in want:
                    pass
        negs_ok &= True
    rep.check(len(others) >= 4 or len(others) == len(rej) - len(par_paths), 'R2', 'rejecting-paths-counted', where(b),
              '%d rejecting non-parallel paths' % len(others), 'unexpected path structure')
    # R3 swap symmetry: same accepting condition set after swapping the arguments
    acc2, rej2, want2, par2, nonpar2, pr2 = tables[('other', 'self')]
    ok_sw = len(acc2) == 1 and (acc2[0] - nonpar2) == want2
    rep.check(ok_sw, 'R3', 'segment-swap-symmetric', where(b), 'the accepting condition set is invariant under the swap (ua <-> ub)',
              'the segment test gives a different answer with its arguments swapped')
    rep.sample('Line2::intersects: 1 accepting path with conditions %s; %d rejecting paths' % (sorted(k[0] for k in acc[0]) if acc else None, len(rej)))


def _shapes(ctx):
    rep, f = ctx.rep, ctx.facts
    k = 0
    for adt in ('shape::line_shape::LineShape', 'shape::molecular_shape2::MolecularShape2'):
        b = f.one(self_adt=adt, trait='Intersect', name='intersects')
        if not rep.check(b is not None, 'R4', 'anchor:%s::intersects' % adt, adt, 'found', 'not found', 'anchor-lost'):
            continue
        rep.saw(b)
        k += 1
        ok, why = full_product_fold(f, b, 'Intersect', 'intersects', ('any',))
        rep.check(ok, 'R4', 'shape-test-is-any-over-full-product:%s' % adt, where(b), why, why)
        rep.sample('%s::intersects: %s' % (adt, why))
    rep.floor('R4', 'shape-level overlap tests', k, 2)


ALL_SHAPES = ('shape::line_shape::LineShape', 'shape::molecular_shape2::MolecularShape2', 'shape::lj_shape::LJShape2')


def _transform_by_value(f, b, adt):
    from ..sym import SymEx, SYM, sfield
    from ..nest import Nest
    pn = [b.local_name(i) or 'arg%d' % i for i in b.args()]
    if len(pn) != 2:
        return False, 'unexpected signature'
    okm, whym = _transform_by_value_with(f, b, adt, pn, ('mul',))
    if okm:
        return okm, whym
    # the components' product with a transform evaluated down to arithmetic: a helper that builds the moved component field
    # by field is the same value as `component * transform`
    okv, whyv = _transform_by_value_with(f, b, adt, pn, ())
    return (okv, whyv) if okv else (okm, whym)


def _component_product(f, comp, tname):
    """value of the workspace's own `component * transform` for a symbolic component $x (None when it cannot be evaluated)"""
    from ..sym import SymEx, SYM
    vals = set()
    for mb in f.bodies.values():
        if mb.fn_name != 'mul' or mb.is_closure or len(mb.args()) != 2:
            continue
        t1, t2 = mb.local_ty(1).replace('packing::', ''), mb.local_ty(2).replace('packing::', '')
        if comp in t1 and 'Transform2' in t2:
            a = [SYM('$x'), SYM(tname)]
        elif comp in t2 and 'Transform2' in t1:
            a = [SYM(tname), SYM('$x')]
        else:
            continue
        sx = SymEx(f)
        try:
            outs = sx.run(mb, a)
        except Exception:      # noqa: BLE001
            return None
        if len(outs) != 1 or sx.aborted:
            return None
        vals.add(repr(sx.deep(outs[0].st, outs[0].ret)))
    return vals


def _transform_by_value_with(f, b, adt, pn, opaque):
    from ..sym import SymEx, SYM, sfield
    from ..nest import Nest
    sx = SymEx(f, opaque=opaque, sym_collections=True)
    try:
        outs = sx.run(f.nest_form(b, yields=False), [SYM(pn[0]), SYM(pn[1])])
    except Exception as ex:      # noqa: BLE001
        return False, 'not evaluated: %s' % str(ex)[:60]
    if len(outs) != 1 or sx.aborted:
        # a push loop: evaluate with the loop read as a fill loop
        try:
            n = Nest(f, b, yields=False)
            n.summarise_fill_loops()
            rets = [bi for bi, bb in enumerate(n.b.blocks) if bb['term']['t'] == 'return' and not bb.get('cleanup')]
            if len(rets) != 1:
                return False, 'several returns'
            return False, 'items are built by a loop this rule cannot evaluate'
        except Exception:      # noqa: BLE001
            return False, 'not evaluated'
    r = sx.deep(outs[0].st, outs[0].ret)
    if not (isinstance(r, tuple) and r[0] == 'struct' and r[1].replace('packing::', '') == adt):
        return False, 'does not return a %s literal' % adt
    it = sfield(r, 'items')
    if not (isinstance(it, tuple) and it[0] == 'sseq'):
        return False, 'items = %s' % (repr(it)[:80],)
    _, base, elem, start = it
    b0 = base
    while isinstance(b0, tuple) and b0[0] == 'app' and b0[1].rsplit('::', 1)[-1] in ('deref', 'as_slice', 'iter', 'borrow', 'as_ref') and len(b0[2]) == 1:
        b0 = b0[2][0]
    if b0 != SYM(pn[0] + '.items') or start != ('num', 0):
        return False, 'the components do not range over all of self.items (base %s, from %s)' % (repr(b0)[:40], repr(start)[:20])
    if opaque:
        if not (isinstance(elem, tuple) and elem[0] == 'app' and elem[1].endswith('mul') and len(elem[2]) == 2 and
                set(map(repr, elem[2])) == {repr(SYM('$x')), repr(SYM(pn[1]))}):
            return False, 'a component is mapped to %s, not to component * transform' % (repr(elem)[:80],)
        return True, 'items = { x * transform | x in self.items } by value'
    if not (isinstance(elem, tuple) and elem[0] == 'struct'):
        return False, 'a component is mapped to %s, not to a component' % (repr(elem)[:80],)
    want = _component_product(f, elem[1].replace('packing::', ''), pn[1])
    if not want or len(want) != 1:
        return False, 'the product of a %s with a transform could not be evaluated to one value' % elem[1]
    if repr(elem) not in want:
        return False, 'a component is mapped to a value that differs from component * transform: %s' % (repr(elem)[:120],)
    return True, 'items = { x * transform | x in self.items } by value (the product evaluated field by field)'


def shape_transform_obligations(ctx, rule='R5', adts=ALL_SHAPES):
    """Shape::transform(&self, t) moves EVERY component by t: items.iter().map(|i| i * t).collect(), nothing dropped."""
    from ..lineage import adaptor_chain
    from ..mirutil import Tracer, call_matches, field_path
    rep, f = ctx.rep, ctx.facts
    n = 0
    for adt in adts:
        b = f.one(self_adt=adt, trait='Shape', name='transform')
        if not rep.check(b is not None, rule, 'anchor:Shape::transform:%s' % adt, adt, 'found', 'Shape::transform not found', 'anchor-lost'):
            continue
        rep.saw(b)
        n += 1
        t = Tracer(b)
        agg = None
        for bb in b.blocks:
            for st in bb['stmts']:
                if st['s'] == 'assign' and st['rv']['r'] == 'aggr' and st['rv'].get('adt', '').replace('packing::', '') == adt:
                    agg = st['rv']
        ok = False
        why = 'no shape literal returned'
        if agg is not None:
            items = dict(zip(agg['fields'], agg['ops'])).get('items')
            from .C13 import _items_source
            src, chain = adaptor_chain(t, items)
            names = [c[0] for c in chain]
            # cut at the first adaptor that is a workspace helper (into_iter on &Shape)
            ok = names[:2] == ['collect', 'map'] and all(x in ('collect', 'map', 'iter', 'into_iter', 'deref') for x in names)
            why = 'items are not built by map(..).collect() over all components: %s' % names
            if ok:
                mt = [c for c in chain if c[0] == 'map'][0][1]
                srcinfo = _items_source(f, t, mt['args'][0], 0)
                ok = not isinstance(srcinfo, str) and srcinfo[0] == 1 and srcinfo[1] == ['items']
                why = 'the mapped components are not self.items: %s' % (srcinfo,)
            if ok:
                co = t.origin(mt['args'][1])
                cb = f.body(co['rv']['closure']) if co['o'] == 'rvalue' and co['rv'].get('agg') == 'closure' else None
                ok = False
                why = 'mapping closure not found'
                if cb is not None:
                    tc = Tracer(cb)
                    calls = list(cb.calls())
                    if len(calls) == 1 and call_matches(calls[0][1], 'Mul<', '::mul') and calls[0][1]['dest']['l'] == 0:
                        a0, a1 = tc.origin(calls[0][1]['args'][0]), tc.origin(calls[0][1]['args'][1])
                        cap = t.origin(co['rv']['ops'][0]) if co['rv']['ops'] else {'o': '?'}
                        tys = sorted([calls[0][1]['args'][0].get('ty', ''), calls[0][1]['args'][1].get('ty', '')])
                        item_ok = (a0['o'] == 'arg' and a0['l'] == 2) or (a1['o'] == 'arg' and a1['l'] == 2)
                        cap_ok = cap['o'] == 'arg' and cap['l'] == 2 and any('Transform2' in x for x in tys)
                        ok = item_ok and cap_ok
                        why = 'closure = |i| i * transform' if ok else 'the closure does not multiply its item by the transform argument'
        if not ok:
            # by value: the result's items are the sequence { x * transform | x in self.items }, all of them, in order —
            # however it is built (map/collect, with_capacity + extend, a push loop)
            okv, whyv = _transform_by_value(f, b, adt)
            if okv:
                ok, why = True, whyv
        rep.check(ok, rule, 'shape-transform-moves-every-component:%s' % adt, where(b), why,
                  'Shape::transform of %s does not move every component by the given transform: %s' % (adt, why))
    rep.floor(rule, 'Shape::transform impls', n, len(adts))


def _ops(ctx):
    shape_transform_obligations(ctx, 'R5', ALL_SHAPES[:2])
    rep, f = ctx.rep, ctx.facts
    for fname, fields, pts in (('atom2_ops.rs', ['radius'], ['position']), ('line2_ops.rs', [], ['start', 'end'])):
        # (selected by what they are — `impl Mul<..Transform2..> for ..Atom2..` and the reverse — not by the file they live in)
        comp = {'atom2_ops.rs': 'atom2::Atom2', 'line2_ops.rs': 'line2::Line2'}[fname]
        bodies = [b for b in f.bodies.values() if b.fn_name == 'mul' and not b.is_closure and (b.impl_trait or '').endswith('ops::Mul') and
                  'transform::Transform2' in b.path and comp in b.path]
        rep.floor('R5', 'Mul impls in %s' % fname, len(bodies), 8)
        for b in bodies:
            rep.saw(b)
            n = Norm()
            sx = SymEx(f)
            names = ['T' if 'Transform2' in b.local_ty(i) else 'P' for i in (1, 2)]
            outs = sx.run(b, [SYM(nm) for nm in names])
            ok = len(outs) == 1 and sorted(names) == ['P', 'T']
            why = ''
            if ok:
                try:
                    r = sx.deep(outs[0].st, outs[0].ret)
                    for fl in fields:
                        ok &= n.rf(sfield(r, fl)).equals(n.atom('P.' + fl))
                    e = lambda i, j: n.atom('T.0[%d,%d]' % (i, j))
                    for pt in pts:
                        px, py = n.atom('P.%s.x' % pt), n.atom('P.%s.y' % pt)
                        v = sfield(r, pt)
                        ok &= n.rf(sfield(v, 'x')).equals(e(0, 0) * px + e(0, 1) * py + e(0, 2))
                        ok &= n.rf(sfield(v, 'y')).equals(e(1, 0) * px + e(1, 1) * py + e(1, 2))
                except (NotNumeric, TypeError, AttributeError) as ex:
                    ok, why = False, str(ex)[:80]
            rep.check(ok, 'R5', 'component-moved-rigidly:%s' % b.path, where(b),
                      '%s = T * %s; %s unchanged' % (pts, pts, fields or 'no scalar fields'),
                      'transforming a component does not move every point by T / changes its size %s' % why)


def run(ctx):
    _run_rules(ctx)
    from .common import import_obligations
    # a radial polygon is the closed polygon through its radial vertices (C02.R4)
    import_obligations(ctx, 'C02', 'R6', only_rules={'R4'}, floor=1, only_instances=lambda k: 'radial' in k or 'polygon' in k)
    _trimer_siblings(ctx)


def _trimer_siblings(ctx):
    """R7: the two trimer constructors (hard discs, Lennard-Jones particles) build ONE geometry from (radius, angle, distance): the
    same three centres, and disc radius = sigma / 2 particle by particle (the central particle of unit radius, the two outer
    ones of the given radius).  Sibling implementations of one interface must agree; a slip in either is a shape nobody asked for."""
    from ..sym import SYM, SymEx, sfield
    from ..terms import Norm, NotNumeric
    rep, f = ctx.rep, ctx.facts
    got = {}
    for adt, key in (('shape::molecular_shape2::MolecularShape2', 'hard'), ('shape::lj_shape::LJShape2', 'lj')):
        b = f.one(self_adt=adt, name='from_trimer')
        if b is None:
            continue
        rep.saw(b)
        sx = SymEx(f)
        try:
            outs = sx.run(b, [SYM('radius'), SYM('angle'), SYM('distance')])
        except Exception:      # noqa: BLE001
            outs = []
        if len(outs) != 1 or sx.aborted:
            continue
        r = sx.deep(outs[0].st, outs[0].ret)
        items = sx.as_seq(outs[0].st, sfield(r, 'items')) if isinstance(r, tuple) and r[0] == 'struct' and sfield(r, 'items') is not None else None
        if items is None:
            # the field may have another name: the one sequence-valued field
            seqs = [v for k, v in (r[3] if isinstance(r, tuple) and r[0] == 'struct' else []) if isinstance(v, tuple) and v[0] == 'seq']
            items = list(seqs[0][1]) if len(seqs) == 1 else None
        if items is not None:
            got[key] = (b, [sx.deep(outs[0].st, it) for it in items])
    if len(got) != 2:
        # a cross-check between siblings: where one of them does not evaluate to a plain list of particles (a fallible
        # constructor, a validating wrapper) there is nothing to compare, and nothing is claimed
        rep.note('R7: the two from_trimer constructors could not both be evaluated by value (%s); not compared' % sorted(got))
        return
    n = Norm()
    (bh, hard), (bl, lj) = got['hard'], got['lj']
    ok = len(hard) == len(lj) == 3
    why = '%d discs, %d particles' % (len(hard), len(lj))
    if ok:
        try:
            for i, (h, l) in enumerate(zip(hard, lj)):
                hp, lp = sfield(h, 'position'), sfield(l, 'position')
                if not (n.rf(sfield(hp, 'x')).equals(n.rf(sfield(lp, 'x'))) and n.rf(sfield(hp, 'y')).equals(n.rf(sfield(lp, 'y')))):
                    ok, why = False, 'particle %d sits at different places in the two shapes' % i
                    break
                if not (n.rf(sfield(l, 'sigma')).equals(n.rf(sfield(h, 'radius')) * n.rf(('num', 2)))):
                    ok, why = False, 'particle %d: disc radius %s but sigma %s (sigma = 2 * radius expected)' % (
                        i, n.rf(sfield(h, 'radius')).canon()[:40], n.rf(sfield(l, 'sigma')).canon()[:40])
                    break
            else:
                why = 'three particles, same centres, sigma = 2 * radius each'
        except (NotNumeric, TypeError, AttributeError) as ex:
            ok, why = False, 'not comparable: %s' % str(ex)[:80]
    rep.check(ok, 'R7', 'trimer-constructors-agree', where(bh), why,
              'MolecularShape2::from_trimer and LJShape2::from_trimer do not build the same geometry: %s' % why)
