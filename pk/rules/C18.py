"""C18 — the temperature follows the requested annealing schedule."""
from ..absval import AbsEval, F, IVL
from ..anchors import AnchorLost, OptimiserAnchors
from ..harness import where
from ..optmodel import build_families, loop_range, mir_expr, subst_syms
from ..sym import NUM, SYM
from ..terms import Norm, NotNumeric
from .C05 import fam_label

LEVEL = 'other'
EXPLANATION = ('(R1) the schedule variable has exactly one update, kT <- kT * self.kt_ratio, located in the outer '
               'loop but not the inner loop and on every path from the inner loop\'s exit to the outer latch. (R2) the '
               'builder is executed symbolically per configuration family; the stored factor must equal 1 - ratio, or '
               'powf(finish/kt_start, 1/L) where L is the outer loop\'s own trip-count expression lifted from the '
               'stepping function and rewritten through the builder\'s field assignments (defining equation '
               'factor^L = finish/kt_start).')


def _run_rules(ctx):
    rep, f = ctx.rep, ctx.facts
    rep.trust('pk/sym.py, pk/poly.py; RangeInclusive::new(lo, hi) yields hi-lo+1 items')
    try:
        oa = OptimiserAnchors(f)
    except AnchorLost as e:
        rep.fail('R0', 'anchor:stepping-function', '', str(e), 'anchor-lost')
        return
    b, cfg, tr = oa.body, oa.cfg, oa.tr
    rep.saw(b)
    kt_l = oa.arg_local(oa.dec_args.get('kt'), scope='outer') if oa.dec_args.get('kt') else None
    if not rep.check(kt_l is not None and oa.outer is not None, 'R1', 'anchor:schedule-variable-and-loops',
                     where(b, oa.decision_bb), 'kt=_%s, two nested loops' % kt_l,
                     'cannot identify the temperature local / the two nested loops', 'anchor-lost'):
        return
    inner, outer = oa.inner, oa.outer
    defs = [d for d in oa.defs.of(kt_l) if d[0] in cfg.reach]
    inits = [d for d in defs if d[0] not in outer['body']]
    upd = [d for d in defs if d[0] in outer['body']]
    ok_init = len(inits) == 1 and inits[0][2] == 'assign' and inits[0][3]['r'] == 'use' and \
        oa.self_field(inits[0][3]['a']) == 'kt_start'
    rep.check(ok_init, 'R1', 'initial-temperature-is-kt_start', where(b, inits[0][0]) if inits else where(b),
              'kT := self.kt_start before the loops', 'the schedule variable is not initialised (once) from kt_start')
    rep.check(len(upd) == 1, 'R1', 'one-cooling-update', where(b, upd[0][0]) if upd else where(b),
              'one update of kT inside the loops', 'the temperature is updated %d times per outer iteration' % len(upd))
    ratio_field = None
    if len(upd) == 1:
        ubb, usi, kind, rv = upd[0]
        if kind == 'assign' and rv['r'] == 'use' and 'l' in rv['a']:
            # the product may reach the variable through temporaries (a helper's or closure's return slot)
            uo = tr.origin(rv['a'])
            if uo['o'] == 'rvalue' and not uo['p']:
                rv = uo['rv']
        okm = kind == 'assign' and rv['r'] == 'binop' and rv['op'] == 'Mul'
        if okm:
            ops = [rv['a'], rv['b']]
            selfs = [o for o in ops if oa.arg_local(o, scope='outer') == kt_l]
            flds = [oa.self_field(o) for o in ops if oa.self_field(o)]
            okm = len(selfs) == 1 and len(flds) == 1
            ratio_field = flds[0] if flds else None
        rep.check(okm, 'R1', 'cooling-is-multiplication-by-the-stored-factor', where(b, ubb, usi),
                  'kT <- kT * self.%s' % ratio_field, 'the temperature update is not kT * <optimiser field>')
        rep.check(ubb in outer['body'] and ubb not in inner['body'], 'R1', 'cooling-between-inner-loops', where(b, ubb, usi),
                  'in the outer loop body, outside the inner loop',
                  'the temperature is changed inside the inner loop: it is not constant within an inner loop')
        # once per outer iteration: no way round the outer loop misses the update
        bad = outer['header'] in cfg.reachable_after(outer['header'], avoid={ubb})
        rep.check(not bad, 'R1', 'cooling-on-every-outer-iteration', where(b, ubb, usi),
                  'every way round the outer loop passes through the update',
                  'an outer iteration can complete without cooling')
        # the temperature a decision sees is the one of ITS outer iteration: the value is read before this iteration's update
        # (update at the end of the iteration: the read is in the next iteration; update at its start, as a generator does: the
        # read is a snapshot taken before it) — a read after the update in the same iteration would shift the schedule by one
        karg = oa.dec_args['kt']
        reads = []          # (bb, stmt index) of the statements that copy kT into the value the decision receives
        if karg.get('l') == kt_l and not karg.get('p'):
            reads.append((oa.decision_bb, 10 ** 6))
        for rbi in sorted(cfg.reach):
            for rsi, s2 in enumerate(b.blocks[rbi]['stmts']):
                if s2['s'] != 'assign' or s2['place']['p'] or s2['rv'].get('r') != 'use' or s2['rv']['a'].get('l') != kt_l or \
                        s2['rv']['a'].get('p'):
                    continue
                web = {s2['place']['l']}
                grew = True
                while grew:
                    grew = False
                    for bb3 in b.blocks:
                        for s3 in bb3['stmts']:
                            if s3['s'] != 'assign' or s3['place']['l'] in web or s3['place']['l'] == kt_l:
                                continue
                            rv3 = s3['rv']
                            srcs = []
                            if rv3['r'] in ('use', 'cast') and 'l' in rv3.get('a', {}):
                                srcs = [rv3['a']['l']]
                            elif rv3['r'] == 'aggr':
                                srcs = [o3['l'] for o3 in rv3['ops'] if 'l' in o3]
                            elif rv3['r'] == 'ref':
                                srcs = [rv3['place']['l']]
                            if any(x in web for x in srcs):
                                web.add(s3['place']['l'])
                                grew = True
                if karg.get('l') in web:
                    reads.append((rbi, rsi))
        shifted = False
        read_bb = oa.decision_bb
        for rbi, rsi in reads:
            if rbi == ubb:
                late = isinstance(usi, int) and rsi > usi
            else:
                late = rbi in cfg.reachable_after(ubb, avoid={outer['header']})
            if late:
                shifted, read_bb = True, rbi
        rep.check(not shifted, 'R1', 'decision-sees-the-temperature-of-its-iteration', where(b, read_bb),
                  'kT is read for the decision before the update of the same outer iteration',
                  'the decision reads kT after the cooling step of the same outer iteration: the first inner loop already runs at '
                  'kt_start * factor (schedule shifted by one)')
        rep.sample('%s: kT=_%d; init from kt_start; single update kT*self.%s in bb%d (outer loop, after inner loop bb%d exits)'
                   % (b.path, kt_l, ratio_field, ubb, inner['header']))
    # ---- R2 the factor -------------------------------------------------------------------
    fams, err, bb = build_families(f)
    if not rep.check(fams is not None, 'R2', 'anchor:builder', where(bb) if bb else 'optimisation', 'evaluated', err or '',
                     'anchor-lost' if bb is None else 'undecidable-shape'):
        return
    rep.saw(bb)
    rng = loop_range(oa, outer)
    if not rep.check(rng is not None, 'R2', 'outer-loop-trip-count', where(b, outer['header']), 'range loop',
                     'the outer loop is not a range loop whose trip count can be lifted', 'undecidable-shape'):
        return
    kind, lo, hi, _ = rng
    lo_e, hi_e = mir_expr(tr, lo), mir_expr(tr, hi)
    if not rep.check(lo_e is not None and hi_e is not None, 'R2', 'outer-loop-bounds', where(b, outer['header']),
                     'bounds are expressions over optimiser fields', 'cannot lift the outer loop bounds', 'undecidable-shape'):
        return
    trip = ('bin', 'Sub', hi_e, lo_e)
    if kind == 'inclusive':
        trip = ('bin', 'Add', trip, NUM(1))
    n = Norm()
    done = set()
    n_formula = 0
    for fam in fams:
        lab = fam_label(fam['family'])
        fields = fam['fields']
        if ratio_field is None or ratio_field not in fields:
            rep.fail('R2', 'stored-factor-field', where(bb), 'the builder does not set the field multiplied into kT', 'anchor-lost')
            return
        expr = fields[ratio_field]
        try:
            got = n.rf(expr)
        except NotNumeric as e:
            rep.fail('R2', 'factor-numeric:' + lab, where(bb), 'non-numeric factor: %s' % e, 'undecidable-shape')
            continue
        key = (lab, got.canon())
        if key in done:
            continue
        done.add(key)
        mapping = {'F.' + k: v for k, v in fields.items()}
        L = n.rf(subst_syms(trip, mapping))
        if fam['family'].get('kt_ratio') == 'Some':
            r = n.atom('self.kt_ratio#Some.0')
            # 1 - r, possibly floored at 0: the same factor for every ratio in [0, 1]; beyond 1 the floor is what keeps the
            # temperature from changing sign (C05: a zero temperature must stay +0)
            want = n.const(1) - r
            floored = n.fn('max', n.const(0), want, commutative=True)
            rep.check(got.equals(want) or got.equals(floored), 'R2', 'factor:kt_ratio=Some', where(bb),
                      'factor = 1 - kt_ratio%s' % (' (floored at 0)' if got.equals(floored) else ''),
                      'with a cooling ratio r the factor is %s, expected 1 - r' % got.canon()[:200])
            n_formula += 1
        elif fam['family'].get('kt_finish') == 'Some':
            if fam['family'].get('kt_ratio') != 'None' and not got.is_const_like():
                # this path never asked whether a ratio was given: it also serves configurations with a ratio, and for those
                # the factor must be 1 - kt_ratio (the ratio has precedence over the finishing temperature)
                rep.fail('R2', 'factor:kt_ratio=Some', where(bb),
                         'a configuration with both kt_ratio and kt_finish reaches the factor %s: the given ratio is ignored '
                         '(the property requires 1 - kt_ratio whenever a ratio is given)' % got.canon()[:160])
                n_formula += 1
                continue
            # degenerate arms (kt_start = 0, no loops) are not bound by the defining equation
            env = {'self.kt_start': F('ps', '1', 'pb'), 'self.kt_finish#Some.0': F('ps', '1', 'pb'),
                   'self.steps': IVL(1, 2 ** 64 - 1), 'self.inner_steps': IVL(1, 2 ** 64 - 1)}
            feasible = True
            for c in fam.get('pc', []):
                pass
            fin = n.atom('self.kt_finish#Some.0')
            k0 = n.atom('self.kt_start')
            ref = n.fn('powf', fin / k0, n.const(1) / L)
            okf = got.equals(ref)
            if not okf and got.is_const_like():
                rep.note('family %s has a constant factor arm %s (degenerate-configuration guard)' % (lab, got.canon()))
                continue
            n_formula += 1
            rep.check(okf, 'R2', 'BuildOptimiser::build/exponent-vs-trip-count', where(bb),
                      'factor = powf(kt_finish/kt_start, 1/L), L = %s' % L.canon(),
                      'the factor is %s but it is applied L = %s times (once per outer loop): factor^L != '
                      'kt_finish/kt_start, the finishing temperature is never approached' % (got.canon()[:200], L.canon()[:120]))
            rep.sample('kt_finish family: factor=%s ; outer trip count L=%s' % (got.canon()[:160], L.canon()[:120]))
        else:
            rep.note('family %s (neither ratio nor finish): factor %s — unspecified by the property' % (lab, got.canon()))
    rep.floor('R2', 'factor formulas checked', n_formula, 2, where(bb))
    # ---- R3 a zero temperature stays zero (same abstract model as C05.R1/R2) ------------------------------
    from .C05 import zero_stays_zero
    zero_stays_zero(ctx, oa, fams, bb, kt_l, 'R3', 'R3', key_prefix='zero-stays-zero:')


def run(ctx):
    _run_rules(ctx)
    # R4: setter fidelity of the builder (the requested schedule is the one handed to build())
    from .common import builder_setters
    builder_setters(ctx, 'R4', ['kt_start', 'kt_finish', 'kt_ratio'])
    from .common import import_obligations
    # the scheduled temperature is the one the acceptance probability is evaluated at (C07.R3)
    import_obligations(ctx, 'C07', 'R5', only_rules={'R3'}, floor=1)
