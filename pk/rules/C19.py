"""C19 — no Monte-Carlo move is larger than the configured maximum step."""
from ..absval import F, IVL, show
from ..anchors import AnchorLost, OptimiserAnchors, is_trait_call
from ..harness import where
from ..mirutil import Tracer, call_matches, field_path
from ..optmodel import LocalFix, U64, build_families, field_values
from ..sym import NUM, SYM, SymEx
from ..terms import Norm, NotNumeric
from fractions import Fraction

LEVEL = 'other'
EXPLANATION = ('(R1) the step argument of set_sampled is max_step_size * m; the abstract value of m in the stepping '
               'function (least fixpoint over all its definitions = every rejection history and any number of outer '
               'loops, IEEE float classes) must be within [+0, 1]. (R2) Basis::sample is executed symbolically: '
               'value + step*(max-min)*U with U = gen_range(-1/2, 1/2) on the passed generator. (R3) one parameter '
               'per proposal is C06.R1.')


def _run_rules(ctx):
    rep, f = ctx.rep, ctx.facts
    rep.trust('pk/absval.py, pk/optmodel.py, pk/sym.py; rand: gen_range(lo,hi) returns a value in [lo,hi)')
    try:
        oa = OptimiserAnchors(f)
    except AnchorLost as e:
        rep.fail('R0', 'anchor:stepping-function', '', str(e), 'anchor-lost')
        return
    b, tr = oa.body, oa.tr
    rep.saw(b)
    ss_bb, ss_t = oa.set_sampled_calls[0]
    step_op = ss_t['args'][2] if len(ss_t['args']) > 2 else None
    o = tr.origin(step_op) if step_op else {'o': 'none'}
    mult = None
    if o['o'] == 'rvalue' and o['rv']['r'] == 'binop' and o['rv']['op'] == 'Mul':
        ops = [o['rv']['a'], o['rv']['b']]
        flds = [oa.self_field(x) for x in ops]
        if flds.count('max_step_size') == 1:
            other = ops[1 - flds.index('max_step_size')]
            mult = other
    elif o['o'] == 'arg' and o['l'] == 1 and field_path(o['p']) == ['max_step_size']:
        mult = 'none'
    if not rep.check(mult is not None, 'R1', 'step-is-max_step_size-times-multiplier', where(b, ss_bb),
                     'step = self.max_step_size * m', 'the step passed to set_sampled is not max_step_size times a multiplier',
                     'undecidable-shape'):
        return
    fams, err, bb = build_families(f)
    if not rep.check(fams is not None, 'R1', 'anchor:builder', where(bb) if bb else 'optimisation', 'evaluated', err or '',
                     'anchor-lost' if bb is None else 'undecidable-shape'):
        return
    env = {'self.kt_start': F('+0', 'ps', '1', 'pb'), 'self.kt_finish#Some.0': F('+0', 'ps', '1', 'pb'),
           'self.kt_ratio#Some.0': F('+0', 'ps', '1'), 'self.steps': U64, 'self.inner_steps': U64,
           'self.max_step_size': F('+0', 'ps', '1', 'pb'), 'self.seed#Some.0': U64}
    if mult == 'none':
        rep.ok('R1', 'optimise_state/step_ratio-unbounded', where(b, ss_bb), 'no adaptive multiplier: step = max_step_size')
    else:
        worst = frozenset()
        from ..optmodel import feasible
        for fam in fams:
            if not feasible(fam, env):
                continue
            fv = field_values(fam['fields'], env)
            lf = LocalFix(b, fv)
            v = lf.read(mult)
            if v is None or v[0] != 'f':
                worst = None
                break
            worst = worst | v[1]
        ok = worst is not None and worst <= frozenset(('+0', 'ps', '1'))
        how = 'flow-insensitive fixpoint'
        if not ok:
            # second, flow-sensitive analysis (branch refinement): either proof suffices, both are sound
            from ..flowai import FlowAI
            worst2 = frozenset()
            for fam in fams:
                if not feasible(fam, env):
                    continue
                fv = field_values(fam['fields'], env)
                fa = FlowAI(b, fv)
                v = fa.value_of_operand_at(ss_bb, mult)
                if v is None or v[0] != 'f' or not fa.converged:
                    worst2 = None
                    break
                worst2 = worst2 | v[1]
            if worst2 is not None and worst2 <= frozenset(('+0', 'ps', '1')):
                ok, worst, how = True, worst2, 'flow-sensitive abstract interpretation with branch refinement'
            elif worst2 is not None and worst is not None:
                worst = worst & worst2 if (worst & worst2) else worst
        rep.check(ok, 'R1', 'optimise_state/step_ratio-unbounded', where(b, ss_bb),
                  'multiplier in %s on every history (%s)' % (show(('f', worst)) if worst is not None else '?', how),
                  'the step multiplier can take values in %s: after a loop with few rejections the factor '
                  'inner_steps/(rejections+1) > 1 is multiplied in with no cap, so moves exceed max_step_size '
                  '(and every proposal then clamps to a bound)' % (show(('f', worst)) if worst is not None else 'unknown'))
        rep.sample('step multiplier abstract value over all histories: %s' % (show(('f', worst)) if worst is not None else '?'))
    # ---- R2 sample formula ------------------------------------------------------------------
    sb = f.one(self_adt='basis::StandardBasis', trait='Basis', name='sample')
    ssb = f.one(self_adt='basis::StandardBasis', trait='Basis', name='set_sampled')
    if not rep.check(sb is not None and ssb is not None, 'R2', 'anchor:Basis::sample', 'basis::StandardBasis', 'found',
                     'StandardBasis::sample / set_sampled not found', 'anchor-lost'):
        return
    rep.saw(sb)
    rep.saw(ssb)
    sx = SymEx(f)
    names = [sb.local_name(i) or 'a%d' % i for i in sb.args()]
    outs = sx.run(sb, [SYM(nm) for nm in names])
    ok = len(outs) == 1 and not sx.aborted
    why = 'sample is not a single loop-free path'
    if ok:
        n = Norm()
        ret = outs[0].ret
        draws = []

        def walk(v):
            if isinstance(v, tuple):
                if v[0] == 'app' and 'gen_range' in v[1]:
                    draws.append(v)
                for x in v[1:]:
                    if isinstance(x, tuple):
                        walk(x)
        walk(ret)
        if len(draws) != 1:
            ok, why = False, 'sample draws %d random numbers' % len(draws)
        else:
            d = draws[0]
            args = d[2]
            lo_hi = [a for a in args if a[0] == 'num']
            rng_ok = any(a == SYM(names[1]) for a in args)
            if sorted(x[1] for x in lo_hi) != [Fraction(-1, 2), Fraction(1, 2)] or not rng_ok:
                ok, why = False, 'the draw is not gen_range(-0.5, 0.5) on the passed generator: %r' % (args,)
            else:
                try:
                    U = n.rf(d)
                    val = n.atom('self.value.value')
                    from ..celltables import bound_places
                    bp = bound_places(f) or ('self.min', 'self.max')
                    ref = val + n.atom(names[2]) * (n.atom(bp[1]) - n.atom(bp[0])) * U
                    got = n.rf(ret)
                    ok = got.equals(ref)
                    why = 'sample = %s, expected value + step*(max-min)*U' % got.canon()[:200]
                except NotNumeric as e:
                    ok, why = False, str(e)[:100]
    rep.check(ok, 'R2', 'sample-is-value-plus-step-times-range-times-U', where(sb),
              'sample = value + step*(max-min)*U, U=gen_range(-1/2,1/2): |move| <= step*range/2', why)
    t = Tracer(ssb)
    sc = [(bi, tt) for bi, tt in ssb.calls() if is_trait_call(tt, 'Basis', 'sample')]
    sv = [(bi, tt) for bi, tt in ssb.calls() if is_trait_call(tt, 'Basis', 'set_value')]
    ok = len(sc) == 1 and len(sv) == 1
    if ok:
        a = [t.origin(x) for x in sc[0][1]['args']]
        ok = a[0].get('l') == 1 and a[1].get('l') == 2 and a[2].get('l') == 3 and a[2]['o'] == 'arg'
        v = t.origin(sv[0][1]['args'][1])
        ok = ok and v['o'] == 'call' and v['bb'] == sc[0][0]
    ds = None
    if not ok and not sv:
        from .common import direct_sampler
        ds = direct_sampler(ctx)
        ok = ds is not None and ds['ok']
    rep.check(ok, 'R2', 'set_sampled-sets-the-sample', where(ssb), ds['why'] if ds else 'set_value(sample(rng, step_size))',
              'set_sampled does not set exactly sample(rng, step_size) with the step it was given' + (('; ' + ds['why']) if ds else ''))
    rep.note('R3 (one parameter per proposal) is decided by C06.R1; the clamp can only shorten a move (C08.R2)')
    # R3: a rejected move must be undone EXACTLY: an undo that restores a stale value leaves the state one (or two) steps away
    # from the last accepted one, and the next proposal is then larger than one step from it (C06.R3 obligations, imported)
    from .common import import_obligations
    import_obligations(ctx, 'C06', 'R3', only_rules={'R3'}, floor=3)


def run(ctx):
    _run_rules(ctx)
    # R4: setter fidelity of the builder (the configured maximum is the one handed to build())
    from .common import builder_setters
    builder_setters(ctx, 'R4', ['max_step_size'])
    from .common import import_obligations
    # the step is scaled by max - min of the parameter: the declared ranges (C08.R3)
    import_obligations(ctx, 'C08', 'R5', only_rules={'R3'}, floor=5)

