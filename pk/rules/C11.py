"""C11 — output is faithful: JSON round-trips and the SVG shows the same structure (clauses)."""
import re

from ..anchors import is_trait_call
from ..cfg import CFG
from ..harness import where
from ..lineage import adaptor_chain, through
from ..mirutil import Tracer, call_matches, callee_name, const_value, field_path
from ..sym import SYM, SymEx, sfield

LEVEL = 'other'
EXPLANATION = ('(R1) for each of the 15 local types reachable from a state, the writer and reader generated/written for serde '
               'are compared at MIR level: the keys passed to serialize_field (values = the same-position fields of self), the '
               'keys the field visitor recognises and the keys visit_map requires must be the same set and cover every field; '
               'enum variant names likewise; SharedValue\'s manual pair writes one f64 (its own value) and reads one f64 '
               'unchanged into SharedValue::new. (R3) the SVG matrix(...) format template is decoded (rustc\'s byte template) and '
               'each placeholder\'s argument is traced to a constant matrix index: (0,0),(1,0),(0,1),(1,1),(0,2),(1,2). (R4) '
               'every #mol placement is to_cartesian_isometry(p) or an item of periodic_images(p, 1, false) with p from '
               'relative_positions(), in both state impls.')

STATE_TYPES = ['state::packed::PackedState', 'state::potential::PotentialState', 'wallpaper::Wallpaper', 'cell::Cell2',
               'cell::CrystalFamily', 'site::OccupiedSite', 'wallpaper::WyckoffSite', 'transform::Transform2', 'basis::SharedValue',
               'shape::line_shape::LineShape', 'shape::components::line2::Line2', 'shape::molecular_shape2::MolecularShape2',
               'shape::components::atom2::Atom2', 'shape::lj_shape::LJShape2', 'shape::components::lj2::LJ2']


def strs_in_call_args(body, *callee_suffixes):
    out = []
    t = Tracer(body)
    for bi, tt in body.calls():
        if callee_suffixes and not call_matches(tt, *callee_suffixes):
            continue
        for a in tt['args']:
            o = t.origin(a)
            if o['o'] == 'const' and 'str' in o['c']:
                out.append((bi, o['c']['str'], tt))
    return out


def decode_template(bs):
    """rustc fmt::Arguments byte template -> ([pieces], [arg index per placeholder]) (see core::fmt docs)."""
    pieces, args = [], []
    i = 0
    nxt = 0
    cur = ''
    while i < len(bs):
        n = bs[i]
        i += 1
        if n == 0:
            break
        if n < 0x80:
            cur += bytes(bs[i:i + n]).decode('utf-8', 'replace')
            i += n
        elif n == 0x80:
            ln = bs[i] | (bs[i + 1] << 8)
            i += 2
            cur += bytes(bs[i:i + ln]).decode('utf-8', 'replace')
            i += ln
        else:
            pieces.append(cur)
            cur = ''
            if n & 0x01:
                i += 4
            if n & 0x02:
                i += 2
            if n & 0x04:
                i += 2
            if n & 0x08:
                idx = bs[i] | (bs[i + 1] << 8)
                i += 2
            else:
                idx = nxt
            args.append(idx)
            nxt = idx + 1
    pieces.append(cur)
    return pieces, args


def parse_rust_bytes(dbg):
    m = re.search(r'b"(.*)"', dbg, re.S)
    if not m:
        return None
    s = m.group(1)
    out = []
    i = 0
    while i < len(s):
        c = s[i]
        if c == '\\':
            n = s[i + 1]
            if n == 'x':
                out.append(int(s[i + 2:i + 4], 16))
                i += 4
            else:
                out.append({'n': 10, 'r': 13, 't': 9, '0': 0, '\\': 92, '"': 34, "'": 39}[n])
                i += 2
        else:
            out.extend(c.encode('utf-8'))
            i += 1
    return out


def _run_rules(ctx):
    rep, f = ctx.rep, ctx.facts
    rep.trust('serde derive emits symmetric visitor code for the keys it is given; serde_json prints finite f64 with ryu '
              '(shortest round-trip); serde_json\'s reader is correctly rounded exactly when it is compiled with its '
              'float_roundtrip feature (its documentation; the default reader may be one ulp off); nalgebra/std types\' own serde impls')
    rep.assume('finite parameter values (JSON has no NaN/inf); file-system effects are not decided')
    _serde(ctx)
    _json_reader(ctx)
    _svg_matrix(ctx)
    _svg_placements(ctx)
    rep.note('R2: State::score impls read only fields of self and no global/nondeterministic source (C09.R2/R5), so equal '
             'fields give equal score and placements after a reload; "what is written is that object" is C10.R3')


def _json_reader(ctx):
    """R5: every float must survive.  The writer is exact (shortest round-trip digits); the reader returns the same bits only
    if it rounds correctly, which for serde_json is a build-configuration fact: the resolved feature set of the serde_json
    node in the crate's build graph."""
    rep, f = ctx.rep, ctx.facts
    if not rep.check(f.build is not None, 'R5', 'anchor:build-graph', 'Cargo.toml', 'cargo metadata resolved',
                     'no resolved build graph in the facts', 'facts-missing'):
        return
    nodes = [n for n in f.build['nodes'] if n['name'] == 'serde_json']
    users = [n['name'] for n in f.build['nodes'] if 'serde_json' in n['deps']]
    if not rep.check(len(nodes) >= 1 and f.build.get('root') in users, 'R5', 'anchor:serde_json-in-build-graph', 'Cargo.toml',
                     'serde_json %s is a dependency of %s' % ([n['version'] for n in nodes], f.build.get('root')),
                     'serde_json is not a direct dependency of the crate: the JSON codec is something else', 'anchor-lost'):
        return
    for n in nodes:
        rep.check('float_roundtrip' in n['features'], 'R5', 'json-reader-is-correctly-rounded', 'Cargo.toml [dependencies] serde_json',
                  'serde_json %s is built with features %s' % (n['version'], n['features']),
                  'serde_json %s is built with features %s: without float_roundtrip its number reader is not correctly rounded, so '
                  'reading back the shortest digits the writer printed can return a neighbouring f64 (e.g. 1.3971374395758567 reads '
                  'as 1.397137439575857): the reloaded state has different parameters, score and re-serialisation'
                  % (n['version'], n['features']))
    # the floats are written by serde_json's own f64 writer: no f64 of a state type is formatted to a string by hand
    bad = []
    for adt in STATE_TYPES:
        for b in _impl(f, adt, 'serde::ser::Serialize'):
            for bi, t in b.calls():
                nm = callee_name(t) or ''
                if 'serialize_str' in nm or 'collect_str' in nm or 'fmt::format' in nm or 'ToString' in nm:
                    # derived code passes field/variant NAMES through serialize_str-like calls only for unit variants
                    if not b.derived:
                        bad.append(where(b, bi))
    rep.check(not bad, 'R5', 'floats-written-by-the-json-writer', 'hand-written Serialize impls of state types',
              'no hand-written Serialize impl formats a value to a string', 'a hand-written Serialize impl writes a string: %s' % bad)


def _impl(f, adt, trait_canon):
    out = [b for b in f.bodies.values() if not b.is_closure and b.impl_trait_canon == trait_canon
           and f.norm(b.impl_self_adt or '') == adt]
    return out


def _enum_strings_by_value(f, adt, names):
    from ..sym import STRUCT
    short = adt
    wr = [b for b in f.bodies.values() if not b.is_closure and b.fn_name == 'from' and (b.impl_trait or '').endswith('convert::From')
          and 'String' in (b.raw['locals'][0]['ty']) and b.arg_count == 1 and f.norm(b.local_ty(1)) == short]
    rd = [b for b in f.bodies.values() if not b.is_closure and f.norm(b.impl_self_adt or '') == adt and
          ((b.fn_name == 'try_from' and 'TryFrom' in (b.impl_trait or '') and b.arg_count == 1 and 'String' in b.local_ty(1)) or
           (b.fn_name == 'from_str' and (b.impl_trait or '').endswith('FromStr')))]
    rd = sorted(rd, key=lambda b: b.fn_name != 'try_from')
    if len(wr) != 1 or not rd:
        return False, 'no String conversions found'
    written = {}
    for vi, v in enumerate(names):
        sx = SymEx(f)
        try:
            outs = sx.run(f.nest_form(wr[0], yields=False), [STRUCT(adt, (v, vi), [])])
        except Exception:      # noqa: BLE001
            return False, 'writer not evaluated'
        if len(outs) != 1 or sx.aborted:
            return False, 'writer not a single path for %s' % v
        r = sx.deep(outs[0].st, outs[0].ret)
        while isinstance(r, tuple) and r[0] == 'app' and r[1].rsplit('::', 1)[-1] in ('from', 'to_string', 'to_owned', 'into') and len(r[2]) == 1:
            r = r[2][0]
        if not (isinstance(r, tuple) and r[0] == 'str'):
            return False, 'the written name of %s is not a constant' % v
        written[v] = r[1]
    if len(set(written.values())) != len(names):
        return False, 'two variants are written with the same name: %s' % written
    for vi, v in enumerate(names):
        sx = SymEx(f)
        try:
            outs = sx.run(f.nest_form(rd[0], yields=False), [('str', written[v])])
        except Exception:      # noqa: BLE001
            return False, 'reader not evaluated'
        if len(outs) != 1 or sx.aborted:
            return False, 'reader(%r) is not a single path' % written[v]
        r = sx.deep(outs[0].st, outs[0].ret)
        got = None
        if isinstance(r, tuple) and r[0] == 'struct' and r[2] is not None and r[2][0] == 'Ok':
            pv = sfield(r, '0')
            if isinstance(pv, tuple) and pv[0] == 'struct' and pv[2] is not None:
                got = pv[2][0]
        if got != v:
            return False, 'variant %s is written as %r, which reads back as %s' % (v, written[v], got)
    return True, 'written through String::from(variant), read through %s: reader(writer(v)) = v for %s (by value)' % (rd[0].fn_name, names)


def _serde(ctx):
    rep, f = ctx.rep, ctx.facts
    n_ok = 0
    for adt in STATE_TYPES:
        tinfo = None
        for k, v in f.types.items():
            if v.get('kind') == 'adt' and v.get('path') == adt:
                tinfo = v
                break
        if not rep.check(tinfo is not None, 'R1', 'anchor:type:%s' % adt, adt, 'found', 'type not found', 'anchor-lost'):
            continue
        ser = [b for b in _impl(f, adt, 'serde::ser::Serialize') if b.fn_name == 'serialize']
        de = [b for b in _impl(f, adt, 'serde::de::Deserialize') if b.fn_name == 'deserialize']
        if not rep.check(len(ser) == 1 and len(de) == 1, 'R1', 'has-writer-and-reader:%s' % adt, adt, 'Serialize + Deserialize',
                         '%s has %d Serialize and %d Deserialize impls' % (adt, len(ser), len(de)), 'anchor-lost'):
            continue
        s, d = ser[0], de[0]
        rep.saw(s)
        rep.saw(d)
        nested = [b for b in f.bodies.values() if b.path.startswith(d.path.rsplit('>::deserialize', 1)[0] + '>::deserialize::')
                  or ((' for %s>::deserialize::__' % adt in b.path or ' for %s<' % adt in b.path) and '>::deserialize::__' in b.path)]
        variants = tinfo['variants']
        is_enum = tinfo.get('adt_kind') == 'Enum'
        if adt == 'basis::SharedValue' or not s.derived:
            _manual_pair(ctx, adt, s, d)
            n_ok += 1
            continue
        if is_enum:
            names = [v['name'] for v in variants]
            skeys = [x[1] for x in strs_in_call_args(s, 'serialize_unit_variant') if x[1] != adt.rsplit('::', 1)[-1]]
            vs = [b for b in nested if b.fn_name == 'visit_str']
            dkeys = [x[1] for b in vs for x in strs_in_call_args(b)]
            ok = sorted(set(skeys)) == sorted(names) and sorted(set(dkeys)) == sorted(names)
            if not ok and not skeys and not dkeys:
                # `#[serde(into = "String", try_from = "String")]`: written as String::from(variant), read back by
                # TryFrom<String> / FromStr.  By value, per variant: reader(writer(v)) = v and the written names are distinct
                okv, whyv = _enum_strings_by_value(f, adt, names)
                if okv:
                    rep.ok('R1', 'variant-names-agree:%s' % adt, where(s), whyv)
                    n_ok += 1
                    continue
                rep.fail('R1', 'variant-names-agree:%s' % adt, where(s),
                         'enum %s is written and read through string conversions that do not round-trip: %s' % (adt, whyv))
                n_ok += 1
                continue
            rep.check(ok, 'R1', 'variant-names-agree:%s' % adt, where(s), 'writer and reader use %s' % names,
                      'enum %s: writer emits %s, reader accepts %s, variants are %s' % (adt, sorted(set(skeys)), sorted(set(dkeys)), names))
            n_ok += 1
            continue
        fields = [fl['name'] for fl in variants[0]['fields']]
        if fields and fields[0].isdigit():
            # tuple / newtype struct
            okw = any(call_matches(t, 'serialize_newtype_struct', 'serialize_tuple_struct') for _, t in s.calls())
            okr = any(call_matches(t, 'deserialize_newtype_struct', 'deserialize_tuple_struct') for _, t in d.calls())
            vis = [b for b in nested if b.fn_name in ('visit_newtype_struct', 'visit_seq')]
            ts = Tracer(s)
            val_ok = False
            for _, t in s.calls():
                if call_matches(t, 'serialize_newtype_struct', 'serialize_tuple_struct'):
                    o = ts.origin(t['args'][-1])
                    val_ok = o['o'] == 'arg' and field_path(o['p']) == ['0']
            rep.check(okw and okr and bool(vis) and val_ok, 'R1', 'newtype-pair:%s' % adt, where(s),
                      'serialize_newtype_struct(&self.0) / deserialize_newtype_struct', 'newtype %s is not written/read symmetrically' % adt)
            n_ok += 1
            continue
        ts = Tracer(s)
        sk = []
        vals_ok = True
        for bi, t in s.calls():
            if call_matches(t, 'SerializeStruct::serialize_field', '::serialize_field'):
                ko = ts.origin(t['args'][1])
                vo = ts.origin(t['args'][2])
                key = ko['c'].get('str') if ko['o'] == 'const' else None
                sk.append(key)
                fp = field_path(vo.get('p', []))
                if not (vo['o'] == 'arg' and vo['l'] == 1 and len(fp) == 1 and len(sk) <= len(fields) and fp[0] == fields[len(sk) - 1]):
                    vals_ok = False
        nfield = None
        for bi, t in s.calls():
            if call_matches(t, 'Serializer::serialize_struct', '::serialize_struct'):
                o = ts.origin(t['args'][2])
                nfield = const_value(o['c']) if o['o'] == 'const' else None
                if nfield is None:
                    from ..optmodel import mir_expr
                    from ..celltables import eval_num
                    try:
                        e = mir_expr(ts, t['args'][2])
                        nfield = int(eval_num(e, {})) if e is not None else None
                    except (ValueError, KeyError, TypeError):
                        nfield = None
        vs = [b for b in nested if b.fn_name == 'visit_str']
        vm = [b for b in nested if b.fn_name == 'visit_map']
        dkeys = sorted({x[1] for b in vs for x in strs_in_call_args(b)})
        mkeys = sorted({x[1] for b in vm for x in strs_in_call_args(b, 'missing_field')})
        ok = len(sk) == len(fields) and len(set(sk)) == len(sk) and None not in sk and sorted(sk) == dkeys and set(mkeys) <= set(sk) \
            and nfield == len(fields) and vals_ok
        rep.check(ok, 'R1', 'fields-agree:%s' % adt, where(s),
                  'writer keys = reader keys = required keys = %s; each written from the same-position field' % sk,
                  'struct %s: fields %s; writer emits %s (count arg %s, values from matching fields: %s); field visitor accepts %s; '
                  'visit_map requires %s — a field is skipped, defaulted, renamed on one side only, or written from another field'
                  % (adt, fields, sk, nfield, vals_ok, dkeys, mkeys))
        rep.sample('%s: keys %s' % (adt, sk))
        n_ok += 1
    rep.floor('R1', 'types with a checked writer/reader pair', n_ok, 15)


def _manual_pair(ctx, adt, s, d):
    rep, f = ctx.rep, ctx.facts
    ts = Tracer(s)
    w = [(bi, t) for bi, t in s.calls() if call_matches(t, 'Serializer::serialize_f64', '::serialize_f64')]
    okw = len(w) == 1 and len([1 for _, t in s.calls() if 'serialize_' in (callee_name(t) or '')]) == 1
    if okw:
        o = ts.origin(w[0][1]['args'][1])
        okw = o['o'] == 'call' and call_matches(o['term'], 'SharedValue::get_value')
        if okw:
            r = ts.origin(o['term']['args'][0])
            okw = r['o'] == 'arg' and r['l'] == 1
    rep.check(okw, 'R1', 'manual-writer:%s' % adt, where(s), 'serialize_f64(self.get_value()) and nothing else',
              'the hand-written Serialize of %s does not write exactly its own value as one f64' % adt)
    td = Tracer(d)
    r = [(bi, t) for bi, t in d.calls() if call_matches(t, 'Deserializer::deserialize_f64', '::deserialize_f64')]
    okr = len(r) == 1
    vis_ok = False
    wrap_ok = False
    if okr:
        # the visitor type
        vty = r[0][1]['args'][1].get('ty', '') if len(r[0][1]['args']) > 1 else ''
        vis = [b for b in f.bodies.values() if b.fn_name == 'visit_f64' and b.impl_self_adt and f.norm(b.impl_self_adt) in vty.replace('packing::', '')]
        for vb in vis:
            rep.saw(vb)
            sx = SymEx(f)
            outs = sx.run(vb, [SYM('self'), SYM('value')])
            if len(outs) == 1:
                rr = sx.deep(outs[0].st, outs[0].ret)
                vis_ok = rr[0] == 'struct' and rr[2] and rr[2][0] == 'Ok' and sfield(rr, '0') == SYM('value')
        # result mapped through SharedValue::new
        ret = td.origin({'k': 'copy', 'l': 0, 'p': []})
        if ret['o'] == 'call' and call_matches(ret['term'], 'Result::<T, E>::map'):
            fn = ret['term']['args'][1]
            fo = td.origin(fn)
            nm = (fo.get('c', {}).get('resolved') or fo.get('c', {}).get('fn') or '') if fo['o'] == 'const' else ''
            wrap_ok = nm.replace('packing::', '').endswith('SharedValue::new')
            if not wrap_ok:
                # by value: the mapped function (a From impl, a closure, a helper) returns what SharedValue::new returns
                mb, margs = None, None
                if fo['o'] == 'const':
                    mb = f.body_of_fnconst(fo['c'])
                    margs = [SYM('val')]
                elif fo['o'] == 'rvalue' and fo['rv'].get('agg') == 'closure' and not fo['rv'].get('ops'):
                    mb = f.body(fo['rv']['closure'])
                    margs = [SYM('closure'), SYM('val')]
                snew = f.one(self_adt='basis::SharedValue', name='new')
                if mb is not None and snew is not None:
                    rep.saw(mb)
                    sx1, sx2 = SymEx(f), SymEx(f)
                    try:
                        o1, o2 = sx1.run(mb, margs), sx2.run(snew, [SYM('val')])
                        wrap_ok = len(o1) == 1 and len(o2) == 1 and not sx1.aborted and not sx2.aborted and \
                            repr(sx1.deep(o1[0].st, o1[0].ret)) == repr(sx2.deep(o2[0].st, o2[0].ret))
                    except Exception:      # noqa: BLE001
                        wrap_ok = False
            src = td.origin(ret['term']['args'][0])
            wrap_ok = wrap_ok and src['o'] == 'call' and src['bb'] == r[0][0]
    rep.check(okr and vis_ok and wrap_ok, 'R1', 'manual-reader:%s' % adt, where(d),
              'deserialize_f64(visitor returning its argument).map(SharedValue::new)',
              'the hand-written Deserialize of %s does not read one f64 unchanged into SharedValue::new '
              '(request f64: %s, visitor identity: %s, wrapped by new: %s)' % (adt, okr, vis_ok, wrap_ok))
    sn = f.one(self_adt='basis::SharedValue', name='new')
    if sn is not None:
        sx = SymEx(f)
        outs = sx.run(sn, [SYM('val')])
        ok = len(outs) == 1
        if ok:
            rr = sx.deep(outs[0].st, outs[0].ret)
            inner = sfield(rr, 'value')
            ok = inner is not None and inner[0] == 'app' and inner[1].endswith('UnsafeCell::new') and inner[2][0] == SYM('val')
        rep.check(ok, 'R1', 'SharedValue::new-stores-its-argument', where(sn), 'value: UnsafeCell::new(val)',
                  'SharedValue::new does not store exactly the value it is given')
    rep.sample('%s: one f64 out (get_value), the same f64 in (visit_f64 identity -> SharedValue::new)' % adt)


def _svg_matrix(ctx):
    rep, f = ctx.rep, ctx.facts
    b = None
    for x in f.bodies.values():
        if x.fn_name == 'as_svg' and x.impl_trait and f.norm(x.impl_trait).endswith('ToSVG') and \
                f.norm(x.impl_self_adt or '') == 'transform::Transform2':
            b = x
    if not rep.check(b is not None, 'R3', 'anchor:Transform2::as_svg', 'to_svg', 'found', 'ToSVG for Transform2 not found', 'anchor-lost'):
        return
    rep.saw(b)
    t = Tracer(b)
    news = [(bi, tt) for bi, tt in b.calls() if call_matches(tt, 'Arguments::<\'a>::new', 'fmt::Arguments::new', 'Arguments::new')]
    if not rep.check(len(news) == 1, 'R3', 'one-format-call', where(b), 'one format_args', 'expected one format!() in as_svg, found %d' % len(news),
                     'undecidable-shape'):
        return
    bi, tt = news[0]
    tpl = t.origin(tt['args'][0])
    bs = parse_rust_bytes(tpl['c'].get('dbg', '')) if tpl['o'] == 'const' else None
    if not rep.check(bs is not None, 'R3', 'template-readable', where(b, bi), 'byte template found', 'cannot read the format template',
                     'undecidable-shape'):
        return
    pieces, argidx = decode_template(bs)
    # the args array: aggregate array of Argument::new_display results
    arr = t.origin(tt['args'][1])
    slots = []
    if arr['o'] == 'rvalue' and arr['rv'].get('agg') == 'array':
        for op in arr['rv']['ops']:
            o = t.origin(op)
            rc = None
            if o['o'] == 'call' and call_matches(o['term'], 'Argument::<\'_>::new_display', 'new_display'):
                v, _ = through(t, o['term']['args'][0])
                if v['o'] == 'call' and '(usize, usize)' in (callee_name(v['term']) or ''):
                    ix = t.origin(v['term']['args'][1])
                    if ix['o'] == 'rvalue' and ix['rv']['r'] == 'aggr':
                        rc = tuple(const_value(x) for x in ix['rv']['ops'])
                    m = t.origin(v['term']['args'][0])
            slots.append(rc)
    order = [slots[i] if i < len(slots) else None for i in argidx]
    want = [(0, 0), (1, 0), (0, 1), (1, 1), (0, 2), (1, 2)]
    text_ok = ''.join(pieces).replace(' ', '') == 'matrix()' and pieces[0] == 'matrix(' and all(p == ' ' for p in pieces[1:-1]) \
        and pieces[-1] == ')'
    rep.check(order == want, 'R3', 'matrix-slot-order', where(b, bi), 'matrix(a b c d e f) <- m[%s]' % want,
              'the SVG matrix(a b c d e f) is filled with matrix entries %s, the SVG specification requires %s (column-major '
              '2x3)' % (order, want))
    rep.check(text_ok, 'R3', 'matrix-text', where(b, bi), 'pieces %s' % pieces, 'the transform attribute text is %s' % pieces)
    # the matrix printed is the transform's own matrix
    rep.sample('Transform2::as_svg: template pieces %s, placeholders -> entries %s' % (pieces, order))


def _svg_placements(ctx):
    rep, f = ctx.rep, ctx.facts
    k = 0
    for adt in ('state::packed::PackedState', 'state::potential::PotentialState'):
        b = None
        for x in f.bodies.values():
            if x.fn_name == 'as_svg' and not x.is_closure and x.impl_trait and f.norm(x.impl_trait).endswith('ToSVG') and \
                    f.norm(x.impl_self_adt or '') == adt:
                b = x
        if not rep.check(b is not None, 'R4', 'anchor:as_svg:%s' % adt, adt, 'found', 'ToSVG impl not found', 'anchor-lost'):
            continue
        rep.saw(b)
        k += 1
        # nest form: helpers unknown to the reference tree spliced in, fold/for_each written as loops (pk/loopform.py)
        b = f.nest_form(b, yields=False)
        t = Tracer(b)
        cfg = CFG(b)
        # items of relative_positions()
        def item_source(op):
            """Which iterator's next() does this value come from? -> name of the source call."""
            o, _ = through(t, op)
            if o['o'] == 'call' and call_matches(o['term'], '::next'):
                src, chain = adaptor_chain(t, o['term']['args'][0])
                if src['o'] == 'call':
                    return callee_name(src['term']), src
                for nm, tt, cbb in chain:
                    pass
            if o['o'] == 'call':
                return callee_name(o['term']), o
            return None, o
        n_iso = n_img = 0
        bad = []
        for bi, tt in b.calls():
            if bi not in cfg.reach or b.blocks[bi]['cleanup']:
                continue
            if call_matches(tt, 'Cell2::to_cartesian_isometry'):
                nm, _ = item_source(tt['args'][1])
                n_iso += 1
                if not (nm and nm.endswith('relative_positions')):
                    bad.append('to_cartesian_isometry applied to %s' % nm)
            if call_matches(tt, 'Cell2::periodic_images'):
                pos, _ = through(t, tt['args'][1])
                shells = const_value(t.origin(tt['args'][2]).get('c', {}))
                from .C14 import excludes_identity, flag_value
                zv = flag_value(t, tt['args'][3])
                nm, _ = item_source(tt['args'][1])
                if nm and nm.endswith('relative_positions'):
                    n_img += 1
                    if not (shells == 1 and zv is not None and excludes_identity(ctx, zv) is True):
                        bad.append('periodic_images(position, %s, %s): expected one shell without the untranslated image' % (shells, zv))
                elif nm and nm.endswith('Transform2::identity'):
                    if not (shells == 1 and zv is not None and excludes_identity(ctx, zv, want_all=True) is True):
                        bad.append('cell images periodic_images(identity, %s, %s): expected one shell with the untranslated image' % (shells, zv))
                else:
                    bad.append('periodic_images applied to %s' % nm)
            if is_trait_call(tt, 'ToSVG', 'as_svg') and 'Transform2' in (tt['args'][0].get('ty', '')):
                nm, o = item_source(tt['args'][0])
                if not (nm and (nm.endswith('to_cartesian_isometry') or nm.endswith('periodic_images'))):
                    bad.append('a <use> element is placed by %s (fractional coordinates / not the state\'s placement)' % nm)
        rep.check(not bad and n_iso == 1 and n_img == 1, 'R4', 'svg-placements:%s' % adt, where(b),
                  '#mol placements = to_cartesian_isometry(p) and periodic_images(p, 1, false), p in relative_positions()',
                  'the SVG of %s does not place the shape at the state\'s Cartesian transforms and their nearest images: %s '
                  '(isometry calls %d, image loops %d)' % (adt, bad[:3], n_iso, n_img))
    rep.floor('R4', 'state SVG impls', k, 2)


def run(ctx):
    _run_rules(ctx)
    from .common import import_obligations
    # what is drawn and written is the final state, to the .svg / .json paths (C10.R3)
    import_obligations(ctx, 'C10', 'R6', only_rules={'R3'}, floor=4)
    _glyphs(ctx)
    conversion_is_the_matrix(ctx, 'R7')
    _corners(ctx)
    # the images drawn are the lattice translates within one shell, each once (C14.R3)
    import_obligations(ctx, 'C14', 'R8', only_rules={'R3'}, floor=2)



def _xy_of(tr, op):
    """('x' | 'y' | None, base description) for an operand that reads a coordinate of a point / vector."""
    if 'l' not in op:
        return None, None
    o = tr.origin(op)
    fp = field_path(o.get('p', []))
    if not fp or fp[-1] not in ('x', 'y'):
        return None, None
    if o['o'] == 'call' and o['term']['args'] and 'l' in o['term']['args'][0]:
        # `p.x` of a nalgebra point / vector goes through Deref to the coordinate view: the base is what was dereferenced
        bo = tr.origin(o['term']['args'][0])
        if bo['o'] == 'call' and call_matches(bo['term'], 'Index<I>>::index', 'ops::Index::index') and len(bo['term']['args']) == 2:
            # `v[i].x` and `v[i].y` index twice: the same element if container and (constant) index agree
            co = tr.origin(bo['term']['args'][0])
            io = tr.origin(bo['term']['args'][1]) if 'l' in bo['term']['args'][1] else {'o': 'const', 'c': bo['term']['args'][1]}
            iv = const_value(io['c']) if io['o'] == 'const' else ('bb', io.get('bb'), io.get('l'))
            base = ('index', co['o'], co.get('l'), co.get('bb'), tuple(field_path(co.get('p', []))), iv, tuple(fp[:-1]))
        else:
            base = (bo['o'], bo.get('l'), bo.get('bb'), tuple(field_path(bo.get('p', []))), tuple(fp[:-1]))
    else:
        base = (o['o'], o.get('l'), o.get('bb'), tuple(fp[:-1]), ())
    return fp[-1], base


def _glyphs(ctx):
    """R7: the glyphs are drawn where the data says: an attribute named for an x (y) coordinate gets an x (y) coordinate, and the
    two components of every point handed to a path are the x and the y of ONE point, in that order."""
    rep, f = ctx.rep, ctx.facts
    XA = {'cx': 'x', 'x': 'x', 'x1': 'x', 'x2': 'x', 'cy': 'y', 'y': 'y', 'y1': 'y', 'y2': 'y'}
    n_attr = n_pts = 0
    for b in f.bodies.values():
        if b.is_closure or b.fn_name != 'as_svg' or 'ToSVG' not in (b.impl_trait or ''):
            continue
        tr = Tracer(b)
        short = f.norm(b.impl_self_adt or '').split('::')[-1]
        for bi, t in b.calls():
            nm = callee_name(t) or ''
            if nm.endswith('::set') and len(t['args']) == 3:
                ko = tr.origin(t['args'][1]) if 'l' in t['args'][1] else {'o': 'const', 'c': t['args'][1]}
                key = (ko.get('c') or {}).get('str') if ko['o'] == 'const' else None
                if key in XA:
                    n_attr += 1
                    got, _base = _xy_of(tr, t['args'][2])
                    rep.check(got == XA[key], 'R7', 'glyph-attribute:%s.%s' % (short, key), where(b, bi),
                              '%s <- a .%s coordinate' % (key, XA[key]),
                              'the SVG attribute `%s` of %s is set from %s: the glyph is not drawn where the shape\'s data puts it'
                              % (key, short, ('a .%s coordinate' % got) if got else 'something that is not a coordinate'))
            elif nm.endswith(('::move_to', '::line_to', '::line_by')) and len(t['args']) == 2 and 'l' in t['args'][1]:
                o = tr.origin(t['args'][1])
                if o['o'] == 'rvalue' and o['rv'].get('agg') == 'tuple' and len(o['rv']['ops']) == 2:
                    n_pts += 1
                    (c0, b0), (c1, b1) = _xy_of(tr, o['rv']['ops'][0]), _xy_of(tr, o['rv']['ops'][1])
                    rep.check(c0 == 'x' and c1 == 'y' and b0 == b1, 'R7', 'path-point:%s#%d' % (short, n_pts), where(b, bi),
                              '(p.x, p.y) of one point', 'a path of %s gets the point (%s, %s)%s: not the (x, y) of one point'
                              % (short, c0, c1, '' if b0 == b1 else ' of two different points'))
    rep.floor('R7', 'coordinate attributes of glyphs', n_attr, 4)
    rep.floor('R7', 'points handed to SVG paths', n_pts, 8)


def conversion_is_the_matrix(ctx, rule):
    """`Transform2 -> Matrix3` hands out the stored matrix itself (the SVG `matrix(..)` and every reader of a parsed operation go
    through it): not its transpose, inverse or a re-composition."""
    from ..sym import SYM, SymEx
    rep, f = ctx.rep, ctx.facts
    bs = [b for b in f.bodies.values() if not b.is_closure and b.fn_name in ('into', 'from') and
          f.norm(b.impl_self_adt or '') in ('transform::Transform2', 'nalgebra::Matrix', 'nalgebra::base::Matrix') and
          'Matrix' in (b.local_ty(0) or '') and 'Transform2' in (b.local_ty(1) if b.arg_count >= 1 else '')]
    if not rep.check(len(bs) >= 1, rule, 'anchor:Transform2-to-Matrix3', 'transform::Transform2', 'found',
                     'the conversion of a Transform2 into a Matrix3 was not found', 'anchor-lost'):
        return
    for b in bs:
        sx = SymEx(f)
        try:
            outs = sx.run(b, [SYM('self')])
        except Exception:      # noqa: BLE001
            outs = []
        ok = len(outs) == 1 and not sx.aborted
        why = 'not a single loop-free path'
        if ok:
            r = sx.deep(outs[0].st, outs[0].ret)
            # element-wise: result[i][j] is the stored matrix's [i][j]
            want = [[sx.mat_elem(outs[0].st, SYM('self'), i, j) for j in range(3)] for i in range(3)]
            got = [[sx.mat_elem(outs[0].st, r, i, j) for j in range(3)] for i in range(3)]
            ok = got == want
            why = 'result[0][1] = %s' % (repr(got[0][1])[:80],)
        rep.check(ok, rule, 'conversion-is-the-matrix:%s' % b.fn_name, where(b), 'returns the stored matrix element for element',
                  'the conversion of a Transform2 into a Matrix3 does not return the stored matrix (%s)' % why)


def _corners(ctx):
    """R7: the cell outline: get_corners yields the images of the four corners of the unit square centred on the origin under the
    cell's own lattice map, in cyclic order (neighbours differ in exactly one fractional coordinate).  By value: however the
    list is produced (literal, constant table, fill loop), each returned point equals to_cartesian(+-1/2, +-1/2)."""
    from ..sym import SYM, SymEx, sfield
    from ..terms import NotNumeric
    from .C14 import lattice, _tc
    rep, f = ctx.rep, ctx.facts
    b = f.one(self_adt='cell::Cell2', name='get_corners')
    if not rep.check(b is not None, 'R7', 'anchor:get_corners', 'cell::Cell2', 'found', 'Cell2::get_corners not found', 'anchor-lost'):
        return
    lat = lattice(f)
    if lat is None or lat.get('error'):
        rep.note('R7: the lattice map could not be lifted (%s); the cell outline is not compared' % ((lat or {}).get('error'),))
        return
    n = lat['n']
    sx = SymEx(f)
    try:
        outs = sx.run(b, [SYM('self')])
    except Exception:      # noqa: BLE001
        outs = []
    # (paths that differ only in whether a log line is written return the same list)
    rets = {repr(sx.deep(o.st, o.ret)) for o in outs}
    if not outs or len(rets) != 1 or sx.aborted:
        rep.fail('R7', 'cell-outline-corners', where(b), 'get_corners could not be evaluated to one list of points', 'undecidable-shape')
        return
    items = sx.as_seq(outs[0].st, outs[0].ret)
    pts = []
    try:
        for it in items or []:
            it = sx.deep(outs[0].st, it)
            pts.append((n.rf(sfield(it, 'x')), n.rf(sfield(it, 'y'))))
    except (NotNumeric, TypeError, AttributeError):
        pts = None
    if not pts or len(pts) != 4:
        rep.fail('R7', 'cell-outline-corners', where(b), 'get_corners does not return four points that can be compared by value',
                 'undecidable-shape')
        return
    half = n.const(1) * n.rf(('num', __import__('fractions').Fraction(1, 2)))
    sq = [(-1, -1), (-1, 1), (1, 1), (1, -1)]
    orders = []
    for start in range(4):
        for step in (1, -1):
            orders.append([sq[(start + step * k) % 4] for k in range(4)])
    ok = False
    for order in orders:
        good = True
        for (gx, gy), (sxn, syn) in zip(pts, order):
            ex, ey = _tc(lat, n, half * n.const(sxn), half * n.const(syn))
            if not (gx.equals(ex) and gy.equals(ey)):
                good = False
                break
        if good:
            ok = True
            break
    rep.check(ok, 'R7', 'cell-outline-corners', where(b), 'the four corners to_cartesian(+-1/2, +-1/2) in cyclic order',
              'the cell outline is not the image of the unit square under the cell\'s lattice map, corner by corner in cyclic order')
