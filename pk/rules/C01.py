"""C01 — a scored hard packing has no overlapping shapes anywhere (clauses only)."""
from ..anchors import is_trait_call
from ..cfg import CFG
from ..harness import where
from ..lineage import through
from ..loops import item_of, lift
from ..mirutil import Tracer, call_matches, callee_name, const_value, field_path
from ..pairloops import positions_frames
from ..sym import NUM, SYM
from ..terms import Norm, NotNumeric

LEVEL = 'other'
EXPLANATION = ('CLAUSES ONLY — this check does NOT decide that a scored state is overlap-free. It decides that no score '
               'escapes the overlap test (Some is dominated by the negative edge of the test), no positive result is dropped, '
               'the in-cell loop visits every unordered pair (enumerate + skip(index+1) over the same placements), the periodic '
               'loop is the full product placements x placements x periodic_images(p, shells, zero=false) with shells >= 1 on '
               'every path, the distance prefilter compares the squared centre distance with T where T - 4R^2 has only '
               'non-negative coefficients, and all operands are in the Cartesian frame. Whether the searched shells suffice '
               'for every cell is geometric and not decidable statically.')

ADT = 'state::packed::PackedState'


def _run_rules(ctx):
    rep, f, cg = ctx.rep, ctx.facts, ctx.cg
    rep.trust('pk/cfg.py dominators; adaptor-chain recognition; rayon/itertools not involved here')
    rep.assume('NOT DECIDED: that the number of searched shells (1..3 by the aspect/angle heuristic) suffices for every '
               'reachable cell — the property text reports counter-examples found by adversarial search; polygon-level geometry (C12)')
    sc = f.one(self_adt=ADT, trait='State', name='score')
    if not rep.check(sc is not None, 'R1', 'anchor:PackedState::score', ADT, 'found', 'hard State::score not found', 'anchor-lost'):
        return
    rep.saw(sc)
    cfg = CFG(sc)
    tr = Tracer(sc)
    # ---- R1 guard dominance ---------------------------------------------------------------
    somes = []
    for bi in sorted(cfg.reach):
        for si, s in enumerate(sc.blocks[bi]['stmts']):
            if s['s'] == 'assign' and s['place']['l'] == 0 and s['rv']['r'] == 'aggr' and s['rv'].get('variant') == 'Some':
                somes.append((bi, si))
    rep.floor('R1', 'Some(score) assignments in the hard score', len(somes), 1, where(sc))
    test_fn = None
    for bi, si in somes:
        ok = False
        why = 'no dominating overlap test found'
        for sb in sorted(cfg.reach):
            t = sc.blocks[sb]['term']
            if t['t'] != 'switch' or not cfg.dominates(sb, bi) or sb == bi:
                continue
            o = tr.origin(t['discr'])
            neg = False
            if o['o'] == 'rvalue' and o['rv']['r'] == 'unop' and o['rv']['op'] == 'Not':
                o = tr.origin(o['rv']['a'])
                neg = True
            if o['o'] != 'call':
                continue
            cb = f.body_of_fnconst(o['term']['func'])
            if cb is None:
                continue
            reaches = cg.path_to([cb.key_in_facts], lambda k: f.bodies[k].impl_trait is not None and
                                 f.norm(f.bodies[k].impl_trait).endswith('Intersect') and f.bodies[k].fn_name == 'intersects')
            recv = tr.origin(o['term']['args'][0]) if o['term']['args'] else {'o': '?'}
            if not reaches or not (recv['o'] == 'arg' and recv['l'] == 1):
                continue
            false_t = [x[1] for x in t['arms'] if x[0] == '0']
            true_t = t['otherwise']
            if not false_t:
                continue
            clean_t = true_t if neg else false_t[0]
            dirty_t = false_t[0] if neg else true_t
            if cfg.dominates(clean_t, bi) and clean_t != dirty_t and bi not in cfg.reachable_from([dirty_t], avoid={clean_t}):
                ok = True
                test_fn = cb
                why = 'Some(..) in bb%d is dominated by the "no overlap" edge (bb%d) of the test %s(self)' % (bi, clean_t, cb.path)
            else:
                why = 'the score is produced on the edge where the overlap test is POSITIVE (or on both edges)'
        rep.check(ok, 'R1', 'score-only-after-negative-overlap-test', where(sc, bi, si), why,
                  'a score can be produced without a negative overlap test: %s' % why)
    if test_fn is None:
        return
    rep.saw(test_fn)
    # ---- R2 positives propagate --------------------------------------------------------------
    b = test_fn
    from ..pairs import PairNests
    pl = PairNests(f, test_fn, 'Intersect', 'intersects')
    b = pl.b            # the nest form of the overlap function
    rep.floor('R2', 'Intersect::intersects call sites in the overlap function', len(pl.leafs), 2, where(b))
    # the function's answer is "some tested pair overlaps": true on every path that saw a positive test, false on every other
    okr, whyr = pl.n.bool_reduction([bi for bi, _ in pl.leafs])
    rep.check(okr, 'R2', 'positive-overlap-propagates', where(b),
              'the overlap function %s' % whyr,
              'a positive intersects() result can be lost or a negative one reported as overlap: the function %s' % whyr)
    # ---- R3 pair completeness (by value: which sequences the loops range over, what the operands are) -------
    for p in pl.problems:
        rep.fail('R3', 'loop-structure', where(b), p, 'undecidable-shape')
    tri, per = pl.tri, pl.per
    if rep.check(tri is not None, 'R3', 'anchor:in-cell-pair-loop', where(b), 'found', 'the in-cell pair loop was not recognised',
                 'undecidable-shape' if pl.leafs else 'anchor-lost'):
        rep.check(not tri['why'] and tri['c'] == 1, 'R3', 'in-cell-pairs-complete', where(b, tri['bb']),
                  'outer placement i over all relative positions, inner from i + 1 over the same: every unordered pair {i<j} exactly once',
                  'the in-cell loop does not visit every unordered pair of distinct copies: inner loop starts at index + %s %s'
                  % (tri['c'], '; '.join(tri['why'])))
        rep.sample('in-cell: intersects(T(C(x_i)), T(C(x_j))), x_i over relative_positions from 0, x_j from i+%s' % tri['c'])
    if rep.check(per is not None, 'R3', 'anchor:periodic-pair-loop', where(b), 'found', 'the periodic pair loop was not recognised',
                 'undecidable-shape' if pl.leafs else 'anchor-lost'):
        from .C14 import excludes_identity
        zs = [excludes_identity(ctx, z) for z in per.get('zero_values', [])]
        zero_ok = bool(zs) and all(z is True for z in zs)
        rep.check(not per['why'] and zero_ok, 'R3', 'periodic-pairs-complete', where(b, per['bb']),
                  'placements x relative_positions x periodic_images(p, shells, untranslated image excluded): all ordered pairs incl. '
                  'self-images',
                  'the periodic loop is not the full product over all images (untranslated image excluded: %s) %s'
                  % (zs, '; '.join(per['why'])))
        # ---- R4 shells >= 1 -----------------------------------------------------------------------
        vals = per.get('shell_values', [])
        okv = bool(vals) and all(v[0] == 'num' and v[1] >= 1 for v in vals)
        rep.check(okv, 'R4', 'shells-at-least-one', where(b, per['bb']),
                  'every value the shells argument can take is >= 1: %s' % sorted({int(v[1]) for v in vals if v[0] == 'num'}),
                  'the number of neighbouring shells searched can be %s: periodic overlaps with the nearest images are missed'
                  % sorted({(int(v[1]) if v[0] == 'num' else 'non-constant') for v in vals}, key=str))
        rep.sample('periodic: shells in %s, untranslated image excluded' % sorted({str(v[1]) for v in vals}))
        # ---- R5 prefilter ---------------------------------------------------------------------------
        _prefilter(ctx, pl, per)
    # ---- R7 known hard instances of the shell heuristic ---------------------------------------------------
    if per is not None:
        _shell_witnesses(ctx, pl, per, per.get('shell_cases'))
    # ---- R6 the radius used by the prefilter really encloses the shape ---------------------------------
    _enclosing(ctx)
    # the periodic images really are the lattice translates of the placements (C14 obligations, necessary here)
    from .C14 import import_into
    import_into(ctx, 'LATTICE')
    from .C12 import shape_transform_obligations
    from .C12 import ALL_SHAPES
    shape_transform_obligations(ctx, 'SHAPE', ALL_SHAPES[:2])
    # ---- FRAME ------------------------------------------------------------------------------------
    probs = positions_frames(f, ADT)
    rep.check(not probs, 'FRAME', 'placements-are-cartesian', ADT, 'cartesian_positions = relative_positions().map(to_cartesian_isometry); '
              'periodic_images receives fractional positions', 'coordinate frames are mixed: %s' % probs)


def _prefilter(ctx, pl, per):
    """Every condition that decides, inside the periodic nest, whether a pair is tested must be `d^2 <= T` (or `<`) with d the
    distance between the two placements' positions and T >= (2R)^2, R = the shape's enclosing radius."""
    rep = ctx.rep
    b = pl.b
    conds = [c for c in pl.prefilter_conditions(per)]
    deciding = [c for c in conds if c[2]]
    other = [c for c in conds if not c[2]]
    if not conds:
        rep.ok('R5', 'prefilter-sound', where(b, per['bb']), 'no distance prefilter: every image pair is tested')
        return
    n = Norm()
    sx = per['sx']
    o = per['hits'][0]
    st = o.st
    try:
        def pos(v):
            m = sx.field(st, v, '0', 0)
            return n.rf(sx.mat_elem(st, m, 0, 2)), n.rf(sx.mat_elem(st, m, 1, 2))
        x1, y1 = pos(per['PA'])
        x2, y2 = pos(per['PB'])
        d2 = (x1 - x2) * (x1 - x2) + (y1 - y2) * (y1 - y2)
    except (NotNumeric, TypeError, KeyError) as ex:
        rep.fail('R5', 'prefilter-sound', where(b, per['bb']), 'cannot express the distance between the two placements: %s' % str(ex)[:80],
                 'undecidable-shape')
        return
    from ..sym import APP
    R = n.rf(APP('Shape::enclosing_radius', SYM('self.shape')))
    for cv, pol, decides in conds:
        ok = False
        why = 'a condition on the way to the overlap test is not a comparison of the squared centre distance with a threshold'
        cc = n.cmp_canon(cv, pol)
        if cc[0] == 'cmp' and cc[1] in ('Lt', 'Le'):
            T = d2 - cc[2]          # condition is  d2 - T  OP  0
            from ..poly import reduce_rf
            try:
                diff = reduce_rf(T - n.const(4) * R * R)
                ratoms = R.atoms()
                only_r = all(a in ratoms for a in diff.atoms()) and all(a in ratoms for a in reduce_rf(T).atoms())
                nonneg = diff.d.is_const() and diff.d.const_value() > 0 and all(c >= 0 for c in diff.n.t.values())
                if only_r:
                    ok = nonneg
                    why = 'pairs are tested when d^2 %s T with T = %s; T - 4R^2 = %s' % (cc[1], reduce_rf(T).canon()[:80], diff.n.canon()[:80])
                    if not nonneg:
                        why = 'the prefilter threshold T = %s is smaller than (2R)^2: shapes whose centres are closer than 2R can ' \
                              'overlap but are skipped' % reduce_rf(T).canon()[:80]
                else:
                    # maybe the comparison runs the other way (pairs tested when d^2 is LARGE)
                    T2 = d2 + cc[2]
                    if all(a in ratoms for a in reduce_rf(T2).atoms()):
                        why = 'the prefilter tests pairs when d^2 is ABOVE a threshold: close pairs are skipped'
            except (NotNumeric, TypeError):
                why = 'threshold is not a polynomial in the enclosing radius'
        rep.check(ok, 'R5', 'prefilter-sound', where(b, per['bb']), why, why)
        rep.sample('prefilter: %s' % why)


def _enclosing(ctx):
    """enclosing_radius() >= distance from the origin to any point of the shape: max over components of
    |centre| + radius (discs) / |vertex| (polygon edges; every vertex is the start of exactly one edge)."""
    rep, f = ctx.rep, ctx.facts
    from ..lineage import adaptor_chain
    from ..sym import SymEx
    from fractions import Fraction
    want = {
        'shape::molecular_shape2::MolecularShape2': 'disc',
        'shape::line_shape::LineShape': 'edge',
    }
    k = 0
    for adt, kind in want.items():
        b = f.one(self_adt=adt, trait='Shape', name='enclosing_radius')
        if not rep.check(b is not None, 'R6', 'anchor:enclosing_radius:%s' % adt, adt, 'found', 'enclosing_radius not found', 'anchor-lost'):
            continue
        rep.saw(b)
        k += 1
        t = Tracer(b)
        src, chain = adaptor_chain(t, {'k': 'copy', 'l': 0, 'p': []})
        names = [c[0] for c in chain]
        ok = names[:2] == ['fold', 'map'] and all(x in ('fold', 'map', 'iter', 'into_iter', 'deref') for x in names)
        why = 'enclosing_radius is not items.iter().map(extent).fold(MIN, f64::max): %s' % names
        if ok:
            ft = chain[0][1]
            fn = t.origin(ft['args'][2])
            fnn = (fn.get('c', {}).get('fn') or '') if fn['o'] == 'const' else ''
            init = t.origin(ft['args'][1])
            iv = const_value(init['c']) if init['o'] == 'const' else None
            ok = fnn.endswith('<impl f64>::max') and isinstance(iv, float) and iv <= 0.0
            why = 'fold does not take the maximum starting from a non-positive value (fn %s, init %s)' % (fnn, iv)
        if ok:
            mt = [c for c in chain if c[0] == 'map'][0][1]
            co = t.origin(mt['args'][1])
            cb = f.body(co['rv']['closure']) if co['o'] == 'rvalue' and co['rv'].get('agg') == 'closure' else None
            ok = False
            why = 'extent closure not found'
            if cb is not None:
                n = Norm()
                sx = SymEx(f)
                outs = sx.run(cb, [SYM('env'), SYM('p')])
                if len(outs) == 1 and not sx.aborted:
                    try:
                        got = n.rf(outs[0].ret)
                        if kind == 'disc':
                            x, y = n.atom('p.position.x'), n.atom('p.position.y')
                            ref = n.fn('sqrt', x * x + y * y) + n.atom('p.radius')
                        else:
                            x, y = n.atom('p.start.x'), n.atom('p.start.y')
                            ref = n.fn('sqrt', x * x + y * y)
                        ok = got.equals(ref)
                        why = 'extent of a component = %s' % got.canon()[:160]
                    except NotNumeric as ex:
                        why = str(ex)[:100]
        rep.check(ok, 'R6', 'enclosing-radius-encloses:%s' % adt, where(b),
                  'max over components of %s' % ('|centre| + radius' if kind == 'disc' else '|start vertex|'),
                  'the radius the prefilter relies on does not bound the shape: %s — pairs whose circumcircles overlap are skipped '
                  'although the shapes can overlap' % why)
    rep.floor('R6', 'hard shapes with a checked enclosing radius', k, 2)


# Cells for which geometry REQUIRES at least `min_shells` neighbouring shells (each confirmed against an exhaustive
# 7-shell lattice oracle on the real code; see seeded/C01-r1-shell-heuristic-abs/).  a, b = cell sides, angle in radians.
SHELL_WITNESSES = [
    {'name': 'skewed-30deg-p1.9', 'a': 3.2, 'b': 3.2 / 1.9, 'angle': 0.5235987755982988, 'min_shells': 2,
     'why': 'p1 unit squares rotated 9.5 deg in the cell a=3.2, b=a/1.9, angle=pi/6 overlap with the lattice image (1,-2) (seeded/C01-r1)'},
    {'name': 'p1.5-35deg', 'a': 2.5, 'b': 1.6666666666666667, 'angle': 0.6108652381980153, 'min_shells': 2,
     'why': 'p1 unit squares rotated 85.0 deg: the only overlapping lattice images lie in the 2nd shell (findings/shell_search.rs)'},
    {'name': 'p1.5-40deg', 'a': 2.2, 'b': 1.4666666666666668, 'angle': 0.6981317007977318, 'min_shells': 2,
     'why': 'p1 unit squares rotated 0.0 deg: the only overlapping lattice images lie in the 2nd shell (findings/shell_search.rs)'},
    {'name': 'p1.9-30deg', 'a': 2.7, 'b': 1.4210526315789476, 'angle': 0.5235987755982988, 'min_shells': 2,
     'why': 'p1 unit squares rotated 80.0 deg: the only overlapping lattice images lie in the 2nd shell (findings/shell_search.rs)'},
    {'name': 'p1.9-35deg', 'a': 2.8, 'b': 1.4736842105263157, 'angle': 0.6108652381980153, 'min_shells': 2,
     'why': 'p1 unit squares rotated 5.0 deg: the only overlapping lattice images lie in the 2nd shell (findings/shell_search.rs)'},
    {'name': 'p2.9-85deg', 'a': 1.7, 'b': 0.5862068965517241, 'angle': 1.4835298641951802, 'min_shells': 2,
     'why': 'p1 unit squares rotated 40.0 deg: the only overlapping lattice images lie in the 2nd shell (findings/shell_search.rs)'},
    {'name': 'p3.5-85deg', 'a': 1.8, 'b': 0.5142857142857143, 'angle': 1.4835298641951802, 'min_shells': 2,
     'why': 'p1 unit squares rotated 40.0 deg: the only overlapping lattice images lie in the 2nd shell (findings/shell_search.rs)'},
    {'name': 'p5.0-85deg', 'a': 1.6, 'b': 0.32, 'angle': 1.4835298641951802, 'min_shells': 2,
     'why': 'p1 unit squares rotated 40.0 deg: the only overlapping lattice images lie in the 2nd shell (findings/shell_search.rs)'},
    {'name': 'p8.0-80deg', 'a': 2.8, 'b': 0.35, 'angle': 1.3962634015954636, 'min_shells': 2,
     'why': 'p1 unit squares rotated 35.0 deg: the only overlapping lattice images lie in the 2nd shell (findings/shell_search.rs)'},
    {'name': 'p8.0-85deg', 'a': 1.8, 'b': 0.225, 'angle': 1.4835298641951802, 'min_shells': 2,
     'why': 'p1 unit squares rotated 40.0 deg: the only overlapping lattice images lie in the 2nd shell (findings/shell_search.rs)'},
]


_SHELL_CACHE = {}


def _shell_cases(ctx, test_fn, per):
    """[(path condition, shells value)]: every value the `shells` argument of the periodic_images call can take and the
    conditions on the cell under which it takes it, obtained by executing the overlap function symbolically up to that
    call (loops entered once with symbolic items; tables, `find`, `map_or`, helpers evaluated by their definitions)."""
    from ..nest import Nest
    from ..celltables import recorder
    f = ctx.facts
    key = (id(f), test_fn.path)
    if key in _SHELL_CACHE:
        return _SHELL_CACHE[key]
    res = None
    try:
        n = Nest(f, test_fn, yields=False)
        inner = n.by_header.get(per['d2']['header'])
        if inner is not None:
            sx, outs = n.iteration(inner, set(), models=[recorder({'Cell2::periodic_images': 'images'})])
            cases = {}
            for o in outs:
                for e in o.effects:
                    if e[0] == ('rec', 'images') and len(e[1]) >= 3:
                        pc = tuple(c for c in e[2] if c[0] == 'cond')
                        cases[(repr(pc), repr(e[1][2]))] = (pc, e[1][2])
            if cases and not sx.aborted:
                res = list(cases.values())
    except Exception:
        res = None
    _SHELL_CACHE[key] = res
    return res


def _shell_witnesses(ctx, pl, per, shell_cases=None, witnesses=None, rule='R7', consequence='the overlap is missed and the state gets a score'):
    """Static evaluation of the shell-count decision at witness cells."""
    rep, f = ctx.rep, ctx.facts
    from fractions import Fraction
    from ..celltables import eval_num
    witnesses = SHELL_WITNESSES if witnesses is None else witnesses
    if shell_cases is not None:
        b = pl.b
        for w in witnesses:
            env = {'self.cell.length.value': Fraction(w['a']), 'self.cell.ratio.value': Fraction(w['b']) / Fraction(w['a']),
                   'self.cell.angle.value': Fraction(w['angle'])}
            got, why = [], ''
            for pc, v in shell_cases:
                try:
                    sat = all(bool(eval_num(c[1], env)) == c[2] for c in pc)
                except (KeyError, ValueError, ZeroDivisionError) as ex:
                    why = 'a condition of the shell-count decision is not a comparison over the cell parameters: %s' % str(ex)[:80]
                    got = None
                    break
                if sat:
                    got.append(v)
            if got is None or len({repr(x) for x in got}) != 1 or got[0][0] != 'num':
                rep.fail(rule, 'shell-witness:%s' % w['name'], where(b), 'cannot evaluate the shell-count decision statically: %s'
                         % (why or 'the witness cell selects %d value(s)' % len(got or [])), 'undecidable-shape')
                continue
            g = int(got[0][1])
            rep.check(g >= w['min_shells'], rule, 'shell-witness:%s' % w['name'], where(b, per['bb']),
                      'cell (a=%.3g, b=%.3g, angle=%.4g) gets %s shells >= %d required' % (w['a'], w['b'], w['angle'], g, w['min_shells']),
                      'the shell heuristic searches only %s shell(s) for the cell a=%.3g, b=%.3g, angle=%.4g rad, but %s: at least %d are '
                      'needed, %s' % (g, w['a'], w['b'], w['angle'], w['why'], w['min_shells'], consequence))
            rep.sample('shell heuristic at witness %s -> %s shells (>= %d required)' % (w['name'], g, w['min_shells']))
        return
    b, cfg, tr = pl.b, pl.cfg, pl.tr
    sh = tr.origin(per['d2']['src']['term']['args'][2])
    if sh['o'] != 'local':
        rep.note('R7: the shells argument is not a multi-definition local; witness evaluation skipped')
        return
    S = sh['l']
    defs = {d[0]: const_value(d[3]['a']) for d in tr.defs.of(S) if d[2] == 'assign' and d[3]['r'] == 'use' and d[3]['a'].get('k') == 'const'}

    def leaf(o):
        if o['o'] == 'call':
            nm = callee_name(o['term']) or ''
            recv = tr.origin(o['term']['args'][0]) if o['term']['args'] else {'p': []}
            if field_path(recv.get('p', []))[-1:] == ['cell']:
                for k in ('a', 'b', 'angle'):
                    if nm.endswith('Cell2::' + k):
                        return SYM(k)
        return None
    # the decision starts at the closest block every assignment of the shell count goes through
    cands = [x for x in cfg.reach if all(cfg.dominates(x, d) for d in defs)] if defs else [0]
    start_bb = 0
    for x in cands:
        if all(cfg.dominates(y, x) for y in cands):
            start_bb = x
    for w in witnesses:
        env = {'a': Fraction(w['a']), 'b': Fraction(w['b']), 'angle': Fraction(w['angle'])}
        bb = start_bb
        got = None
        why = ''
        for _ in range(200):
            if bb in defs:
                got = defs[bb]
                break
            t = b.blocks[bb]['term']
            if t['t'] == 'switch':
                e = lift(tr, t['discr'], leaf)
                try:
                    v = eval_num(e, env) if e is not None else None
                except (KeyError, ValueError):
                    v = None
                if v is None:
                    why = 'a decision at bb%d is not a comparison over a(), b(), angle()' % bb
                    break
                iv = 1 if v is True else 0 if v is False else int(v)
                nxt = t['otherwise']
                for val, tgt in t['arms']:
                    if int(val) == iv:
                        nxt = tgt
                bb = nxt
            elif t['t'] in ('goto', 'call', 'drop', 'assert') and t.get('target') is not None:
                bb = t['target']
            else:
                why = 'decision walk left the shell-count prefix at bb%d' % bb
                break
        if got is None:
            rep.fail(rule, 'shell-witness:%s' % w['name'], where(b), 'cannot evaluate the shell-count decision statically: %s' % why,
                     'undecidable-shape')
            continue
        rep.check(isinstance(got, int) and got >= w['min_shells'], rule, 'shell-witness:%s' % w['name'], where(b, per['bb']),
                  'cell (a=%.3g, b=%.3g, angle=%.4g) gets %s shells >= %d required' % (w['a'], w['b'], w['angle'], got, w['min_shells']),
                  'the shell heuristic searches only %s shell(s) for the cell a=%.3g, b=%.3g, angle=%.4g rad, but %s: at least %d are '
                  'needed, the overlap is missed and the state gets a score' % (got, w['a'], w['b'], w['angle'], w['why'], w['min_shells']))
        rep.sample('shell heuristic at witness %s -> %s shells (>= %d required)' % (w['name'], got, w['min_shells']))


def run(ctx):
    _run_rules(ctx)
    from .common import import_obligations
    # the pairwise overlap predicates the state test is built from (C12 R1 disc / segment predicates, R3 symmetry) are necessary for 'no overlaps anywhere'
    import_obligations(ctx, 'C12', 'PAIRTEST', only_rules={'R3', 'R1'}, floor=4)
    # the shape-level test is `any` over the full product of components (C12.R4)
    import_obligations(ctx, 'C12', 'PAIRTEST', only_rules={'R4'}, floor=2)
    # the copies tested are the group's copies of the site, wrapped into the cell (C15 R2, R3)
    import_obligations(ctx, 'C15', 'PLACEMENTS', only_rules={'R2', 'R3'}, floor=4)


