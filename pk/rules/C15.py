"""C15 — each site yields the group's copies, once each, inside one canonical cell (clauses)."""
import math
from fractions import Fraction

from ..harness import where
from ..lineage import adaptor_chain
from ..mirutil import Tracer, call_matches, const_value, field_path
from ..sym import SYM, SymEx, sfield
from ..terms import Norm, NotNumeric

LEVEL = 'other'
EXPLANATION = ('(R1) OccupiedSite::positions is symmetries().map(..).map(..) and nothing else: exactly one placement per '
               'operation, in order; multiplicity is the length of the same vector. (R2) the first closure computes '
               '`operation * site transform` (operation on the left), the Transform2 x Transform2 impl is the matrix '
               'product left*right, the site transform is Transform2::new(angle, (x, y)) = rotation then translation. '
               '(R3) the wrap changes only the two translation entries, each to ((u - o) rem P + P) rem P + o, with '
               'P = 1, o = -1/2 at its only call site — over the reals a value in [-1/2, 1/2) differing from u by an integer.')

SITE = 'site::OccupiedSite'


def positions_chain(f):
    b = f.one(self_adt=SITE, name='positions')
    if b is None:
        return None, None, None
    t = Tracer(b)
    src, chain = adaptor_chain(t, {'k': 'copy', 'l': 0, 'p': []})
    return b, t, (src, chain)


def matrix_of(sx, st, v, n):
    return {(i, j): n.rf(sx.mat_elem(st, v, i, j)) for i in range(3) for j in range(3)}


def run(ctx):
    rep, f = ctx.rep, ctx.facts
    rep.trust('pk/sym.py and its nalgebra model (Rotation2/Isometry::to_homogeneous, Transform*Transform); Iterator::map '
              'yields exactly one item per input item, in order')
    rep.assume('real-number semantics; the IEEE edge cases of the double remainder (u = +-1/2 exactly, tiny negatives) are '
               'NOT decided')
    b, t, sc = positions_chain(f)
    if not rep.check(b is not None, 'R1', 'anchor:positions', SITE, 'found', 'OccupiedSite::positions not found', 'anchor-lost'):
        return
    rep.saw(b)
    src, chain = sc
    names = [c[0] for c in chain]
    allowed = {'map', 'iter', 'into_iter', 'deref'}
    bad = [x for x in names if x not in allowed]
    src_ok = False
    srcdesc = src['o']
    if src['o'] == 'call' and call_matches(src['term'], 'OccupiedSite::symmetries'):
        sb = f.body_of_fnconst(src['term']['func'])
        if sb is not None:
            rep.saw(sb)
            ts = Tracer(sb)
            s2, ch2 = adaptor_chain(ts, {'k': 'copy', 'l': 0, 'p': []})
            n2 = [c[0] for c in ch2]
            src_ok = s2['o'] == 'arg' and field_path(s2['p']) == ['wyckoff', 'symmetries'] and \
                all(x in ('iter', 'deref', 'into_iter') for x in n2)
            srcdesc = 'self.%s via %s' % ('.'.join(field_path(s2.get('p', []))), n2)
    elif src['o'] == 'arg' and field_path(src['p']) == ['wyckoff', 'symmetries']:
        src_ok = True
    rep.check(not bad and names.count('map') >= 1 and src_ok, 'R1', 'one-placement-per-operation', where(b),
              'positions = self.wyckoff.symmetries.iter() %s' % list(reversed(names)),
              'positions does not yield exactly one item per symmetry operation in order: adaptors %s, source %s' % (names, srcdesc))
    for nm in (SITE, 'wallpaper::WyckoffSite'):
        mb = f.one(self_adt=nm, name='multiplicity')
        if rep.check(mb is not None, 'R1', 'anchor:multiplicity:%s' % nm, nm, 'found', 'multiplicity not found', 'anchor-lost'):
            tm = Tracer(mb)
            lens = [(bi, tt) for bi, tt in mb.calls() if call_matches(tt, 'Vec::<T, A>::len')]
            ok = len(lens) == 1
            if ok:
                o = tm.origin(lens[0][1]['args'][0])
                ok = o['o'] == 'arg' and field_path(o['p'])[-1:] == ['symmetries']
                r = tm.origin({'k': 'copy', 'l': 0, 'p': []})
                ok = ok and r['o'] == 'call' and r['bb'] == lens[0][0]
            rep.check(ok, 'R1', 'multiplicity-is-len-of-symmetries:%s' % nm, where(mb), 'symmetries.len()',
                      'multiplicity is not the length of the symmetry vector the placements are generated from')
    # ---- R2 composition order -------------------------------------------------------------
    maps = [c for c in chain if c[0] == 'map']
    maps.reverse()   # source order
    ok1 = False
    why = 'first map closure not found'
    if maps:
        co = t.origin(maps[0][1]['args'][1])
        cb = f.body(co['rv']['closure']) if co['o'] == 'rvalue' and co['rv'].get('agg') == 'closure' else None
        if cb is not None:
            rep.saw(cb)
            tc = Tracer(cb)
            muls = [(bi, tt) for bi, tt in cb.calls() if call_matches(tt, 'Mul<transform::Transform2>>::mul', "Mul<&'b transform::Transform2>>::mul", 'Mul>::mul')]
            if len(muls) == 1 and len(list(cb.calls())) == 1 and muls[0][1]['dest']['l'] == 0:
                l = tc.origin(muls[0][1]['args'][0])
                r = tc.origin(muls[0][1]['args'][1])
                cap = t.origin(co['rv']['ops'][0]) if co['rv']['ops'] else {'o': 'none'}
                cap_ok = cap['o'] == 'call' and call_matches(cap['term'], 'OccupiedSite::transform')
                if l['o'] == 'arg' and l['l'] == 2 and r['o'] == 'arg' and r['l'] == 1 and cap_ok:
                    ok1 = True
                elif l['o'] == 'arg' and l['l'] == 1 and r['o'] == 'arg' and r['l'] == 2:
                    why = 'the product is `site transform * operation`: the symmetry operation must act on the left'
                else:
                    why = 'operands of the product are not (operation, site transform): %s, %s, capture %s' % (l['o'], r['o'], cap['o'])
            else:
                why = 'the first closure is not a single Transform2 * Transform2 product'
    rep.check(ok1, 'R2', 'operation-times-site', where(b), 'placement k = operation_k * site transform', why)
    # Transform2 x Transform2 is the matrix product left*right
    mm = [x for x in f.bodies.values() if x.file.endswith('transform.rs') and x.fn_name == 'mul' and not x.is_closure
          and 'Transform2' in x.local_ty(1) and 'Transform2' in x.local_ty(2)]
    rep.floor('R2', 'Transform2 x Transform2 impls', len(mm), 4)
    for mb in mm:
        rep.saw(mb)
        n = Norm()
        sx = SymEx(f)
        outs = sx.run(mb, [SYM('L'), SYM('R')])
        ok = len(outs) == 1
        if ok:
            try:
                r = sx.deep(outs[0].st, outs[0].ret)
                got = matrix_of(sx, outs[0].st, r, n)
                e = lambda nm, i, j: n.atom('%s.0[%d,%d]' % (nm, i, j))
                for i in range(3):
                    for j in range(3):
                        ref = None
                        for k in range(3):
                            term = e('L', i, k) * e('R', k, j)
                            ref = term if ref is None else ref + term
                        ok &= got[(i, j)].equals(ref)
            except (NotNumeric, TypeError, KeyError):
                ok = False
        rep.check(ok, 'R2', 'product-is-left-times-right:%s' % mb.path, where(mb), 'matrix(self) * matrix(rhs)',
                  'Transform2 * Transform2 is not the matrix product self*rhs')
    # site transform = Transform2::new(angle, (x, y)) = rotation then translation
    tb = f.one(self_adt=SITE, name='transform')
    if rep.check(tb is not None, 'R2', 'anchor:site-transform', SITE, 'found', 'OccupiedSite::transform not found', 'anchor-lost'):
        rep.saw(tb)
        n = Norm()
        sx = SymEx(f)
        outs = sx.run(tb, [SYM('self')])
        ok = len(outs) == 1 and not sx.aborted
        why = 'not a single loop-free path'
        if ok:
            try:
                r = sx.deep(outs[0].st, outs[0].ret)
                got = matrix_of(sx, outs[0].st, r, n)
                a = n.atom('self.angle.value')
                x, y = n.atom('self.x.value'), n.atom('self.y.value')
                c, s = n.fn('cos', a), n.fn('sin', a)
                ref = {(0, 0): c, (0, 1): -s, (0, 2): x, (1, 0): s, (1, 1): c, (1, 2): y, (2, 0): n.const(0), (2, 1): n.const(0), (2, 2): n.const(1)}
                bad = [k for k in ref if not got[k].equals(ref[k])]
                ok = not bad
                why = 'matrix entries %s differ from [[cos a, -sin a, x],[sin a, cos a, y],[0,0,1]]' % bad
            except (NotNumeric, TypeError, KeyError) as ex:
                ok, why = False, 'not a 3x3 matrix: %s' % str(ex)[:80]
        rep.check(ok, 'R2', 'site-transform-is-rotation-then-translation', where(tb),
                  '[[cos a, -sin a, x],[sin a, cos a, y],[0,0,1]] with a=angle, (x,y)=site coordinates', why)
    # ---- R3 wrap ------------------------------------------------------------------------------
    pb = f.one(self_adt='transform::Transform2', name='periodic')
    if rep.check(pb is not None, 'R3', 'anchor:periodic', 'transform::Transform2', 'found', 'Transform2::periodic not found', 'anchor-lost'):
        rep.saw(pb)
        n = Norm()
        sx = SymEx(f)
        outs = sx.run(pb, [SYM('T'), SYM('P'), SYM('o')])
        ok = bool(outs) and not sx.aborted
        if rep.check(ok, 'R3', 'periodic-loop-free', where(pb), '%d path(s)' % len(outs), 'periodic is not loop-free', 'undecidable-shape'):
            P, o = n.atom('P'), n.atom('o')
            e = lambda i, j: n.atom('T.0[%d,%d]' % (i, j))
            bad = {'x': None, 'y': None, 'lin': None, 'shape': None}
            for out in outs:
                try:
                    r = sx.deep(out.st, out.ret)
                    got = matrix_of(sx, out.st, r, n)
                except (NotNumeric, TypeError, KeyError) as ex:
                    bad['shape'] = str(ex)[:80]
                    continue
                conds = [str(n.cond(c))[:80] for c in out.pc if c[0] == 'cond']
                for (i, nm) in ((0, 'x'), (1, 'y')):
                    u = e(i, 2)
                    forms = [n.fn('rem', n.fn('rem', u - o, P) + P, P) + o,
                             n.fn('rem_euclid', u - o, P) + o,
                             u - P * n.fn('floor', (u - o) / P)]
                    if not any(got[(i, 2)].equals(fm) for fm in forms):
                        bad[nm] = 'on the path with conditions %s the %s translation becomes %s' % (conds, nm, got[(i, 2)].canon()[:120])
                if not all(got[(i, j)].equals(e(i, j)) for i in range(3) for j in range(3) if (i, j) not in ((0, 2), (1, 2))):
                    bad['lin'] = 'a path changes matrix entries other than the translation'
            for nm in ('x', 'y'):
                rep.check(bad[nm] is None, 'R3', 'wrap-formula:%s' % nm, where(pb), 'on every path: u -> ((u - o) rem P + P) rem P + o',
                          'the wrap is not the period-P wrap about offset o on every path: %s (e.g. a value exactly on the upper '
                          'face stays outside the half-open cell)' % bad[nm])
            rep.check(bad['lin'] is None and bad['shape'] is None, 'R3', 'wrap-keeps-linear-part', where(pb), 'only the two translation entries change',
                      bad['lin'] or ('result is not a 3x3 transform: %s' % bad['shape']))
            rep.sample('periodic: %d path(s), each x,y -> ((u - o) rem P + P) rem P + o' % len(outs))
    okc = False
    why = 'second map closure not found'
    if len(maps) >= 2:
        co = t.origin(maps[1][1]['args'][1])
        cb = f.body(co['rv']['closure']) if co['o'] == 'rvalue' and co['rv'].get('agg') == 'closure' else None
        if cb is not None:
            rep.saw(cb)
            tc = Tracer(cb)
            calls = list(cb.calls())
            if len(calls) == 1 and call_matches(calls[0][1], 'Transform2::periodic') and calls[0][1]['dest']['l'] == 0:
                a = calls[0][1]['args']
                recv = tc.origin(a[0])
                P = const_value(tc.origin(a[1]).get('c', {}))
                o = const_value(tc.origin(a[2]).get('c', {}))
                okc = recv.get('l') == 2 and P == 1.0 and o == -0.5
                why = 'wrap called with period %s offset %s on %s' % (P, o, recv.get('o'))
            else:
                why = 'the second closure is not a single periodic() call'
    rep.check(okc, 'R3', 'wrap-into-[-1/2,1/2)', where(b), 'periodic(1, -1/2) applied to every placement', why)
    nper = [k for k, s in ctx.cg.callers_of(lambda nm: nm == 'transform::Transform2::periodic')]
    rep.check(len(nper) == 1, 'R3', 'single-wrap-site', where(b), 'one caller of periodic', 'periodic is called from %d places' % len(nper))
