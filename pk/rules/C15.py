"""C15 — each site yields the group's copies, once each, inside one canonical cell (clauses)."""
import math
from fractions import Fraction

from ..harness import where
from ..lineage import adaptor_chain
from ..mirutil import Tracer, call_matches, const_value, field_path
from ..sym import SYM, SymEx, sfield
from ..terms import Norm, NotNumeric

LEVEL = 'other'
EXPLANATION = ('(R1) OccupiedSite::positions is symmetries().map(..).map(..) and nothing else: exactly one placement per '
               'operation, in order; multiplicity is the length of the same vector. (R2) the first closure computes '
               '`operation * site transform` (operation on the left), the Transform2 x Transform2 impl is the matrix '
               'product left*right, the site transform is Transform2::new(angle, (x, y)) = rotation then translation. '
               '(R3) the wrap changes only the two translation entries, each to ((u - o) rem P + P) rem P + o, with '
               'P = 1, o = -1/2 at its only call site — over the reals a value in [-1/2, 1/2) differing from u by an integer.')

SITE = 'site::OccupiedSite'


def positions_chain(f):
    b = f.one(self_adt=SITE, name='positions')
    if b is None:
        return None, None, None
    t = Tracer(b)
    src, chain = adaptor_chain(t, {'k': 'copy', 'l': 0, 'p': []})
    return b, t, (src, chain)


def matrix_of(sx, st, v, n):
    return {(i, j): n.rf(sx.mat_elem(st, v, i, j)) for i in range(3) for j in range(3)}


def _run_rules(ctx):
    rep, f = ctx.rep, ctx.facts
    rep.trust('pk/sym.py and its nalgebra model (Rotation2/Isometry::to_homogeneous, Transform*Transform); Iterator::map '
              'yields exactly one item per input item, in order')
    rep.assume('real-number semantics; the IEEE edge cases of the double remainder (u = +-1/2 exactly, tiny negatives) are '
               'NOT decided')
    b, t, sc = positions_chain(f)
    if not rep.check(b is not None, 'R1', 'anchor:positions', SITE, 'found', 'OccupiedSite::positions not found', 'anchor-lost'):
        return
    rep.saw(b)
    from ..nest import Nest, items_source
    nst = Nest(f, b)
    ys = nst.calls(lambda tt: tt['func'].get('fn') == 'pk::yield')
    loops = nst.loops_around(ys[0][0]) if len(ys) == 1 else []
    lp = loops[0] if len(loops) == 1 else None
    srcdesc = None
    one = lp is not None and not lp['adaptors'] and nst.always_entered(lp) and nst.every_iteration_reaches(lp, ys[0][0])
    if lp is not None:
        srcdesc = items_source(f, nst.tr, {'k': 'copy', 'l': lp['iter_local'], 'p': []}) if lp['iter_local'] is not None else 'no iterator'
    rep.check(one and srcdesc == (1, ['wyckoff', 'symmetries']), 'R1', 'one-placement-per-operation', where(b),
              'positions yields once for every element of self.wyckoff.symmetries, in order (fused: %s)' % (nst.b.fused,),
              'positions does not yield exactly one item per symmetry operation in order: %d yield site(s), %d loop(s), adaptors %s, '
              'source %s' % (len(ys), len(loops), [d['adaptors'] for d in loops], srcdesc))
    for nm in (SITE, 'wallpaper::WyckoffSite'):
        mb = f.one(self_adt=nm, name='multiplicity')
        if rep.check(mb is not None, 'R1', 'anchor:multiplicity:%s' % nm, nm, 'found', 'multiplicity not found', 'anchor-lost'):
            sxm = SymEx(f)
            mo = sxm.run(mb, [SYM('self')])
            ok = len(mo) == 1 and not sxm.aborted
            if ok:
                r = sxm.deep(mo[0].st, mo[0].ret)
                while r[0] == 'app' and r[1].startswith('as:'):
                    r = r[2][0]
                ok = r[0] == 'app' and r[1].endswith('len') and len(r[2]) == 1 and r[2][0][0] == 'sym' and \
                    r[2][0][1] in ('self.wyckoff.symmetries', 'self.symmetries')
            rep.check(ok, 'R1', 'multiplicity-is-len-of-symmetries:%s' % nm, where(mb), 'symmetries.len()',
                      'multiplicity is not the length of the symmetry vector the placements are generated from')
    # ---- R2/R3 what is yielded for one operation: wrap(matrix(operation) * matrix(site transform)) ------------------------
    _yielded_placement(ctx, nst, ys, lp, b)
    # Transform2 x Transform2 is the matrix product left*right
    mm = [x for x in f.bodies.values() if x.fn_name == 'mul' and not x.is_closure and (x.impl_trait or '').endswith('ops::Mul')
          and x.arg_count == 2 and 'Transform2' in x.local_ty(1) and 'Transform2' in x.local_ty(2)]
    rep.floor('R2', 'Transform2 x Transform2 impls', len(mm), 4)
    for mb in mm:
        rep.saw(mb)
        n = Norm()
        sx = SymEx(f)
        outs = sx.run(mb, [SYM('L'), SYM('R')])
        ok = len(outs) == 1
        if ok:
            try:
                r = sx.deep(outs[0].st, outs[0].ret)
                got = matrix_of(sx, outs[0].st, r, n)
                e = lambda nm, i, j: n.atom('%s.0[%d,%d]' % (nm, i, j))
                for i in range(3):
                    for j in range(3):
                        ref = None
                        for k in range(3):
                            term = e('L', i, k) * e('R', k, j)
                            ref = term if ref is None else ref + term
                        ok &= got[(i, j)].equals(ref)
            except (NotNumeric, TypeError, KeyError):
                ok = False
        rep.check(ok, 'R2', 'product-is-left-times-right:%s' % mb.path, where(mb), 'matrix(self) * matrix(rhs)',
                  'Transform2 * Transform2 is not the matrix product self*rhs')
    # site transform = Transform2::new(angle, (x, y)) = rotation then translation
    tb = f.one(self_adt=SITE, name='transform')
    if rep.check(tb is not None, 'R2', 'anchor:site-transform', SITE, 'found', 'OccupiedSite::transform not found', 'anchor-lost'):
        rep.saw(tb)
        n = Norm()
        sx = SymEx(f)
        outs = sx.run(tb, [SYM('self')])
        ok = len(outs) == 1 and not sx.aborted
        why = 'not a single loop-free path'
        if ok:
            try:
                r = sx.deep(outs[0].st, outs[0].ret)
                got = matrix_of(sx, outs[0].st, r, n)
                a = n.atom('self.angle.value')
                x, y = n.atom('self.x.value'), n.atom('self.y.value')
                c, s = n.fn('cos', a), n.fn('sin', a)
                ref = {(0, 0): c, (0, 1): -s, (0, 2): x, (1, 0): s, (1, 1): c, (1, 2): y, (2, 0): n.const(0), (2, 1): n.const(0), (2, 2): n.const(1)}
                bad = [k for k in ref if not got[k].equals(ref[k])]
                ok = not bad
                why = 'matrix entries %s differ from [[cos a, -sin a, x],[sin a, cos a, y],[0,0,1]]' % bad
            except (NotNumeric, TypeError, KeyError) as ex:
                ok, why = False, 'not a 3x3 matrix: %s' % str(ex)[:80]
        rep.check(ok, 'R2', 'site-transform-is-rotation-then-translation', where(tb),
                  '[[cos a, -sin a, x],[sin a, cos a, y],[0,0,1]] with a=angle, (x,y)=site coordinates', why)
    # ---- R3 wrap ------------------------------------------------------------------------------
    pb = f.one(self_adt='transform::Transform2', name='periodic')
    if rep.check(pb is not None, 'R3', 'anchor:periodic', 'transform::Transform2', 'found', 'Transform2::periodic not found', 'anchor-lost'):
        rep.saw(pb)
        n = Norm()
        sx = SymEx(f)
        # the period and the offset: two float parameters, or the two float fields of a parameter struct (`Interval { period,
        # offset }`); which is which is decided by the formula (it is not symmetric in them), not by their names
        from ..sym import STRUCT
        argv, floats = [SYM('T')], []
        for i in pb.args()[1:]:
            ty = f.norm(pb.local_ty(i)).lstrip('&').strip()
            ti = f.type_info(ty) if ty not in ('f64',) else None
            if ty == 'f64':
                nm_ = 'w%d' % len(floats)
                floats.append(nm_)
                argv.append(SYM(nm_))
            elif ti and ti.get('local') and len(ti.get('variants') or []) == 1:
                flds = []
                for fl in ti['variants'][0]['fields']:
                    if fl['ty'] == 'f64':
                        nm_ = 'w%d' % len(floats)
                        floats.append(nm_)
                        flds.append((fl['name'], SYM(nm_)))
                    else:
                        flds.append((fl['name'], SYM('arg%d.%s' % (i, fl['name']))))
                argv.append(STRUCT(ty.split('<')[0], (ti['variants'][0]['name'], 0), flds))
            else:
                argv.append(SYM('arg%d' % i))
        outs = sx.run(pb, argv) if len(floats) == 2 else []
        ok = bool(outs) and not sx.aborted
        if rep.check(ok, 'R3', 'periodic-loop-free', where(pb), '%d path(s)' % len(outs),
                     'periodic is not loop-free' if len(floats) == 2 else 'periodic does not take a period and an offset (%d float '
                     'parameters / fields)' % len(floats), 'undecidable-shape'):
            P, o = n.atom('w0'), n.atom('w1')
            for out in outs[:1]:
                # orientation of the two roles: try (period, offset) = (w0, w1), else (w1, w0)
                try:
                    g0 = matrix_of(sx, out.st, sx.deep(out.st, out.ret), n)[(0, 2)]
                    u0 = n.atom('T.0[0,2]')
                    fits = lambda P_, o_: any(g0.equals(fm) for fm in (n.fn('rem', n.fn('rem', u0 - o_, P_) + P_, P_) + o_,      # noqa: E731
                                                                       n.fn('rem_euclid', u0 - o_, P_) + o_,
                                                                       u0 - P_ * n.fn('floor', (u0 - o_) / P_)))
                    if not fits(P, o) and fits(o, P):
                        P, o = o, P
                except (NotNumeric, TypeError, KeyError):
                    pass
            e = lambda i, j: n.atom('T.0[%d,%d]' % (i, j))
            bad = {'x': None, 'y': None, 'lin': None, 'shape': None}
            for out in outs:
                try:
                    r = sx.deep(out.st, out.ret)
                    got = matrix_of(sx, out.st, r, n)
                except (NotNumeric, TypeError, KeyError) as ex:
                    bad['shape'] = str(ex)[:80]
                    continue
                conds = [str(n.cond(c))[:80] for c in out.pc if c[0] == 'cond']
                for (i, nm) in ((0, 'x'), (1, 'y')):
                    u = e(i, 2)
                    forms = [n.fn('rem', n.fn('rem', u - o, P) + P, P) + o,
                             n.fn('rem_euclid', u - o, P) + o,
                             u - P * n.fn('floor', (u - o) / P)]
                    if not any(got[(i, 2)].equals(fm) for fm in forms):
                        bad[nm] = 'on the path with conditions %s the %s translation becomes %s' % (conds, nm, got[(i, 2)].canon()[:120])
                if not all(got[(i, j)].equals(e(i, j)) for i in range(3) for j in range(3) if (i, j) not in ((0, 2), (1, 2))):
                    bad['lin'] = 'a path changes matrix entries other than the translation'
            for nm in ('x', 'y'):
                rep.check(bad[nm] is None, 'R3', 'wrap-formula:%s' % nm, where(pb), 'on every path: u -> ((u - o) rem P + P) rem P + o',
                          'the wrap is not the period-P wrap about offset o on every path: %s (e.g. a value exactly on the upper '
                          'face stays outside the half-open cell)' % bad[nm])
            rep.check(bad['lin'] is None and bad['shape'] is None, 'R3', 'wrap-keeps-linear-part', where(pb), 'only the two translation entries change',
                      bad['lin'] or ('result is not a 3x3 transform: %s' % bad['shape']))
            rep.sample('periodic: %d path(s), each x,y -> ((u - o) rem P + P) rem P + o' % len(outs))
    # distinct source call sites (a helper spliced into its caller shows the same site in two bodies)
    nper = set()
    pkeys = {'transform::Transform2::periodic'} | ({pb.path, getattr(pb, 'key_in_facts', pb.path)} if pb is not None else set())
    for k, s in ctx.cg.callers_of(lambda nm: nm in pkeys):
        sp = f.bodies[k].blocks[s['bb']]['term'].get('span') or {}
        nper.add((sp.get('file'), sp.get('line'), sp.get('col')))
    by_value = any(o['rule'] == 'R3' and o['instance'] == 'wrap-into-[-1/2,1/2)' and o['ok'] for o in rep.obligations)
    if not nper and by_value:
        # the wrap has no call site of its own (a method the reference tree does not have, spliced into the placement chain):
        # that every placement is the product wrapped exactly once was decided on the yielded value above
        rep.ok('R3', 'single-wrap-site', where(b), 'the wrap is part of the placement expression (decided by value)')
    else:
        rep.check(len(nper) == 1, 'R3', 'single-wrap-site', where(b), 'one call site of periodic',
                  'periodic is called from %d places' % len(nper))


def _yielded_placement(ctx, nst, ys, lp, b):
    rep, f = ctx.rep, ctx.facts
    tb = f.one(self_adt=SITE, name='transform')
    if lp is None or len(ys) != 1 or tb is None:
        rep.fail('R2', 'operation-times-site', where(b), 'the placement loop was not recognised', 'undecidable-shape')
        rep.fail('R3', 'wrap-into-[-1/2,1/2)', where(b), 'the placement loop was not recognised', 'undecidable-shape')
        return
    ybb = ys[0][0]
    sx, outs = nst.iteration(lp, {ybb})
    n = Norm()
    it = 'item%d' % lp['header']
    ok2 = ok3 = bool(outs) and not sx.aborted
    why2 = why3 = 'one iteration is not loop-free'
    # reference: the site transform's matrix as the code computes it
    sxs = SymEx(f)
    so = sxs.run(tb, [SYM('self')])
    if len(so) != 1 or sxs.aborted:
        ok2 = ok3 = False
        why2 = why3 = 'OccupiedSite::transform is not a single loop-free path'
    if ok2:
        try:
            S = matrix_of(sxs, so[0].st, sxs.deep(so[0].st, so[0].ret), n)
            E = {(i, j): n.atom('%s.0[%d,%d]' % (it, i, j)) for i in range(3) for j in range(3)}

            def prod(A, B, i, j):
                acc = None
                for k in range(3):
                    term = A[(i, k)] * B[(k, j)]
                    acc = term if acc is None else acc + term
                return acc
            for o in outs:
                if not (isinstance(o.ret, tuple) and o.ret[0] == 'stopped' and o.ret[1] == ybb):
                    ok2 = ok3 = False
                    why2 = why3 = 'an iteration does not reach the yield'
                    continue
                conds = [c for c in o.pc if c[0] != 'assume']
                v = nst.arg_values(sx, o, ybb)[0]
                got = matrix_of(sx, o.st, v, n)
                # the affine part: rows 0 and 1 (Transform2 is nalgebra's TAffine — products with points use these rows only and
                # take the bottom row to be (0, 0, 1); composing the linear parts separately leaves the bottom row of the
                # operation in place instead of multiplying it through, which is the same affine map)
                lin = [(i, j) for i in range(2) for j in range(2)]
                if all(got[k].equals(prod(E, S, *k)) for k in lin):
                    pass
                elif all(got[k].equals(prod(S, E, *k)) for k in lin):
                    ok2, why2 = False, 'the product is `site transform * operation`: the symmetry operation must act on the left'
                else:
                    ok2, why2 = False, 'the rotation/reflection part of the placement is not operation x site transform'
                P, off = n.const(1), n.const(Fraction(-1, 2))
                for i in (0, 1):
                    u = prod(E, S, i, 2)
                    forms = [n.fn('rem', n.fn('rem', u - off, P) + P, P) + off, n.fn('rem_euclid', u - off, P) + off,
                             u - P * n.fn('floor', (u - off) / P)]
                    if not any(got[(i, 2)].equals(fm) for fm in forms):
                        ok3 = False
                        if got[(i, 2)].equals(u):
                            why3 = 'the placement is not wrapped into the cell at all'
                        else:
                            why3 = 'translation %d of the placement is %s (conditions %s), not (operation x site) wrapped with period 1 ' \
                                   'about -1/2' % (i, got[(i, 2)].canon()[:160], [str(n.cond(c))[:60] for c in conds][:3])
        except (NotNumeric, TypeError, KeyError) as ex:
            ok2 = ok3 = False
            why2 = why3 = 'the yielded value is not a 3x3 transform: %s' % str(ex)[:100]
    rep.check(ok2, 'R2', 'operation-times-site', where(b), 'placement k = operation_k * site transform (exact normal forms)', why2)
    rep.check(ok3, 'R3', 'wrap-into-[-1/2,1/2)', where(b), 'periodic(1, -1/2) applied to every placement (exact normal forms)', why3)


def run(ctx):
    _run_rules(ctx)
    from .common import import_obligations
    # the operations applied are the group's (C16 R1-R3)
    import_obligations(ctx, 'C16', 'R4', only_rules={'R3', 'R1', 'R2'}, floor=20)
    # a cloned site is the same site (C09.R3, OccupiedSite)
    import_obligations(ctx, 'C09', 'R5', only_rules={'R3'}, floor=1, only_instances=lambda k: 'OccupiedSite' in k)

