"""C02 — the hard-packing score is the true packing fraction (clauses)."""
import math
from fractions import Fraction

from ..anchors import is_trait_call
from ..cfg import CFG
from ..harness import where
from ..lineage import adaptor_chain, through
from ..loops import for_loops, lift
from ..mirutil import Tracer, call_matches, callee_name, const_value, field_path
from ..sym import NUM, SYM, SymEx, sfield
from ..terms import Norm, NotNumeric
from .C03 import total_shapes_is_sum_of_multiplicities
from .C14 import lattice

LEVEL = 'other'
EXPLANATION = ('CLAUSES (real-formula identities). (R1) the Some payload of the hard score is area(shape)*N/area(cell). (R2) N is '
               'the sum of site multiplicities (= number of placed copies, C15.R1). (R3) area(cell) = |A x B| of the lattice '
               'vectors read off the code\'s own to_cartesian. (R4) polygon: the per-edge term is 1/2*sin(2pi/n)*|start|*|end| and '
               'from_radial places vertex k at (r_k sin k*d, r_k cos k*d), d = 2pi/n, edge k = (vertex k, vertex k+1 cyclic): for '
               'non-negative radii that term is the triangle area 1/2|start x end|. (R5) discs: sum of pi r^2 minus, for every '
               'unordered pair once, the two-segment lens formula. NOT decided: exactness when three discs share a point, score <= 1.')

ADT = 'state::packed::PackedState'
PI = Fraction(math.pi)


def _run_rules(ctx):
    rep, f = ctx.rep, ctx.facts
    rep.trust('pk/sym.py, pk/poly.py, pk/loops.py lifting; tuple_combinations yields each unordered pair once (itertools)')
    rep.assume('real-number semantics; radial polygon radii are non-negative; NOT DECIDED: the disc-union area is exact only when '
               'no three discs share a point (a condition on run-time parameters), and score <= 1 (needs C01\'s undecided clause)')
    _score(ctx)
    _cell_area(ctx)
    _polygon(ctx)
    _discs(ctx)


def _score(ctx):
    rep, f = ctx.rep, ctx.facts
    b = f.one(self_adt=ADT, trait='State', name='score')
    if not rep.check(b is not None, 'R1', 'anchor:PackedState::score', ADT, 'found', 'not found', 'anchor-lost'):
        return
    rep.saw(b)
    tr = Tracer(b)
    cfg = CFG(b)
    n = Norm()

    def leaf(o):
        if o['o'] == 'call':
            t = o['term']
            recv = tr.origin(t['args'][0]) if t['args'] else {'o': '?'}
            fp = field_path(recv.get('p', []))
            if is_trait_call(t, 'Intersect', 'area') and fp[-1:] == ['shape']:
                return SYM('A_shape')
            if is_trait_call(t, 'State', 'total_shapes') and recv.get('l') == 1:
                return SYM('N')
            if call_matches(t, 'Cell2::area') and fp[-1:] == ['cell']:
                return SYM('A_cell')
        return None
    k = 0
    for bi in sorted(cfg.reach):
        for si, s in enumerate(b.blocks[bi]['stmts']):
            if s['s'] == 'assign' and s['place']['l'] == 0 and s['rv']['r'] == 'aggr' and s['rv'].get('variant') == 'Some':
                k += 1
                e = lift(tr, s['rv']['ops'][0], leaf)
                ok = False
                why = 'cannot lift the score expression'
                if e is not None:
                    try:
                        got = n.rf(e)
                        ref = n.atom('A_shape') * n.atom('N') / n.atom('A_cell')
                        ok = got.equals(ref)
                        why = 'score = %s' % got.canon()
                    except NotNumeric as ex:
                        why = str(ex)[:100]
                rep.check(ok, 'R1', 'score-is-packing-fraction', where(b, bi, si), 'Some(area(shape) * total_shapes / area(cell))',
                          'the hard score is not shape area x number of copies / cell area: %s' % why)
                rep.sample('hard score payload: %s' % why)
    rep.floor('R1', 'Some(score) assignments', k, 1, where(b))
    ts = f.one(self_adt=ADT, trait='State', name='total_shapes')
    if rep.check(ts is not None, 'R2', 'anchor:total_shapes', ADT, 'found', 'total_shapes not found', 'anchor-lost'):
        rep.saw(ts)
        ok, why = total_shapes_is_sum_of_multiplicities(f, ts)
        rep.check(ok, 'R2', 'copy-count-is-sum-of-multiplicities', where(ts), why, why)
    rep.note('multiplicity() = len of the symmetry vector the placements iterate (C15.R1)')


def _cell_area(ctx):
    rep, f = ctx.rep, ctx.facts
    lat = lattice(f)
    if not rep.check(lat is not None and 'error' not in lat, 'R3', 'anchor:to_cartesian', 'cell::Cell2', 'evaluated',
                     (lat or {}).get('error', 'to_cartesian not found'), 'anchor-lost'):
        return
    n = lat['n']
    ab = f.one(self_adt='cell::Cell2', name='area')
    if not rep.check(ab is not None, 'R3', 'anchor:Cell2::area', 'cell::Cell2', 'found', 'not found', 'anchor-lost'):
        return
    rep.saw(ab)
    sx = SymEx(f)
    outs = sx.run(ab, [SYM('self')])
    ok = len(outs) == 1 and not sx.aborted
    why = 'area is not a single loop-free path'
    if ok:
        try:
            ar = n.rf(outs[0].ret)
            cross = lat['A'][0] * lat['B'][1] - lat['A'][1] * lat['B'][0]
            ok = ar.equals(cross) or ar.equals(-cross)
            why = 'Cell2::area = %s, |A x B| = %s' % (ar.canon(), cross.canon())
        except NotNumeric as e:
            ok, why = False, str(e)[:100]
    rep.check(ok, 'R3', 'cell-area-is-A-cross-B', where(ab), 'denominator = |A x B| of the lattice to_cartesian uses', why)


def _polygon(ctx):
    rep, f = ctx.rep, ctx.facts
    ab = f.one(self_adt='shape::line_shape::LineShape', trait='Intersect', name='area')
    fr = f.one(self_adt='shape::line_shape::LineShape', name='from_radial')
    if not rep.check(ab is not None and fr is not None, 'R4', 'anchor:LineShape::{area,from_radial}', 'LineShape', 'found', 'not found',
                     'anchor-lost'):
        return
    rep.saw(ab)
    rep.saw(fr)
    from ..nest import single_loop_sum

    def len_model(sx, st, name, declared, args, t):
        if name.endswith('Vec::<T, A>::len') or name.endswith('<impl [T]>::len'):
            v = sx.deep(st, args[0])
            if v == SYM('self.items'):
                return SYM('n')
        return None
    okc, whyc, info = single_loop_sum(f, ab, models=[len_model])
    okc = okc and info['source'] == (1, ['items'])
    rep.check(okc, 'R4', 'polygon-area-sums-every-edge', where(ab), 'area = sum over every edge of self.items of a per-edge term',
              'the polygon area does not sum one term per edge: %s %s' % (whyc, (info or {}).get('source')))
    if okc:
        n = info['norm']
        it = info['item']
        ok = len(info['terms']) == 1 and not [c for c in info['terms'][0][0] if c[0] != 'assume']
        why = 'the per-edge term is conditional'
        if ok:
            got = info['terms'][0][1]
            sxx, syy = n.atom(it + '.start.x'), n.atom(it + '.start.y')
            exx, eyy = n.atom(it + '.end.x'), n.atom(it + '.end.y')
            T = n.fn('sin', n.const(2 * PI) / n.atom('n'))
            ref = n.const(Fraction(1, 2)) * T * n.fn('sqrt', sxx * sxx + syy * syy) * n.fn('sqrt', exx * exx + eyy * eyy)
            ok = got.equals(ref)
            why = 'term = %s' % got.canon()[:200]
        rep.check(ok, 'R4', 'edge-term-is-half-sin-times-radii', where(ab), '1/2 * sin(2*pi / items.len()) * |start| * |end|', why)
        rep.check(ok, 'R4', 'angle-term-is-sin-2pi-over-n', where(ab), 'the angle factor of the term is sin(2*pi / items.len())', why)
    # from_radial parametrisation (nest form with collect() read as a fill loop: a `for` with push and a
    # `.map(|..| Line2::new(..)).collect()` are the same loop)
    fr0 = fr
    fr = f.nest_form(fr, yields=False, collects=True)
    tr = Tracer(fr)
    cfg = CFG(fr)
    loops = for_loops(fr, cfg, tr)
    ok = False
    why = 'vertex loop not recognised'
    if len(loops) > 1:
        # other loops of the constructor (validating the radii, logging) are not the vertex loop: that is the one that builds
        # and stores the edges
        vl = [d for d in loops if any(bi in d['loop']['body'] and call_matches(tt, 'Line2::new', 'Vec::<T, A>::push')
                                      for bi, tt in fr.calls())]
        if len(vl) == 1:
            loops = vl
    if len(loops) == 1:
        d = loops[0]
        names = d['chain']
        zt = [c for c in d['chain_terms'] if c[0] == 'zip']
        ok_chain = names[:2] == ['enumerate', 'zip'] and bool(zt)
        if ok_chain:
            s1, c1 = adaptor_chain(tr, zt[0][1]['args'][0])
            s2, c2 = adaptor_chain(tr, zt[0][1]['args'][1])
            n1, n2_ = [c[0] for c in c1], [c[0] for c in c2]
            sk = [c for c in c2 if c[0] == 'skip']
            skip1 = bool(sk) and const_value(tr.origin(sk[0][1]['args'][1]).get('c', {})) == 1
            ok_chain = all(x in ('iter', 'deref') for x in n1) and n2_[:2] == ['skip', 'cycle'] and skip1 and \
                s1.get('l') == s2.get('l') and s1['o'] == 'arg'
            why = 'edges pair r_k with r_(k+1) cyclically: zip(points.iter(), points.iter().cycle().skip(1))' if ok_chain else \
                'vertex pairing is not (k, k+1 cyclic): %s / %s' % (n1, n2_)
        pushes = [(bi, tt) for bi, tt in fr.calls() if call_matches(tt, 'Line2::new') and bi in d['loop']['body']]
        if ok_chain and len(pushes) == 1:
            hdr = d['header']

            def leaf(o):
                fp = field_path(o.get('p', []))
                if o['o'] == 'call' and (callee_name(o['term']) or '').endswith('::next') and o['bb'] == hdr:
                    if fp == ['0', '0']:
                        return SYM('k')
                    if fp == ['0', '1', '0']:
                        return SYM('r1')
                    if fp == ['0', '1', '1']:
                        return SYM('r2')
                if o['o'] == 'call' and call_matches(o['term'], 'Vec::<T, A>::len'):
                    return SYM('n')
                return None
            nn = Norm()
            pts = []
            for a in pushes[0][1]['args']:
                o = tr.origin(a)
                if o['o'] == 'rvalue' and o['rv'].get('agg') == 'tuple':
                    pts.append([lift(tr, x, leaf) for x in o['rv']['ops']])
            try:
                k_, r1, r2, nsym = nn.atom('k'), nn.atom('r1'), nn.atom('r2'), nn.atom('n')
                dl = nn.const(2 * PI) / nsym
                want = [[r1 * nn.fn('sin', k_ * dl), r1 * nn.fn('cos', k_ * dl)],
                        [r2 * nn.fn('sin', k_ * dl + dl), r2 * nn.fn('cos', k_ * dl + dl)]]
                ok = len(pts) == 2 and all(e is not None for p in pts for e in p) and \
                    all(nn.rf(pts[i][j]).equals(want[i][j]) for i in range(2) for j in range(2))
                why = 'vertex k = (r_k sin(k d), r_k cos(k d)), next = (r_(k+1) sin(k d + d), r_(k+1) cos(k d + d)), d = 2 pi / n' if ok else \
                    'vertex coordinates are not the radial parametrisation'
            except NotNumeric as ex:
                ok, why = False, str(ex)[:100]
        elif ok_chain:
            ok, why = _radial_by_value(f, fr0, d['header'])
    rep.check(ok, 'R4', 'radial-vertex-parametrisation', where(fr), why, why)
    rep.sample('polygon: %s' % why)


def _radial_by_value(f, fr0, header):
    """The edge pushed for vertex k, by value: one iteration of the vertex loop is evaluated symbolically (helpers and trait
    impls such as `Line2::from(((x1,y1),(x2,y2)))` by their definitions) and the Line2 stored must be
    start = (r_k sin(k d), r_k cos(k d)), end = (r_(k+1) sin(k d + d), r_(k+1) cos(k d + d)), d = 2 pi / n."""
    from ..nest import Nest
    n = Nest(f, fr0, yields=False, collects=True)
    push = [(bi, t) for bi, t in n.b.calls() if call_matches(t, 'Vec::<T, A>::push') and 'Line2' in (t['args'][1].get('ty', '') if len(t['args']) > 1 else '')]
    if len(push) != 1:
        push = [(bi, t) for bi, t in n.b.calls() if call_matches(t, 'Vec::<T, A>::push')]
    if len(push) != 1:
        return False, 'expected exactly one edge stored per vertex (%d push sites)' % len(push)
    bi = push[0][0]
    around = n.loops_around(bi)
    if len(around) != 1 or around[0]['header'] != header:
        return False, 'the edge is not stored in the vertex loop'
    try:
        sx, outs = n.iteration(around[0], {bi})
    except Exception as ex:      # noqa: BLE001
        return False, 'one iteration of the vertex loop could not be evaluated (%s)' % str(ex)[:60]
    hits = [o for o in outs if isinstance(o.ret, tuple) and o.ret[0] == 'stopped' and o.ret[1] == bi]
    if sx.aborted or len(hits) != 1 or len(outs) != 1:
        return False, 'the edge is stored conditionally (%d of %d paths)' % (len(hits), len(outs))
    v = n.arg_values(sx, hits[0], bi)[1]
    st, en = (sfield(v, 'start'), sfield(v, 'end')) if isinstance(v, tuple) and v[0] == 'struct' else (None, None)
    if st is None or en is None:
        return False, 'the stored value is not a Line2 with start / end points'
    item = 'item%d' % header
    nn = Norm()
    try:
        k_ = nn.rf(('app', 'as:f64', (SYM(item + '.0'),)))
        r1, r2 = nn.rf(SYM(item + '.1.0')), nn.rf(SYM(item + '.1.1'))
        pts_param = [fr0.local_name(i) for i in fr0.args() if fr0.local_ty(i).startswith('std::vec::Vec<f64')]
        if len(pts_param) != 1:
            return False, 'from_radial does not take one Vec<f64> of radii'
        nsym = nn.rf(('app', 'as:f64', (('app', 'Vec::len', (SYM(pts_param[0]),)),)))
        dl = nn.const(2 * PI) / nsym
        want = [[r1 * nn.fn('sin', k_ * dl), r1 * nn.fn('cos', k_ * dl)],
                [r2 * nn.fn('sin', k_ * dl + dl), r2 * nn.fn('cos', k_ * dl + dl)]]
        got = [[nn.rf(sfield(st, 'x')), nn.rf(sfield(st, 'y'))], [nn.rf(sfield(en, 'x')), nn.rf(sfield(en, 'y'))]]
        ok = all(got[i][j].equals(want[i][j]) for i in range(2) for j in range(2))
    except (NotNumeric, TypeError, AttributeError) as ex:
        return False, 'vertex coordinates are not arithmetic: %s' % str(ex)[:80]
    if not ok:
        return False, 'vertex coordinates are not the radial parametrisation'
    return True, 'vertex k = (r_k sin(k d), r_k cos(k d)), next = (r_(k+1) sin(k d + d), r_(k+1) cos(k d + d)), d = 2 pi / n (by value)'


def _discs_by_value(ctx, ab):
    rep, f = ctx.rep, ctx.facts
    from ..nest import Nest, single_loop_sum, items_source as _is
    rep.saw(ab)
    nst = Nest(f, ab, yields=False)
    r = nst.tr.origin({'k': 'copy', 'l': 0, 'p': []})
    ok = r['o'] == 'rvalue' and r['rv']['r'] == 'binop' and r['rv']['op'] == 'Sub'
    why = 'area is not total - overlaps'
    okd = okl = False
    whyl = 'pair term not evaluated'
    if ok:
        ok1, why1, i1 = single_loop_sum(f, ab, ret_op=r['rv']['a'], nest=nst)
        ok2, why2, i2 = single_loop_sum(f, ab, ret_op=r['rv']['b'], nest=nst, allow_adaptors=('tuple_combinations',))
        ok = ok1 and ok2 and i1['source'] == (1, ['items']) and i2['loop']['adaptors'] == ['tuple_combinations']
        if ok:
            pair_src = None
            for nm, tt, cbb in i2['loop']['chain_terms']:
                if nm == 'tuple_combinations':
                    pair_src = _is(f, nst.tr, tt['args'][0])
            ok = pair_src == (1, ['items'])
        why = 'area = sum(pi r^2 over items) - sum(lens over tuple_combinations of items)' if ok else \
            'total: %s / overlaps: %s' % (why1, why2)
        if ok:
            n = i1['norm']
            it1 = i1['item']
            okd = len(i1['terms']) == 1 and not [c for c in i1['terms'][0][0] if c[0] != 'assume']
            if okd:
                okd = i1['terms'][0][1].equals(n.const(PI) * n.atom(it1 + '.radius') * n.atom(it1 + '.radius'))
            n2 = i2['norm']
            it2 = i2['item']
            try:
                r1, r2 = n2.atom(it2 + '.0.radius'), n2.atom(it2 + '.1.radius')
                dx = n2.atom(it2 + '.0.position.x') - n2.atom(it2 + '.1.position.x')
                dy = n2.atom(it2 + '.0.position.y') - n2.atom(it2 + '.1.position.y')
                d = n2.fn('sqrt', dx * dx + dy * dy)
                two = n2.const(2)
                d1 = (d * d + r1 * r1 - r2 * r2) / (two * d)
                d2 = (d * d + r2 * r2 - r1 * r1) / (two * d)
                seg = lambda rr, dd: rr * rr * n2.fn('acos', dd / rr) - dd * n2.fn('sqrt', rr * rr - dd * dd)      # noqa: E731
                ref = seg(r1, d1) + seg(r2, d2)
                guard = d - (r1 + r2)
                inside = outside = False
                extra = False
                for pc, val in i2['terms']:
                    conds = [n2.cmp_canon(c[1], c[2]) for c in pc if c[0] == 'cond']
                    if len(conds) == 1 and conds[0][0] == 'cmp' and conds[0][1] in ('Lt', 'Le') and conds[0][2].equals(guard):
                        inside = val.equals(ref)
                        whyl = 'lens = %s' % ('two-segment formula' if inside else val.canon()[:160])
                    elif len(conds) == 1 and conds[0][0] == 'cmp' and conds[0][1] in ('Lt', 'Le') and conds[0][2].equals(-guard):
                        outside = val.is_zero()
                    else:
                        extra = True
                okl = inside and outside and not extra
                if extra:
                    whyl = 'the pair term has a case that is neither "d < r1 + r2" nor its complement'
            except (NotNumeric, TypeError, KeyError) as ex:
                whyl = str(ex)[:100]
    rep.check(okd, 'R5', 'single-disc-term-is-pi-r2', where(ab), 'pi * r^2', 'the per-disc term is not pi r^2')
    rep.check(okl, 'R5', 'pair-term-is-circle_overlap-of-the-pair', where(ab), 'the pair term is the lens of the two members of the pair (by value)',
              'the pair term is not the lens of the two members of the pair: %s' % whyl)
    rep.check(ok, 'R5', 'inclusion-exclusion-to-second-order', where(ab), why,
              'the disc-union area is not sum of discs minus each unordered pair\'s lens once: %s' % why)
    rep.check(okl, 'R5', 'lens-formula', where(ab),
              'd < r1+r2: r1^2 acos(d1/r1) - d1 sqrt(r1^2-d1^2) + (1<->2), d1 = (d^2+r1^2-r2^2)/2d; else 0 (by value)',
              'the pair term is not the two-segment lens formula guarded by d < r1 + r2: %s' % whyl)
    rep.sample('disc union (by value): sum(pi r^2) - sum over unordered pairs of the lens area')


def _discs(ctx):
    rep, f = ctx.rep, ctx.facts
    ADTM = 'shape::molecular_shape2::MolecularShape2'
    ab = f.one(self_adt=ADTM, trait='Intersect', name='area')
    co_ = f.one(self_adt=ADTM, name='circle_overlap')
    if ab is not None and co_ is None:
        # the lens is not a function called circle_overlap: decide the pair term by value (whatever it calls is evaluated by its
        # definition) against the same two-segment formula
        _discs_by_value(ctx, ab)
        return
    if not rep.check(ab is not None and co_ is not None, 'R5', 'anchor:MolecularShape2::{area,circle_overlap}', ADTM, 'found', 'not found', 'anchor-lost'):
        return
    rep.saw(ab)
    rep.saw(co_)
    t = Tracer(ab)
    r = t.origin({'k': 'copy', 'l': 0, 'p': []})
    from ..nest import Nest, single_loop_sum
    nst = Nest(f, ab, yields=False)
    r = nst.tr.origin({'k': 'copy', 'l': 0, 'p': []})
    ok = r['o'] == 'rvalue' and r['rv']['r'] == 'binop' and r['rv']['op'] == 'Sub'
    why = 'area is not total - overlaps'
    if ok:
        ok1, why1, i1 = single_loop_sum(f, ab, ret_op=r['rv']['a'], nest=nst)
        ok2, why2, i2 = single_loop_sum(f, ab, ret_op=r['rv']['b'], nest=nst, allow_adaptors=('tuple_combinations',),
                                        opaque=('circle_overlap',))
        ok = ok1 and ok2 and i1['source'] == (1, ['items']) and i2['loop']['adaptors'] == ['tuple_combinations']
        if ok:
            # the pair loop ranges over the same items
            from ..nest import items_source as _is
            pair_src = None
            for nm, tt, cbb in i2['loop']['chain_terms']:
                if nm == 'tuple_combinations':
                    pair_src = _is(f, nst.tr, tt['args'][0])
            ok = pair_src == (1, ['items'])
        why = 'area = sum(pi r^2 over items) - sum(lens over tuple_combinations of items)' if ok else \
            'total: %s / overlaps: %s' % (why1, why2)
        if ok:
            n = i1['norm']
            it1 = i1['item']
            okd = len(i1['terms']) == 1 and not [c for c in i1['terms'][0][0] if c[0] != 'assume']
            if okd:
                okd = i1['terms'][0][1].equals(n.const(PI) * n.atom(it1 + '.radius') * n.atom(it1 + '.radius'))
            rep.check(okd, 'R5', 'single-disc-term-is-pi-r2', where(ab), 'pi * r^2', 'the per-disc term is not pi r^2')
            n2 = i2['norm']
            it2 = i2['item']
            from ..sym import APP
            okp = len(i2['terms']) == 1 and not [c for c in i2['terms'][0][0] if c[0] != 'assume']
            if okp:
                want = n2.rf(APP('MolecularShape2::circle_overlap', SYM(it2 + '.0'), SYM(it2 + '.1')))
                okp = i2['terms'][0][1].equals(want)
            rep.check(okp, 'R5', 'pair-term-is-circle_overlap-of-the-pair', where(ab), '|(a1,a2)| circle_overlap(a1,a2)',
                      'the pair term does not apply circle_overlap to the two members of the pair')
    rep.check(ok, 'R5', 'inclusion-exclusion-to-second-order', where(ab), why, 'the disc-union area is not sum of discs minus each unordered pair\'s lens once: %s' % why)
    # lens formula
    n = Norm()
    sx = SymEx(f)
    outs = sx.run(co_, [SYM('a1'), SYM('a2')])
    okl = False
    whyl = 'circle_overlap not loop-free'
    if outs and not sx.aborted:
        r1, r2 = n.atom('a1.radius'), n.atom('a2.radius')
        dx = n.atom('a1.position.x') - n.atom('a2.position.x')
        dy = n.atom('a1.position.y') - n.atom('a2.position.y')
        d = n.fn('sqrt', dx * dx + dy * dy)
        two = n.const(2)
        d1 = (d * d + r1 * r1 - r2 * r2) / (two * d)
        d2 = (d * d + r2 * r2 - r1 * r1) / (two * d)
        seg = lambda rr, dd: rr * rr * n.fn('acos', dd / rr) - dd * n.fn('sqrt', rr * rr - dd * dd)
        ref = seg(r1, d1) + seg(r2, d2)
        inside = outside = False
        try:
            for o in outs:
                conds = [n.cmp_canon(c[1], c[2]) for c in o.pc if c[0] == 'cond']
                val = n.rf(o.ret)
                guard = d - (r1 + r2)
                if len(conds) == 1 and conds[0][0] == 'cmp' and conds[0][1] in ('Lt', 'Le') and conds[0][2].equals(guard):
                    inside = val.equals(ref)
                    whyl = 'lens = %s' % ('two-segment formula' if inside else val.canon()[:200])
                elif len(conds) == 1 and conds[0][0] == 'cmp' and conds[0][1] in ('Lt', 'Le') and conds[0][2].equals(-guard):
                    outside = val.is_zero()
            okl = inside and outside
        except NotNumeric as ex:
            whyl = str(ex)[:100]
    rep.check(okl, 'R5', 'lens-formula', where(co_),
              'd < r1+r2: r1^2 acos(d1/r1) - d1 sqrt(r1^2-d1^2) + (1<->2), d1 = (d^2+r1^2-r2^2)/2d; else 0',
              'circle_overlap is not the two-segment lens formula guarded by d < r1 + r2: %s' % whyl)
    rep.sample('disc union: sum(pi r^2) - sum over unordered pairs of the lens area (exact only without triple overlaps)')


def run(ctx):
    _run_rules(ctx)
    from .common import import_obligations
    # a packing fraction in (0, 1] presupposes that a scored state has no overlaps: the structural clauses of C01 (R1, R3-R6)
    import_obligations(ctx, 'C01', 'NOOVERLAP', only_rules={'R1', 'R3', 'R4', 'R5', 'R6'}, floor=10)
    # the trimer whose area is taken is the trimer that was asked for (C12.R7: the two constructors build one geometry)
    import_obligations(ctx, 'C12', 'SHAPE', only_rules={'R7'}, floor=0)


