"""C16 — the built-in tables are the seven named wallpaper groups (finite; decided exhaustively)."""
from .. import tables as T

LEVEL = 'proof'
EXHAUSTIVE = True
EXPLANATION = ('The group table is lifted from the HIR of the single match over WallpaperGroups; every operation '
               'string is read by the checker\'s own coordinate-triplet reader (exact rationals) and the 7 groups / '
               '19 operations / all ordered pairs are checked exhaustively: identity, closure, inverses, no '
               'duplicates modulo Z^2, order, set-equality with the ITA general positions, mirror/glide/two-fold '
               'content, family = lattice system and W^T G W = G for the family\'s generic metric.')


def _run_rules(ctx):
    rep, f = ctx.rep, ctx.facts
    rep.trust('transcription of ITA plane groups 1,2,3,4,6,7,8 in pk/tables.py; triplet reader in pk/tables.py')
    rep.assume('the run-time parser reads these literal strings as the notation defines them (C17 decides only '
               'that it cannot crash; the forms used are x, -x, +-x+1/2 with optional blanks)')
    path, table, problems = T.lift_group_table(f)
    if table is None:
        rep.fail('R1', 'lift', '', '; '.join(problems), 'anchor-lost')
        return
    rep.saw(path)
    where = 'src/wallpaper.rs (%s)' % path
    for p in problems:
        rep.fail('R1', 'lift:' + p[:60], where, p, 'undecidable-shape')
    enum = f.adts.get('wallpaper::WallpaperGroups')
    variants = enum['variants'] if enum else []
    rep.floor('R1', 'WallpaperGroups variants', len(variants), 7, where)
    rep.check(set(variants) == set(table.keys()), 'R1', 'one-arm-per-variant', where,
              'arms cover exactly the enum variants %s' % sorted(variants),
              'arms %s do not cover variants %s' % (sorted(table), sorted(variants)), 'undecidable-shape')
    rep.floor('R1', 'group arms', len(table), 7, where)
    n_ops = sum(len(r['ops'] or []) for r in table.values())
    rep.floor('R1', 'operation strings', n_ops, 19, where)
    pairs = 0
    for v in sorted(table):
        rec = table[v]
        loc = 'src/wallpaper.rs:%s (%s arm %s)' % (rec.get('line'), path, v)
        if rec['ops'] is None:
            continue
        ref = T.ITA.get(v)
        if not rep.check(ref is not None, 'R3', 'known-group:%s' % v, loc, 'ITA No. %s' % (ref or {}).get('no'),
                         'no reference table for a group called %s' % v, 'undecidable-shape'):
            continue
        ops = []
        bad = False
        for s in rec['ops']:
            try:
                ops.append(T.op_mod1(T.read_triplet(s)))
            except T.TripletError as e:
                rep.fail('R1', 'readable:%s:%s' % (v, s), loc, 'operation string not a coordinate triplet: %s' % e)
                bad = True
        if bad:
            continue
        rep.ok('R1', 'readable:%s' % v, loc, '%d operations read: %s' % (len(ops), rec['ops']))
        # R2 group axioms modulo Z^2
        opset = set(ops)
        rep.check(T.op_mod1(T.IDENT) in opset, 'R2', 'identity:%s' % v, loc, 'identity present', 'identity missing')
        rep.check(len(opset) == len(ops), 'R2', 'no-duplicates:%s' % v, loc, 'all distinct modulo Z^2',
                  'two operations coincide modulo lattice translations: %s' % rec['ops'])
        rep.check(len(ops) == T.ORDER[v], 'R2', 'order:%s' % v, loc, 'order %d' % len(ops),
                  'group order is %d, expected %d' % (len(ops), T.ORDER[v]))
        closed = True
        witness = None
        for p in ops:
            for q in ops:
                pairs += 1
                if T.op_mod1(T.compose(p, q)) not in opset:
                    closed = False
                    witness = (p, q)
        rep.check(closed, 'R2', 'closure:%s' % v, loc, 'closed under composition (%d pairs)' % (len(ops) ** 2),
                  'not closed under composition modulo Z^2: %s' % (witness,))
        inv = all(any(T.op_mod1(T.compose(p, q)) == T.op_mod1(T.IDENT) for q in ops) for p in ops)
        rep.check(inv, 'R2', 'inverses:%s' % v, loc, 'every operation has an inverse in the set', 'an inverse is missing')
        # R3 it is the named group
        refset = {T.op_mod1(T.read_triplet(s)) for s in ref['ops']}
        rep.check(opset == refset, 'R3', 'general-positions:%s' % v, loc,
                  'equals ITA No. %d (%s) general positions modulo Z^2' % (ref['no'], ref['hm']),
                  'operations %s are not the general positions %s of plane group No. %d (%s)'
                  % (rec['ops'], ref['ops'], ref['no'], ref['hm']))
        kinds = [T.classify(o) for o in ops]
        content = (kinds.count('mirror'), kinds.count('glide'), kinds.count('twofold'))
        rep.check(content == T.CONTENT[v], 'R3', 'mirror-glide-twofold:%s' % v, loc,
                  'mirrors/glides/two-folds = %s' % (content,),
                  'mirror/glide/two-fold content %s differs from %s' % (content, T.CONTENT[v]))
        # R4 family pairing
        fam = rec['family']
        want = T.SYSTEM_FAMILY[ref['system']]
        rep.check(fam == want, 'R4', 'family:%s' % v, loc, 'family %s = %s lattice system' % (fam, ref['system']),
                  'group %s is paired with family %s, its lattice system (%s) is %s' % (v, fam, ref['system'], want))
        if fam in T.FAMILY_METRIC:
            inv_ok = all(T.metric_invariant(o, fam) for o in ops)
            rep.check(inv_ok, 'R4', 'metric-invariance:%s' % v, loc,
                      'every linear part W satisfies W^T G W = G for the generic %s metric' % fam,
                      'an operation of %s does not leave a generic %s cell invariant' % (v, fam))
        rep.sample('%s (ITA %d %s): ops=%s family=%s content(m,g,2)=%s' % (v, ref['no'], ref['hm'], rec['ops'], fam, content))
    _parser_lemmas(ctx)
    _every_string_becomes_an_operation(ctx)
    rep.extra['pairs_composed'] = pairs
    rep.floor('R2', 'operation pairs composed', pairs, 61, where)


def _every_string_becomes_an_operation(ctx):
    """The property is observed at WyckoffSite::new(..).symmetries: the site's operations are the table's, one per string, in order
    (the obligations of C10.R5 about WyckoffSite::new, imported: no filter, no de-duplication, each string parsed by itself)."""
    from ..harness import Report
    from .C10 import _carried
    rep = ctx.rep
    sub = type('Ctx', (), {})()
    sub.__dict__.update(ctx.__dict__)
    sub.rep = Report('C10', ctx.tier)
    _carried(sub, main=False)
    n = 0
    for o in sub.rep.obligations:
        if 'WyckoffSite::new' not in o['instance'] and 'each-string-parsed' not in o['instance']:
            continue
        n += 1
        if o['ok']:
            rep.ok('R6', 'C10:' + o['instance'], o['construct'], o['why'])
        else:
            rep.fail('R6', 'C10:' + o['instance'], o['construct'], o['why'], o['reason'])
    rep.floor('R6', 'imported obligations on WyckoffSite::new (C10.R5)', n, 3)
    rep.analysed |= sub.rep.analysed


def _parser_lemmas(ctx):
    """The property is observed at WyckoffSite::new(..).symmetries, i.e. after parsing: import C17's per-character lemmas."""
    from ..harness import Report
    from .C17 import transition_lemmas
    rep, f = ctx.rep, ctx.facts
    fo = f.one(self_adt='transform::Transform2', name='from_operations')
    if not rep.check(fo is not None, 'R5', 'anchor:from_operations', 'transform::Transform2', 'found', 'parser not found', 'anchor-lost'):
        return
    sub = type('Ctx', (), {})()
    sub.__dict__.update(ctx.__dict__)
    sub.rep = Report('C17', ctx.tier)
    transition_lemmas(sub, fo)
    for o in sub.rep.obligations:
        if o['ok']:
            rep.ok('R5', 'parser:' + o['instance'], o['construct'], o['why'])
        else:
            rep.fail('R5', 'parser:' + o['instance'], o['construct'], o['why'], o['reason'])


def run(ctx):
    _run_rules(ctx)
    from .common import import_obligations
    # the cell built for a family is one the family's operations leave invariant (C04.R3: angle start and degrees of freedom per family)
    import_obligations(ctx, 'C04', 'R7', only_rules={'R3'}, floor=5)
    # ... and a cloned cell keeps family and parameters (C04.R4)
    import_obligations(ctx, 'C04', 'R7', only_rules={'R4'}, floor=1)

