"""C08 — optimisation keeps parameters in range and the cell in its crystal family (clauses)."""
import math
from fractions import Fraction

from ..anchors import is_trait_call
from ..celltables import dof_table, eval_num, from_family_table, interval, recorder, site_basis_table
from ..harness import where
from ..mirutil import Tracer, call_matches, const_value
from ..sym import NUM, SYM, SymEx, sfield
from ..terms import Norm, NotNumeric
from .common import rule_writers

LEVEL = 'other'
EXPLANATION = ('(R1) who-may-write: only StandardBasis::{set_value,reset_value} write a parameter cell. (R2) the value '
               'stored by set_value is executed symbolically on all paths and compared with clamp(x, min, max) on every '
               'ordering of x against the handle\'s own bounds. (R3) the declared ranges and the free parameters per crystal '
               'family are lifted (symbolic execution with a recording model for Vec::push) and compared with the ranges the '
               'property states, upper bounds of length/ratio being the CURRENT value of the same cell (chained stages nest). '
               '(R4) initial values lie in their ranges by interval evaluation of the constructors.')

F001 = Fraction(0.01)
F01 = Fraction(0.1)
PI = Fraction(math.pi)


def _run_rules(ctx):
    rep, f = ctx.rep, ctx.facts
    rep.trust('pk/sym.py symbolic interpreter, recording model for Vec::push, exact rationals of f64 literals')
    rep.assume('the initial cell length c*R*N is >= 0.01 (shapes have a positive enclosing radius); scores of valid states '
               'are finite; the final `assert!(score().is_some())` is accounted for under C20')
    rule_writers(ctx, 'R1')
    _clamp(ctx)
    _ranges(ctx)
    _initial(ctx)
    # which family a group's cell is created in: the group table (C16 R1 lifting, R4 family = lattice system of the group)
    from .common import import_obligations
    import_obligations(ctx, 'C16', 'R5', only_rules={'R1', 'R4'}, floor=10)


def _clamp(ctx):
    rep, f = ctx.rep, ctx.facts
    b = f.one(self_adt='basis::StandardBasis', trait='Basis', name='set_value')
    if not rep.check(b is not None, 'R2', 'anchor:StandardBasis::set_value', 'basis::StandardBasis', 'found', 'not found', 'anchor-lost'):
        return
    rep.saw(b)
    sx = SymEx(f, models=[recorder({'basis::SharedValue::set_value': 'cellwrite'})])
    outs = sx.run(b, [SYM('self'), SYM('x')])
    if not rep.check(bool(outs) and not sx.aborted, 'R2', 'set_value-loop-free', where(b), '%d paths' % len(outs),
                     'set_value is not loop-free', 'undecidable-shape'):
        return
    # orderings of x against (min, max): representative points
    points = [('x<min', -5, 0, 10), ('x=min', 0, 0, 10), ('min<x<max', 5, 0, 10), ('x=max', 10, 0, 10), ('x>max', 15, 0, 10),
              ('min=max,x<', -1, 3, 3), ('min=max,x=', 3, 3, 3), ('min=max,x>', 4, 3, 3)]
    from ..celltables import bound_places
    bp = bound_places(f) or ('self.min', 'self.max')
    rep.sample('bounds of a basis are held in %s / %s (read off what set_value compares with and stores)' % bp)
    for label, x, lo, hi in points:
        env = {'x': Fraction(x), bp[0]: Fraction(lo), bp[1]: Fraction(hi), 'self.value.value': Fraction(7),
               'self.old': Fraction(7)}
        feas = []
        for o in outs:
            ok = True
            for c in o.pc:
                if c[0] != 'cond':
                    continue
                try:
                    if bool(eval_num(c[1], env)) != c[2]:
                        ok = False
                        break
                except (KeyError, ValueError):
                    from ..optmodel import _mentions_opaque
                    if _mentions_opaque(c[1]) and not any(s_ in repr(c[1]) for s_ in ("'x'", bp[0], bp[1])):
                        continue        # a test of something else (is the log level enabled?): both outcomes are possible
                    ok = None
                    break
            if ok:
                feas.append(o)
            elif ok is None:
                feas = None
                break
        if feas:
            # paths that differ only in such tests must store the same thing
            w0 = repr([e[1] for e in feas[0].effects if e[0] == ('rec', 'cellwrite')])
            if any(repr([e[1] for e in o2.effects if e[0] == ('rec', 'cellwrite')]) != w0 for o2 in feas[1:]):
                feas = None
        if not feas:
            rep.fail('R2', 'clamp:%s' % label, where(b), 'cannot decide which path of set_value is taken for %s '
                     '(%s feasible)' % (label, None if feas is None else len(feas)), 'undecidable-shape')
            continue
        writes = [e for e in feas[0].effects if e[0] == ('rec', 'cellwrite')]
        want = min(max(Fraction(x), Fraction(lo)), Fraction(hi))
        ok = len(writes) == 1
        got = None
        if ok:
            cell, val = writes[0][1][0], writes[0][1][1]
            try:
                got = eval_num(val, env)
            except (KeyError, ValueError):
                got = None
            ok = got == want and cell == SYM('self.value')
        rep.check(ok, 'R2', 'clamp:%s' % label, where(b), 'stores clamp(x, min, max) = %s in its own cell' % want,
                  'for %s (x=%s, min=%s, max=%s) set_value stores %s, expected %s' % (label, x, lo, hi, got, want))
    rep.sample('set_value: %d paths; stored value == clamp(x,min,max) on 8 orderings' % len(outs))
    # a set_sampled that does not go through set_value clamps on its own account
    from .common import direct_sampler
    ds = direct_sampler(ctx)
    if ds is not None:
        rep.check(ds['ok'], 'R2', 'clamp:set_sampled-writes-directly', where(ds['body']), ds['why'],
                  'set_sampled writes the cell without going through set_value and ' + ds['why'])
    # min / max have no writer but the constructor
    from .common import places_in_body
    n = 0
    for body in f.bodies.values():
        for bi, si, pl, w in places_in_body(body):
            if not w:
                continue
            names = [e.get('n') for e in pl['p'] if isinstance(e, dict) and 'f' in e]
            owners = [e.get('of', '') for e in pl['p'] if isinstance(e, dict) and 'f' in e]
            for bpath in (bp[0].split('.')[1:], bp[1].split('.')[1:]):
                k2 = len(bpath)
                for i2 in range(len(names) - k2 + 1):
                    if names[i2:i2 + k2] == bpath and owners[i2].replace('packing::', '').startswith('basis::StandardBasis'):
                        n += 1
                        rep.fail('R2', 'bounds-are-immutable:%s' % body.path, where(body, bi),
                                 'StandardBasis.%s is assigned after construction' % '.'.join(bpath))
    rep.ok('R2', 'bounds-are-immutable', 'basis::StandardBasis', 'min/max are only set by the constructor')


def _eq(n, v, q):
    try:
        return n.rf(v).equals(n.const(q))
    except (NotNumeric, TypeError):
        return False


def _cv(n, v):
    try:
        return n.canon_value(v) if v is not None else '(not lifted)'
    except Exception:      # noqa: BLE001
        return repr(v)[:60]


def _ranges(ctx):
    rep, f = ctx.rep, ctx.facts
    n = Norm()
    t, err, b = dof_table(f)
    if not rep.check(t is not None, 'R3', 'anchor:get_degrees_of_freedom', where(b) if b else 'cell::Cell2', 'lifted', err or '',
                     'anchor-lost' if b is None else 'undecidable-shape'):
        return
    rep.saw(b)
    want = {
        'Monoclinic': ['length', 'ratio', 'angle'],
        'Orthorhombic': ['length', 'ratio'],
        'Hexagonal': ['length'],
        'Tetragonal': ['length'],
    }
    rep.floor('R3', 'crystal families with a DOF entry', len(t), 4, where(b))
    for fam, fields in want.items():
        got = t.get(fam)
        if not rep.check(got is not None, 'R3', 'dof:%s' % fam, where(b), 'present', 'no degrees of freedom lifted for %s' % fam,
                         'undecidable-shape'):
            continue
        names = [g[0] for g in got]
        rep.check(sorted(names) == sorted(fields), 'R3', 'dof:%s' % fam, where(b), 'free parameters %s' % names,
                  'family %s frees %s, the property allows %s (an extra cell parameter lets the cell leave its family, a '
                  'missing one freezes it)' % (fam, names, fields))
        for fld, lo, hi in got:
            if fld == 'length':
                ok = _eq(n, lo, F001) and hi == SYM('self.length.value')
                txt = '[0.01, current length]'
            elif fld == 'ratio':
                ok = _eq(n, lo, F01) and hi == SYM('self.ratio.value')
                txt = '[0.1, current ratio]'
            elif fld == 'angle':
                ok = _eq(n, lo, PI / 6) and _eq(n, hi, PI / 2)
                txt = '[pi/6, pi/2]'
            else:
                ok, txt = False, '?'
            rep.check(ok, 'R3', 'range:%s.%s' % (fam, fld), where(b), '%s in %s' % (fld, txt),
                      '%s.%s is bounded by [%s, %s], the property states %s' % (fam, fld, _cv(n, lo), _cv(n, hi), txt))
        rep.sample('%s: %s' % (fam, [(g[0], _cv(n, g[1])[:24], _cv(n, g[2])[:24]) for g in got]))
    st, err, sb = site_basis_table(f)
    if rep.check(st is not None, 'R3', 'anchor:get_basis', where(sb) if sb else 'site::OccupiedSite', 'lifted', err or '',
                 'anchor-lost' if sb is None else 'undecidable-shape'):
        rep.saw(sb)
        d = {x[0]: x for x in st}
        rep.check(sorted(d) == ['angle', 'x', 'y'], 'R3', 'site-dof', where(sb), 'x, y, angle', 'site bases are %s' % sorted(d))
        half = Fraction(1, 2)
        for fld in ('x', 'y'):
            if fld in d:
                rep.check(_eq(n, d[fld][1], -half) and _eq(n, d[fld][2], half), 'R3', 'range:site.%s' % fld, where(sb),
                          '[-1/2, 1/2]', 'site %s is bounded by [%s, %s], expected [-1/2, 1/2]'
                          % (fld, n.canon_value(d[fld][1]), n.canon_value(d[fld][2])))
        if 'angle' in d:
            try:
                hi = n.rf(d['angle'][2])
                ref = n.const(2 * PI) / n.atom('rot_symmetry')
                ok = _eq(n, d['angle'][1], 0) and hi.equals(ref)
            except (NotNumeric, TypeError):
                ok = False
            rep.check(ok, 'R3', 'range:site.angle', where(sb), '[0, 2*pi/rot_symmetry]',
                      'site orientation is bounded by [%s, %s], expected [0, 2*pi/rot]' % (n.canon_value(d['angle'][1]), n.canon_value(d['angle'][2])))
        # rot_symmetry passed by the generate_basis impls
        nrot = 0
        units = []
        for im0 in ctx.cg.impls_of('traits::State', 'generate_basis'):
            units += [im0] + list(f.closures_of(im0))     # the call may sit in a closure handed to flat_map / map
        for im in units:
            tr = Tracer(im)
            for bi, tt in im.calls():
                if call_matches(tt, 'OccupiedSite::get_basis'):
                    nrot += 1
                    o = tr.origin(tt['args'][1])
                    v = const_value(o['c']) if o['o'] == 'const' else None
                    rep.check(v == 1, 'R3', 'rot_symmetry=1:%s' % f.norm(im.impl_self_adt or im.path.split('>::')[0].split(' as ')[0].lstrip('<')), where(im, bi), 'get_basis(1): orientation in [0, 2*pi]',
                              'generate_basis passes rot_symmetry=%s: the orientation range is not [0, 2*pi]' % v)
        rep.floor('R3', 'get_basis call sites', nrot, 2)


def _initial(ctx):
    rep, f = ctx.rep, ctx.facts
    n = Norm()
    t, err, b = from_family_table(f)
    if rep.check(t is not None, 'R4', 'anchor:from_family', where(b) if b else 'cell::Cell2', 'lifted', err or '',
                 'anchor-lost' if b is None else 'undecidable-shape'):
        rep.saw(b)
        for fam, vals in sorted(t.items()):
            okr = _eq(n, vals.get('ratio'), 1)
            rep.check(okr, 'R4', 'initial-ratio:%s' % fam, where(b), 'ratio = 1 in [0.1, 1]', 'initial ratio of %s is %s' % (fam, n.canon_value(vals.get('ratio'))))
            a = vals.get('angle')
            if fam == 'Hexagonal':
                ok = _eq(n, a, PI / 3)
            else:
                ok = _eq(n, a, PI / 2)
            rep.check(ok, 'R4', 'initial-angle:%s' % fam, where(b), 'pi/2 (pi/3 for hexagonal)',
                      'initial angle of %s is %s' % (fam, n.canon_value(a)))
            rep.check(vals.get('family') == SYM('family'), 'R4', 'initial-family:%s' % fam, where(b), 'family = argument',
                      'from_family stores a different family than it was given')
    fw = f.one(self_adt='site::OccupiedSite', name='from_wyckoff')
    if rep.check(fw is not None, 'R4', 'anchor:from_wyckoff', 'site::OccupiedSite', 'found', 'not found', 'anchor-lost'):
        rep.saw(fw)
        sx = SymEx(f, opaque=['WyckoffSite::multiplicity'])
        outs = sx.run(fw, [SYM('wyckoff')])
        # (paths that differ only in whether a log line is written build the same site)
        ok = len(outs) >= 1 and len({repr(sx.deep(o_.st, o_.ret)) for o_ in outs}) == 1 and not sx.aborted and \
            all(c_[0] != 'cond' for o_ in outs for c_ in o_.pc)
        if ok:
            r = sx.deep(outs[0].st, outs[0].ret)
            for fld, lo, hi in (('x', -0.5, 0.5), ('y', -0.5, 0.5), ('angle', 0.0, 2 * math.pi)):
                v = sfield(r, fld)
                inner = sfield(v, 'value') if v and v[0] == 'struct' else None
                if inner and inner[0] == 'app' and inner[1].endswith('UnsafeCell::new'):
                    inner = inner[2][0]
                try:
                    # multiplicity >= 1 (a group has at least the identity)
                    syms = {}

                    def collect(x):
                        if isinstance(x, tuple):
                            if x[0] == 'app' and 'multiplicity' in x[1]:
                                syms[x] = (1.0, float('inf'))
                            for y in x:
                                collect(y)
                    collect(inner)
                    # replace the opaque multiplicity application by a symbol
                    def repl(x):
                        if isinstance(x, tuple):
                            if x in syms:
                                return SYM('N')
                            return tuple(repl(y) for y in x)
                        return x
                    iv = interval(repl(inner), {'N': (1.0, float('inf'))})
                    okv = lo <= iv[0] and iv[1] <= hi
                    rep.check(okv, 'R4', 'initial-site-%s' % fld, where(fw), 'initial %s in [%.3g, %.3g] within [%.3g, %.3g]' % (fld, iv[0], iv[1], lo, hi),
                              'the initial site %s can lie in [%s, %s], outside its declared range [%s, %s]' % (fld, iv[0], iv[1], lo, hi))
                except (ValueError, KeyError, TypeError) as e:
                    rep.fail('R4', 'initial-site-%s' % fld, where(fw), 'cannot bound the initial value: %s' % str(e)[:100], 'undecidable-shape')
        else:
            rep.fail('R4', 'from_wyckoff-loop-free', where(fw), 'from_wyckoff is not a single loop-free path', 'undecidable-shape')


def thorough(ctx):
    """Thorough tier: compile-fail witnesses (+ compiling twins) for the type-level remainder."""
    from ..witness import run_witnesses
    rep = ctx.rep
    res, tail, rc = run_witnesses(ctx.repo)
    wanted = {'W3aCellIsPrivate': 'the parameter cell is private', 'W3bBasisFieldsArePrivate': 'bounds of a handle cannot be forged', 'W3cOptimiserFieldsArePrivate': 'optimiser fields are private'}
    n = 0
    for name, verdict in sorted(res.items()):
        w, kind, _line = name.split(':')
        if w not in wanted:
            continue
        n += 1
        rep.check(verdict == 'ok', 'W', '%s:%s' % (w, kind), 'witness/src/lib.rs', wanted[w] + (' (does not compile)' if kind == 'compile_fail' else ' (twin compiles)'),
                  'witness %s/%s failed: the type-level guarantee "%s" no longer holds for downstream code (or the public API it uses changed)' % (w, kind, wanted[w]))
    rep.floor('W', 'witness doctests', n, 6, 'witness/src/lib.rs')


def run(ctx):
    _run_rules(ctx)
    from .common import import_obligations
    # the starting cell length is 4 * enclosing radius * copies: the radius must enclose the shape (C01.R6)
    import_obligations(ctx, 'C01', 'R6', only_rules={'R6'}, floor=2)
    # chained stages start from clones: a clone has the same parameters and family (C09.R3)
    import_obligations(ctx, 'C09', 'R7', only_rules={'R3'}, floor=2)
