"""C10 — the CLI writes the best replica, labelled with what was asked for."""
import re

from .. import tables as T
from ..anchors import is_trait_call
from ..cfg import CFG
from ..harness import where
from ..lineage import adaptor_chain, through
from ..mirutil import Defs, Tracer, call_matches, callee_name, field_path

LEVEL = 'other'
EXPLANATION = ('Dataflow over the MIR of the binary\'s pipeline function and the two state orderings: the written, '
               'logged and drawn value is the single result of ParallelIterator::max over the last stage; Ord::cmp is '
               'partial_cmp(self, other).unwrap() and partial_cmp compares score(self) with score(other) in that order; '
               'the group table\'s label equals the CLI variant name for all 7 groups; labels, family and every '
               'operation string are carried into the state; replica closures do not capture the replica count.')


def pipeline_fn(f):
    """The bin function that contains the parallel reduction."""
    out = []
    for b in f.bodies.values():
        if b.crate_kind != 'bin' or b.is_closure:
            continue
        if any(call_matches(t, 'ParallelIterator::max', 'ParallelIterator::max_by', 'ParallelIterator::min',
                            'ParallelIterator::reduce', 'ParallelIterator::min_by', 'ParallelIterator::max_by_key',
                            'ParallelIterator::min_by_key', 'ParallelIterator::find_any', 'ParallelIterator::find_first',
                            'ParallelIterator::reduce_with', 'ParallelIterator::collect')
               for _, t in b.calls()):
            out.append(b)
    return out


def _run_rules(ctx):
    rep, f, cg = ctx.rep, ctx.facts, ctx.cg
    rep.trust('rayon: map calls its closure once per item, max returns a maximal item by Ord (documented behaviour)')
    pfs = pipeline_fn(f)
    if not rep.check(len(pfs) == 1, 'R1', 'anchor:pipeline-function', 'src/main.rs',
                     'found', 'expected exactly one bin function with a parallel reduction, found %d' % len(pfs),
                     'anchor-lost'):
        return
    from ..nest import Nest
    rep.saw(pfs[0])
    # nest form (pk/loopform.py): helpers unknown to the reference tree are spliced in, and the parallel reduction reads
    # `for index in range { candidate(stages(index)) }; max(..)` with the map closures spliced into the loop body
    nst = Nest(f, pfs[0], yields=False)
    b = nst.b
    tr = nst.tr
    # ---- R1 selection ----------------------------------------------------------------
    ser = [(bi, t) for bi, t in b.calls() if call_matches(t, 'serde_json::to_string', 'serde_json::to_writer',
                                                           'serde_json::to_string_pretty', 'serde_json::to_vec')]
    if not rep.floor('R3', 'serde_json serialisation calls in the pipeline function', len(ser), 1, where(b)):
        return
    o, steps = through(tr, ser[0][1]['args'][0])
    final_l = o.get('l')
    o2, steps2 = through(tr, {'k': 'copy', 'l': final_l, 'p': []}) if final_l is not None else (o, [])
    red = o2 if o2['o'] == 'call' else o
    is_max = red['o'] == 'call' and call_matches(red['term'], 'ParallelIterator::max')
    if not is_max and red['o'] == 'call' and call_matches(red['term'], 'ParallelIterator::max_by') and len(red['term']['args']) > 1:
        # max_by(|a, b| a.cmp(b)) is the same reduction
        co = tr.origin(red['term']['args'][1])
        cb = None
        if co['o'] == 'rvalue' and co['rv'].get('agg') == 'closure':
            cb = f.body(co['rv']['closure']) or f.bodies.get('bin::' + co['rv']['closure'])
        if cb is not None:
            tcb = Tracer(cb)
            calls = list(cb.calls())
            if len(calls) == 1 and call_matches(calls[0][1], 'Ord>::cmp', 'Ord::cmp') and calls[0][1]['dest']['l'] == 0:
                a0, a1 = tcb.origin(calls[0][1]['args'][0]), tcb.origin(calls[0][1]['args'][1])
                is_max = a0['o'] == 'arg' and a1['o'] == 'arg' and a0['l'] == 2 and a1['l'] == 3
    rep.check(is_max, 'R1', 'written-state-is-the-max', where(b, red.get('bb', ser[0][0])),
              'serialised value <- %s <- ParallelIterator::max' % ' <- '.join(steps + steps2),
              'the serialised value is not the result of ParallelIterator::max over the replicas (it comes from %s)'
              % (callee_name(red['term']) if red['o'] == 'call' else red['o']))
    if is_max:
        # what `max` compares: the replica's state (whose Ord is the score order, R2) — or a wrapper whose ordering looks at the
        # state FIRST (a tuple / a struct with derived lexicographic Ord and the state as first component; later components
        # only break ties between equal scores)
        ity = red['term']['dest'].get('ty', '')
        m_ = re.match(r'^std::option::Option<(.*)>$', ity)
        item_ty = m_.group(1) if m_ else ity
        okt, whyt = _compares_state_first(f, item_ty)
        rep.check(okt, 'R1', 'max-compares-the-score-first', where(b, red['bb']), whyt,
                  'the reduction picks the maximum of %s, which does not order replicas by the score of their state first: %s'
                  % (item_ty[:80], whyt))
        cands = nst.calls(lambda tt: tt['func'].get('fn') == 'pk::candidate')
        loops = nst.loops_around(cands[0][0]) if len(cands) == 1 else []
        lp = loops[0] if len(loops) == 1 else None
        from ..lineage import significant
        okc = lp is not None and not significant(lp['chain']) and nst.every_iteration_reaches(lp, cands[0][0])
        if okc:
            # the reduction consumes the iterator the loop ranges over
            ro = tr.origin(red['term']['args'][0])
            okc = ro.get('l') == lp['iter_local'] or tr.origin({'k': 'copy', 'l': lp['iter_local'], 'p': []}).get('l') == ro.get('l')
        rep.check(okc, 'R1', 'reduction-over-all-stage-outputs', where(b, red['bb']),
                  'max over one candidate per replica index (fused: %s)' % (b.fused,),
                  'the reduction input passes through an adaptor that can drop or reorder replicas, or a replica does not always '
                  'produce a candidate: %s' % ([d['chain'] for d in loops],))
        body = lp['loop']['body'] if lp is not None else set()
        nstage = len([1 for bi, tt in b.calls() if bi in body and call_matches(tt, 'optimise_state')])
        rep.floor('R1', 'optimisation stages in the replica pipeline', nstage, 3, where(b))
        # empty set of replicas: None -> Err, not a panic
        allsteps = steps + steps2
        # anyhow's `Context` on an Option is ok_or_else(|| anyhow!(context)): None -> Err
        opt_ctx = any(s.endswith(('for std::option::Option<T>>::context', 'for std::option::Option<T>>::with_context'))
                      for s in allsteps)
        rep.check((any('ok_or' in s for s in allsteps) or opt_ctx) and not any(s.endswith(('unwrap', 'expect')) for s in allsteps),
                  'R1', 'empty-reduction-is-an-error', where(b, red['bb']),
                  'None from max is mapped to Err by ok_or_else / Option::context and propagated with ?',
                  'the result of max is unwrapped: zero replications would panic')
        # R6: the range end is the count parameter; a replica does not depend on it
        cnt_local = None
        cnt_path = ()
        rng = lp['src'] if lp is not None else {'o': '?'}
        if rng['o'] == 'rvalue' and rng['rv']['r'] == 'aggr' and 'Range' in rng['rv'].get('adt', ''):
            lo, hi = rng['rv']['ops']
            oh = tr.origin(hi)
            if oh['o'] == 'arg':
                cnt_local = oh['l']
                cnt_path = tuple(field_path(oh['p']))       # the count may be a field of a parameter (`self.replications`)
            rep.check(lo.get('k') == 'const' and lo.get('int') == '0' and oh['o'] == 'arg', 'R6', 'replica-range',
                      where(b, rng['bb']), 'replicas = 0..<count parameter _%s>' % cnt_local,
                      'the replica index range is not 0..count')
        else:
            rep.fail('R6', 'replica-range', where(b), 'cannot recognise the replica index range', 'undecidable-shape')
        from .common import places_in_body
        bad = []
        nuse = 0
        for bi, si, pl, wr in places_in_body(b):
            if bi not in body or bi == (lp or {}).get('header'):
                continue
            nuse += 1
            o = tr.origin(dict(pl, k='copy')) if not wr else {'o': '?'}
            if cnt_local is not None and o['o'] == 'arg' and o['l'] == cnt_local:
                up = tuple(field_path(o['p']))
                k = min(len(up), len(cnt_path))
                if up[:k] == cnt_path[:k] and (up or not cnt_path):
                    bad.append((bi, si, pl))      # the place read is the count, a part of it, or a struct containing it
        if bad:
            # a replica that only REPORTS the count ("3 of 100 replicas complete"): every read of it inside the replica flows into
            # the arguments of a log / print line and nowhere else
            from .C09 import _flows_only_to_log
            seeds = set()
            for bi, si, pl in bad:
                blk = b.blocks[bi]
                st_ = blk['stmts'][si] if isinstance(si, int) and si < len(blk['stmts']) else None
                if st_ is not None and st_['s'] == 'assign' and not st_['place']['p']:
                    seeds.add(st_['place']['l'])
                elif si == 'term' and not pl.get('p') and pl.get('l') != cnt_local:
                    seeds.add(pl['l'])          # a local that already holds (a reference to) the count, used by a call
                else:
                    seeds = None
                    break
            if seeds and _flows_only_to_log(b, seeds) is True:
                rep.note('R6: the replication count is read inside a replica only to be reported in a log line')
                bad = []
        bad = [x[0] if isinstance(x, tuple) else x for x in bad]
        rep.check(not bad, 'R6', 'replica-does-not-use-count', where(b, bad[0]) if bad else where(b),
                  'no value inside the replica loop derives from the replication count',
                  'a replica reads the replication count: replica i is no longer the same computation for every count > i')
        rep.floor('R6', 'places inspected in the replica loop', nuse, 20, where(b))
    # ---- R3 one object ---------------------------------------------------------------
    if final_l is not None:
        nm = b.local_name(final_l)
        n_sc = 0
        _cands = nst.calls(lambda tt: tt['func'].get('fn') == 'pk::candidate')
        _lps = nst.loops_around(_cands[0][0]) if len(_cands) == 1 else []
        _replica_body = _lps[0]['loop']['body'] if _lps else set()
        for bi, t in b.calls():
            if is_trait_call(t, 'State', 'score') and bi in _replica_body:
                continue        # a score evaluated inside one replica (e.g. logged per replica) is not "the logged final score"
            if is_trait_call(t, 'State', 'score') and red.get('bb') is not None and not CFG(b).dominates(red['bb'], bi):
                continue        # ... nor is one evaluated before the replicas run (validating the starting configuration)
            if is_trait_call(t, 'State', 'score'):
                n_sc += 1
                oo, _ = through(tr, t['args'][0])
                rep.check(oo.get('l') == final_l, 'R3', 'logged-score-is-of-written-state', where(b, bi),
                          'score() of local _%d (%s)' % (final_l, nm),
                          'the logged score is computed from a different object than the one serialised')
            if is_trait_call(t, 'ToSVG', 'as_svg'):
                oo, _ = through(tr, t['args'][0])
                rep.check(oo.get('l') == final_l, 'R3', 'drawn-state-is-written-state', where(b, bi),
                          'as_svg() of local _%d (%s)' % (final_l, nm),
                          'the SVG is drawn from a different object than the one serialised')
        rep.floor('R3', 'score() calls in the pipeline function', n_sc, 1, where(b))
        _files(ctx, b, tr, ser, final_l)
    # ---- R2 order direction ----------------------------------------------------------
    _ordering(ctx)
    # ---- R4 label table --------------------------------------------------------------
    path, table, problems = T.lift_group_table(f)
    if table is None:
        rep.fail('R4', 'lift', '', '; '.join(problems), 'anchor-lost')
    else:
        rep.floor('R4', 'group arms', len(table), 7, path)
        for v in sorted(table):
            rec = table[v]
            loc = 'src/wallpaper.rs:%s (%s arm %s)' % (rec.get('line'), path, v)
            rep.check(rec['name'] == v, 'R4', '%s.name' % v, loc, 'label "%s" = CLI name' % rec['name'],
                      'the group requested as `%s` is labelled "%s" in the written structure' % (v, rec['name']))
            ref = T.ITA.get(v)
            if ref:
                want = T.SYSTEM_FAMILY[ref['system']]
                rep.check(rec['family'] == want, 'R4', '%s.family' % v, loc, 'family %s' % rec['family'],
                          'group %s is written with family %s, expected %s' % (v, rec['family'], want))
                rep.check(rec['ops'] is not None and len(rec['ops']) == T.ORDER[v], 'R4', '%s.copies' % v, loc,
                          '%d operations' % len(rec['ops'] or []),
                          'group %s lists %d operations, its order is %d' % (v, len(rec['ops'] or []), T.ORDER[v]))
            rep.sample('label table: variant %s -> name "%s", family %s, %d ops' % (v, rec['name'], rec['family'],
                                                                                   len(rec['ops'] or [])))
    # ---- R5 carried through ------------------------------------------------------------
    _carried(ctx)
    # R7: "the logged final score is the score of the written structure": what is written is the scored state, value for value
    # (the serialiser fidelity obligations of C11.R1, imported: a writer that rounds, rescales or skips a stored value writes a
    # structure with another score)
    from .common import import_obligations
    import_obligations(ctx, 'C11', 'R7', only_rules={'R1'}, floor=40)
    # R9: one (state kind, shape constructor) per (shape, potential) request: no two arms of the dispatch build the same thing
    _dispatch(ctx)
    # R8: "records the requested ... shape": the command line's values reach the constructors under their own names
    from .common import named_argument_wiring
    named_argument_wiring(ctx, 'R8', [b for b in f.bodies.values() if b.crate_kind == 'bin' and not b.is_closure and not b.derived],
                          min_sites=0, what='the command line')


def _role_of_type(ty):
    ty = (ty or '').replace('packing::', '')
    if 'PathBuf' in ty or ty.endswith('Path'):
        return 'outfile'
    if ty.startswith('impl ') or 'State' in ty:
        return 'state'
    if 'BuildOptimiser' in ty:
        return 'optimisation'
    if ty in ('u64', 'usize'):
        return 'replications'
    return None


def param_roles(f, pf):
    """{role: (argument index, [field names])} of the pipeline function's parameters by type (not by position: an added flag must
    not shift them); a parameter of a workspace struct type (`&self` of `struct Run { outfile, replications, optimiser }`)
    contributes its fields."""
    role = {}
    for i in pf.args():
        ty = pf.local_ty(i)
        r = _role_of_type(ty)
        if r is not None:
            role.setdefault(r, (i - 1, []))
            continue
        base = f.norm(ty).lstrip('&').strip()
        if base.startswith('mut '):
            base = base[4:]
        ti = f.type_info(base) or {}
        if ti.get('kind') == 'adt' and ti.get('local') and len(ti.get('variants') or []) == 1:
            for fld in ti['variants'][0]['fields']:
                r = _role_of_type(fld['ty'])
                if r is not None:
                    role.setdefault(r, (i - 1, [fld['name']]))
    return role


def role_origin(f, t, body_caller, tt, role, pf):
    """Origin (in the caller) of the value a call site passes for a role: the argument itself, or the field of the struct the
    argument is / points to."""
    idx, path = role
    a = tt['args'][idx]
    if not path or 'l' not in a:
        # (`&args.outfile` handed to a `&Path` parameter goes through Deref / AsRef: payload-preserving)
        return through(t, a)[0] if 'l' in a else t.origin(a)
    base = f.norm(pf.local_ty(idx + 1)).lstrip('&').strip()
    is_ref = pf.local_ty(idx + 1).startswith('&')
    if base.startswith('mut '):
        base = base[4:]
    ti = f.type_info(base) or {}
    flds = [x['name'] for x in ti['variants'][0]['fields']] if ti.get('variants') else []
    p = list(a['p']) + (['deref'] if is_ref else [])
    for nm in path:
        if nm not in flds:
            return {'o': '?'}
        p.append({'f': flds.index(nm), 'n': nm, 'of': base, 'ty': '?'})
    return t._origin_place(a['l'], p, 0)


def _files(ctx, b, tr, ser, final_l):
    rep = ctx.rep
    out_arg = None
    # the PathBuf parameter, or the PathBuf field of a struct parameter (`self.outfile`)
    roles = param_roles(ctx.facts, b)
    if 'outfile' in roles:
        out_arg = (roles['outfile'][0] + 1, tuple(roles['outfile'][1]))
    exts = {}
    for bi, t in b.calls():
        if call_matches(t, 'Path::with_extension'):
            oo, _ = through(tr, t['args'][0])
            e = tr.origin(t['args'][1])
            ext = e['c'].get('str') if e['o'] == 'const' else None
            exts[ext] = (bi, (oo.get('l'), tuple(field_path(oo.get('p', [])))) if oo['o'] == 'arg' else None, t['dest']['l'])
    for ext in ('json', 'svg'):
        okx = ext in exts and exts[ext][1] == out_arg and out_arg is not None
        rep.check(okx, 'R3', 'output-path:%s' % ext, where(b, exts.get(ext, (0,))[0]) if ext in exts else where(b),
                  'outfile.with_extension("%s")' % ext, 'no output path derived from the outfile argument with extension %s' % ext)
    # JSON bytes written are the serialised string
    wr = [(bi, t) for bi, t in b.calls() if call_matches(t, 'Write::write_all', 'std::fs::write')]
    if rep.floor('R3', 'write_all calls', len(wr), 1, where(b)):
        bi, t = wr[0]
        ob, st = through(tr, t['args'][-1], extra=[(('String::as_bytes', 'str::as_bytes', '::as_bytes'), 0)])
        ser_dest = ser[0][1]['dest']['l']
        okb = ob['o'] == 'call' and ob['bb'] == ser[0][0]
        rep.check(okb, 'R3', 'bytes-written-are-the-serialisation', where(b, bi),
                  'write_all(<- %s <- serde_json::to_string)' % ' <- '.join(st),
                  'the bytes written to the .json file are not the serialisation of the selected state')
        of, st2 = through(tr, t['args'][0])
        okf = of['o'] == 'call' and call_matches(of['term'], 'File::create')
        if okf:
            op, _ = through(tr, of['term']['args'][0])
            okf = op['o'] == 'call' and 'json' in exts and op['bb'] == exts['json'][0]
        rep.check(okf, 'R3', 'json-goes-to-json-path', where(b, bi), 'File::create(outfile.with_extension("json"))',
                  'the JSON is not written to <outfile>.json')
    sv = [(bi, t) for bi, t in b.calls() if call_matches(t, 'svg::save')]
    if rep.floor('R3', 'svg::save calls', len(sv), 1, where(b)):
        bi, t = sv[0]
        op, _ = through(tr, t['args'][0])
        rep.check(op['o'] == 'call' and 'svg' in exts and op['bb'] == exts['svg'][0], 'R3', 'svg-goes-to-svg-path',
                  where(b, bi), 'svg::save(outfile.with_extension("svg"), ..)', 'the SVG is not written to <outfile>.svg')
        od, _ = through(tr, t['args'][1])
        rep.check(od['o'] == 'call' and is_trait_call(od['term'], 'ToSVG', 'as_svg'), 'R3', 'svg-document-is-as_svg',
                  where(b, bi), 'document = final_state.as_svg()', 'the saved document is not final_state.as_svg()')


def _partial_cmp_by_value(f, pcb):
    """partial_cmp(self, other) by value (State::score opaque): on the paths where both scores are Some the result is
    f64::partial_cmp(score(self), score(other)) — in that order, not post-processed — and on every other path it is None;
    whatever mix of `match`, `?`, `let .. else`, `and_then`, `zip` the source uses."""
    from ..sym import SymEx, SYM, sfield
    names = [pcb.local_name(i) or 'arg%d' % i for i in pcb.args()]
    if len(names) != 2:
        return False, None
    sx = SymEx(f, opaque=('score',))
    try:
        outs = sx.run(pcb, [SYM(names[0]), SYM(names[1])])
    except Exception:      # noqa: BLE001
        return False, None
    if not outs or sx.aborted:
        return False, None

    def payload(v, who):
        # Some-payload of score(who)
        want_call = ('app', 'State::score', (SYM(who),))
        x = v
        for _ in range(4):
            if isinstance(x, tuple) and x[0] == 'ref':
                return None
            break
        return x == ('app', 'field:0', (('app', 'downcast:Some', (want_call,)),))
    n_cmp = 0
    for o in outs:
        r = sx.deep(o.st, o.ret)
        if isinstance(r, tuple) and r[0] == 'struct' and r[2] is not None and r[2][0] == 'None':
            # must be a path on which one of the scores is None
            if not any(((c[0] == 'switch' and c[2] == 0) or (c[0] == 'switch-not' and 1 in c[2])) and
                       isinstance(c[1], tuple) and c[1][:2] == ('app', 'discr') and
                       c[1][2][0][:2] == ('app', 'State::score') for c in o.pc):
                return False, 'partial_cmp returns None although both scores are defined'
            continue
        if isinstance(r, tuple) and r[0] == 'app' and r[1].endswith('partial_cmp') and len(r[2]) == 2:
            a0, a1 = r[2]
            if payload(a0, names[0]) and payload(a1, names[1]):
                n_cmp += 1
                continue
            if payload(a0, names[1]) and payload(a1, names[0]):
                return False, 'partial_cmp compares score(other) with score(self): the order is reversed, max selects the worst replica'
            return False, 'operands of the f64 comparison are not score(self), score(other)'
        return False, 'partial_cmp returns %s on some path' % (repr(r)[:80],)
    if n_cmp < 1:
        return False, 'partial_cmp never compares the two scores'
    return True, 'by value: Some/Some -> f64::partial_cmp(score(self), score(other)); otherwise None (%d paths)' % len(outs)


def _ordering(ctx):
    rep, f = ctx.rep, ctx.facts
    n = 0
    for adt in ('state::packed::PackedState', 'state::potential::PotentialState'):
        cmpb = f.one(self_adt=adt, trait='cmp::Ord', name='cmp')
        pcb = f.one(self_adt=adt, trait='cmp::PartialOrd', name='partial_cmp')
        eqb = f.one(self_adt=adt, trait='cmp::PartialEq', name='eq')
        if not rep.check(cmpb is not None and pcb is not None, 'R2', 'anchor:ordering:%s' % adt, adt, 'found',
                         'Ord::cmp / PartialOrd::partial_cmp impl not found for %s' % adt, 'anchor-lost'):
            continue
        n += 1
        rep.saw(cmpb)
        rep.saw(pcb)
        # cmp = partial_cmp(self, other).unwrap()
        t = Tracer(cmpb)
        rets = [(bi, tt) for bi, tt in cmpb.calls() if tt['dest']['l'] == 0]
        ok = False
        why = 'cmp does not return partial_cmp(self, other).unwrap()'
        if len(rets) == 1 and not CFG(cmpb).loops():
            o, st = through(t, {'k': 'copy', 'l': 0, 'p': []})
            if o['o'] == 'call' and call_matches(o['term'], 'Option::<T>::unwrap_or_else') and len(o['term']['args']) == 2:
                # `.unwrap_or_else(|| panic!(..))`: unwrap() with a message, if the closure never returns
                co = t.origin(o['term']['args'][1])
                cb2 = f.body(co['rv']['closure']) if co['o'] == 'rvalue' and co['rv'].get('agg') == 'closure' else None
                if cb2 is not None and not any(bb2['term']['t'] == 'return' and bi2 in CFG(cb2).reach and not bb2.get('cleanup')
                                               for bi2, bb2 in enumerate(cb2.blocks)):
                    o, st2 = through(t, o['term']['args'][0])
                    st = st + ['unwrap_or_else(diverging)'] + st2
            if o['o'] == 'call' and call_matches(o['term'], 'PartialOrd>::partial_cmp', 'PartialOrd::partial_cmp'):
                a0 = t.origin(o['term']['args'][0])
                a1 = t.origin(o['term']['args'][1])
                if a0.get('l') == 1 and a1.get('l') == 2 and a0['o'] == a1['o'] == 'arg':
                    ok = True
                else:
                    why = 'cmp calls partial_cmp with swapped roles (args come from _%s, _%s)' % (a0.get('l'), a1.get('l'))
            for s in st:
                if 'reverse' in s:
                    ok = False
                    why = 'cmp reverses the ordering'
        if any(call_matches(tt, 'Ordering::reverse', 'Ordering::then', 'Ordering::then_with') for _, tt in cmpb.calls()):
            ok = False
            why = 'cmp post-processes the ordering (reverse/then)'
        rep.check(ok, 'R2', 'cmp-is-partial_cmp-unwrap:%s' % adt, where(cmpb), 'cmp(a,b) = partial_cmp(a,b).unwrap()', why)
        # partial_cmp = f64::partial_cmp(score(self), score(other))
        t = Tracer(pcb)
        fc = [(bi, tt) for bi, tt in pcb.calls() if call_matches(tt, 'PartialOrd for f64>::partial_cmp',
                                                                 'f64 as std::cmp::PartialOrd>::partial_cmp')
              or (call_matches(tt, '::partial_cmp') and tt['args'] and tt['args'][0].get('ty') == '&f64')]
        ok = False
        why = 'partial_cmp does not compare the two scores with f64::partial_cmp'
        if len(fc) == 1:
            bi, tt = fc[0]
            roles = []
            for a in tt['args']:
                o = t.origin(a)
                if o['o'] == 'call' and is_trait_call(o['term'], 'State', 'score') and field_path(o['p']) == ['0']:
                    r = t.origin(o['term']['args'][0])
                    roles.append(r.get('l') if r['o'] == 'arg' else None)
                else:
                    roles.append(None)
            if roles == [1, 2]:
                ok = tt['dest']['l'] == 0
                why = 'the f64 comparison result is not what partial_cmp returns'
            elif roles == [2, 1]:
                why = 'partial_cmp compares score(other) with score(self): the order is reversed, max selects the worst replica'
            else:
                why = 'operands of the f64 comparison are not score(self), score(other): %s' % roles
        if any(call_matches(tt, 'Ordering::reverse', 'Option::<T>::map') for _, tt in pcb.calls()):
            ok = False
            why = 'partial_cmp post-processes the ordering'
        # every other assignment of the return place must be None
        for bi2, bb in enumerate(pcb.blocks):
            for si, s in enumerate(bb['stmts']):
                if s['s'] == 'assign' and s['place']['l'] == 0:
                    rv = s['rv']
                    if not (rv['r'] == 'aggr' and rv.get('variant') == 'None'):
                        ok = False
                        why = 'partial_cmp returns a constant/other ordering on some path'
        if not ok:
            okv, whyv = _partial_cmp_by_value(f, pcb)
            if okv:
                ok, why = True, whyv
            elif whyv:
                why = whyv
        rep.check(ok, 'R2', 'partial_cmp-compares-scores-in-order:%s' % adt, where(pcb),
                  'partial_cmp(a,b) = f64::partial_cmp(score(a), score(b))', why)
        rep.sample('%s: cmp = partial_cmp(self, other).unwrap(); partial_cmp = f64::partial_cmp(score(self)?, score(other)?)' % adt)
    rep.floor('R2', 'state types with a checked ordering', n, 2)


def _site_is_new_by_value(f, sxg, o, item, gname):
    from ..sym import SymEx, SYM, sfield
    ws = f.one(self_adt='wallpaper::WyckoffSite', name='new')
    if ws is None:
        return False
    sx = SymEx(f)
    try:
        outs = sx.run(f.nest_form(ws, yields=False), [SYM(gname)])
    except Exception:      # noqa: BLE001
        return False
    if not outs or sx.aborted:
        return False
    oks = []
    for oo in outs:
        r = sx.deep(oo.st, oo.ret)
        if isinstance(r, tuple) and r[0] == 'struct' and r[2] is not None and r[2][0] == 'Ok':
            oks.append(sfield(r, '0'))
    if len(oks) != 1:
        return False
    got = sxg.deep(o.st, item)
    return repr(got) == repr(oks[0]) and 'wallpaper::WyckoffSite' in repr(got)[:80]


def _is_state_ty(ty):
    ty = (ty or '').replace('packing::', '').strip()
    return ty.startswith('impl ') or ty in ('S', 'T') or 'State' in ty


def _compares_state_first(f, item_ty):
    item_ty = (item_ty or '').strip()
    if _is_state_ty(item_ty) and not item_ty.startswith('('):
        ti = f.type_info(item_ty)
        if ti is None or not ti.get('local') or 'State' in (ti.get('path') or ''):
            return True, 'max over the states themselves'
    if item_ty.startswith('('):
        from ..sroa import _tuple_field_ty
        first = _tuple_field_ty(item_ty, 0)
        if _is_state_ty(first):
            return True, 'max over tuples whose first component is the state (lexicographic: the score decides first)'
        return False, 'a tuple whose first component is %s' % first
    ti = f.type_info(item_ty)
    if ti and ti.get('local') and len(ti.get('variants') or []) == 1:
        flds = ti['variants'][0]['fields']
        base = f.norm(item_ty).split('<')[0]
        ords = [im for im in f.impls if (im.get('trait') or '').endswith('cmp::Ord') and f.norm(im.get('self_adt') or '') == base]
        if ords and all(im.get('derived') for im in ords):
            if flds and _is_state_ty(flds[0]['ty']):
                return True, 'derived Ord on %s compares its first field, the state, first' % base
            return False, 'derived Ord on %s compares field `%s: %s` before the state' % (base, flds[0]['name'] if flds else '?',
                                                                                          flds[0]['ty'] if flds else '?')
        return False, 'a hand-written ordering on the wrapper %s (not analysed)' % base
    return False, 'an item type this rule does not know'


def _wyckoff_by_value(f, ws, agg):
    """A fill loop instead of map/collect: `for op in group.wyckoff_str { v.push(from_operations(op)?) }`.  By value: the Vec that
    becomes `symmetries` starts empty, is pushed to at one site inside one loop that ranges over all of group.wyckoff_str, every
    iteration either pushes the Ok payload of from_operations(its own item) or leaves the function with an error."""
    from ..nest import Nest
    from ..lineage import significant
    from ..sym import SYM
    n = Nest(f, ws, yields=False)
    t = n.tr
    pushes = n.calls(lambda tt: call_matches(tt, 'Vec::<T, A>::push'))
    if len(pushes) != 1:
        return False, '%d push sites' % len(pushes)
    pbi, pt = pushes[0]
    around = n.loops_around(pbi)
    if len(around) != 1:
        return False, 'the push is inside %d loops' % len(around)
    lp = around[0]
    src = lp['src']
    if not (src['o'] == 'arg' and src['l'] == 1 and field_path(src['p']) == ['wyckoff_str']) or significant(lp['chain']):
        return False, 'the loop does not range over all of group.wyckoff_str (chain %s)' % (lp['chain'],)
    if not n.always_entered(lp):
        return False, 'the loop is skipped on some path'
    # the pushed-to Vec is what the literal stores, and it starts empty
    vec_l = t.origin(pt['args'][0]).get('l')
    agg2 = None
    for bb in n.b.blocks:
        for st in bb['stmts']:
            if st['s'] == 'assign' and st['rv']['r'] == 'aggr' and st['rv'].get('adt', '').endswith('wallpaper::WyckoffSite'):
                agg2 = st['rv']
    if agg2 is None:
        return False, 'no WyckoffSite literal'
    so = t.origin(dict(zip(agg2['fields'], agg2['ops']))['symmetries'])
    if so.get('l') != vec_l and not (so['o'] == 'call' and vec_l is not None and
                                      t.origin({'k': 'copy', 'l': vec_l, 'p': []}).get('term') is so.get('term')):
        return False, 'the filled Vec is not the one stored in symmetries'
    init = t.origin({'k': 'copy', 'l': vec_l, 'p': []}) if vec_l is not None else {'o': '?'}
    if not (init['o'] == 'call' and call_matches(init['term'], 'Vec::<T>::new', 'Vec::<T>::with_capacity')):
        return False, 'the filled Vec does not start empty'
    try:
        sx, outs = n.iteration(lp, {pbi}, opaque=('from_operations',))
    except Exception as ex:      # noqa: BLE001
        return False, 'one iteration could not be evaluated (%s)' % str(ex)[:60]
    if not outs or sx.aborted:
        return False, 'one iteration is not loop-free'
    item = SYM('item%d' % lp['header'])
    n_hit = 0
    for o in outs:
        if isinstance(o.ret, tuple) and o.ret[0] == 'stopped' and o.ret[1] == pbi:
            v = n.arg_values(sx, o, pbi)[1]
            want = ('app', 'field:0', (('app', 'downcast:Ok', (('app', 'Transform2::from_operations', (item,)),)),))
            if v != want:
                return False, 'the pushed value is %s, not the transform parsed from the loop item' % (repr(v)[:100],)
            n_hit += 1
            continue
        r = sx.deep(o.st, o.ret) if isinstance(o.ret, tuple) else o.ret
        if isinstance(r, tuple) and r[0] == 'struct' and r[2] is not None and r[2][0] == 'Err':
            continue       # `?` on a string that does not parse
        return False, 'an iteration neither pushes nor returns an error'
    if n_hit < 1:
        return False, 'the push is never reached'
    return True, 'symmetries = [from_operations(s)? for s in group.wyckoff_str] (fill loop, by value)'


def _carried(ctx, main=True):
    rep, f = ctx.rep, ctx.facts
    # Wallpaper::new copies name and family
    wn = f.one(self_adt='wallpaper::Wallpaper', name='new')
    if rep.check(wn is not None, 'R5', 'anchor:Wallpaper::new', 'wallpaper::Wallpaper', 'found', 'Wallpaper::new not found',
                 'anchor-lost'):
        rep.saw(wn)
        t = Tracer(wn)
        agg = None
        for bi, bb in enumerate(wn.blocks):
            for s in bb['stmts']:
                if s['s'] == 'assign' and s['rv']['r'] == 'aggr' and s['rv'].get('adt', '').endswith('wallpaper::Wallpaper'):
                    agg = s['rv']
        ok = False
        if agg is not None:
            srcs = {}
            for nm, op in zip(agg['fields'], agg['ops']):
                o, st = through(t, op)
                srcs[nm] = field_path(o['p']) if o['o'] == 'arg' and o['l'] == 1 else None
            ok = srcs.get('name') == ['name'] and srcs.get('family') == ['family']
            rep.check(ok, 'R5', 'Wallpaper::new-copies-labels', where(wn), 'name <- group.name, family <- group.family',
                      'Wallpaper::new does not copy name/family from its argument field-to-field: %s' % srcs)
        else:
            rep.fail('R5', 'Wallpaper::new-copies-labels', where(wn), 'no Wallpaper literal found', 'undecidable-shape')
    # WyckoffSite::new maps every string
    ws = f.one(self_adt='wallpaper::WyckoffSite', name='new')
    if rep.check(ws is not None, 'R5', 'anchor:WyckoffSite::new', 'wallpaper::WyckoffSite', 'found', 'not found', 'anchor-lost'):
        rep.saw(ws)
        t = Tracer(ws)
        agg = None
        for bi, bb in enumerate(ws.blocks):
            for s in bb['stmts']:
                if s['s'] == 'assign' and s['rv']['r'] == 'aggr' and s['rv'].get('adt', '').endswith('wallpaper::WyckoffSite'):
                    agg = s['rv']
        if agg is None:
            rep.fail('R5', 'WyckoffSite::new-maps-every-string', where(ws), 'no WyckoffSite literal', 'undecidable-shape')
        else:
            op = dict(zip(agg['fields'], agg['ops']))['symmetries']
            o, st = through(t, op)
            # o should be the collect call
            src, chain = adaptor_chain(t, op) if o['o'] != 'call' else adaptor_chain(t, {'k': 'copy', 'l': o['l'], 'p': []})
            names = [c[0] for c in chain]
            allowed = all(n in ('collect', 'map', 'iter', 'into_iter', 'deref', 'cloned', 'copied', 'enumerate') for n in names)
            srcok = src['o'] == 'arg' and field_path(src['p']) == ['wyckoff_str']
            chain_ok = allowed and srcok and 'map' in names and 'collect' in names
            if not chain_ok:
                okv, whyv = _wyckoff_by_value(f, ws, agg)
                if okv:
                    rep.ok('R5', 'WyckoffSite::new-maps-every-string', where(ws), whyv)
                    rep.ok('R5', 'each-string-parsed-by-from_operations', where(ws), whyv)
                    chain = []
                    chain_ok = None
            if chain_ok is not None:
                rep.check(chain_ok, 'R5', 'WyckoffSite::new-maps-every-string',
                          where(ws), 'symmetries = group.wyckoff_str %s' % list(reversed(names)),
                          'the operation strings pass through an adaptor that can drop/duplicate entries, or do not come '
                          'from group.wyckoff_str: chain=%s source=%s' % (names, field_path(src.get('p', []))))
            # the closure parses its own item
            for nm, tt, bi in chain:
                if nm == 'map':
                    co = t.origin(tt['args'][1])
                    cb = f.body(co['rv']['closure']) if co['o'] == 'rvalue' and co['rv'].get('agg') == 'closure' else None
                    okc = False
                    if cb is None and co['o'] == 'const' and not co.get('p'):
                        # the parser passed as a function item: `.map(Transform2::from_operations)`
                        fnm = co['c'].get('fn') or co['c'].get('resolved') or ''
                        if not fnm:
                            import re as _re
                            m_ = _re.search(r'\{([^{}]*)\}\s*$', co['c'].get('ty', ''))
                            fnm = m_.group(1) if m_ else ''
                        okc = fnm.replace('packing::', '').endswith('Transform2::from_operations')
                    if cb is not None:
                        rep.saw(cb)
                        tc = Tracer(cb)
                        calls = [x for x in cb.calls() if call_matches(x[1], 'from_operations')]
                        if len(calls) == 1:
                            # the item may pass through borrowing adaptors (`op.as_ref()`), the result through a spliced
                            # `FromStr::from_str` / `str::parse`
                            a, _st = through(tc, calls[0][1]['args'][0], extra=[(('AsRef>::as_ref', 'AsRef::as_ref', 'Borrow::borrow', 'Deref::deref'), 0)])
                            # (the result may be decorated with error context: a payload-preserving wrapper)
                            ro, _rst = through(tc, {'k': 'copy', 'l': 0, 'p': []})
                            okc = a['o'] == 'arg' and a['l'] == 2 and ro['o'] == 'call' and ro.get('bb') == calls[0][0] and not ro['p']
                    rep.check(okc, 'R5', 'each-string-parsed-by-from_operations', where(ws, bi),
                              'closure = |s| Transform2::from_operations(s)', 'the mapping closure does not parse its own item')
    # from_group: Wallpaper and WyckoffSite from the same group argument
    n = 0
    for adt in ('state::packed::PackedState', 'state::potential::PotentialState'):
        fg = f.one(self_adt=adt, name='from_group')
        if not rep.check(fg is not None, 'R5', 'anchor:from_group:%s' % adt, adt, 'found', 'from_group not found', 'anchor-lost'):
            continue
        rep.saw(fg)
        n += 1
        gparam = [i for i in fg.args() if 'WallpaperGroup' in fg.local_ty(i)]
        # by value: the arguments handed to initialise, with WyckoffSite::new opaque and everything else by its definition
        from ..nest import Nest
        from ..sym import SYM, sfield
        nfg = Nest(f, fg, yields=False)
        ini = [(bi, tt) for bi, tt in nfg.b.calls() if call_matches(tt, '::initialise')]
        if not rep.check(len(ini) == 1 and len(gparam) == 1, 'R5', 'from_group-calls-initialise:%s' % adt, where(fg),
                         'one initialise call, one group parameter', 'expected one initialise call and one WallpaperGroup parameter',
                         'undecidable-shape'):
            continue
        ibi = ini[0][0]
        gname = fg.local_name(gparam[0]) or 'arg%d' % gparam[0]
        try:
            sxg, outs = nfg.reach(ibi, opaque=('initialise', 'WyckoffSite::new'))
        except Exception as ex:      # noqa: BLE001
            sxg, outs = None, []
        ok_sites = ok_label = bool(outs) and not sxg.aborted
        why_s = why_l = 'from_group could not be evaluated up to its initialise call'
        for o in outs:
            vals = nfg.arg_values(sxg, o, ibi)
            wv = [v for v in vals if isinstance(v, tuple) and v[0] == 'struct' and v[1].endswith('wallpaper::Wallpaper')]
            sv = [v for v in vals if isinstance(v, tuple) and (v[0] == 'seq' or (v[0] == 'struct' and v[1] == '[array]'))]
            # label: name converted from group.name, family = group.family
            if len(wv) != 1:
                ok_label, why_l = False, 'initialise does not receive a Wallpaper value built in from_group'
            else:
                nm_v, fam_v = sfield(wv[0], 'name'), sfield(wv[0], 'family')
                syms = _syms(nm_v)
                conv = isinstance(nm_v, tuple) and nm_v[0] == 'app' and nm_v[1].rsplit('::', 1)[-1] in \
                    ('from', 'into', 'to_string', 'to_owned', 'clone', 'new') and len(nm_v[2]) == 1
                if not (fam_v == SYM(gname + '.family') and syms == {gname + '.name'} and conv):
                    ok_label, why_l = False, 'the label is name=%s family=%s, not name/family of the group argument' % (
                        repr(nm_v)[:60], repr(fam_v)[:40])
            # sites: exactly one element, the result of WyckoffSite::new(group)
            items = sxg.as_seq(o.st, sv[0]) if len(sv) == 1 else None
            news = _apps_named(vals, 'WyckoffSite::new')
            if items is None or len(items) != 1 or len(news) != 1 or news[0][2] != (SYM(gname),) or \
                    'WyckoffSite::new' not in repr(items[0]):
                ok_sites, why_s = False, 'the occupied site list is not exactly [WyckoffSite::new(group)?] (%d item(s), %d constructor call(s))' % (
                    len(items) if items is not None else -1, len(news))
                # the constructor may be spelled out (a `TryFrom<&WallpaperGroup>` that `new` also goes through, spliced into
                # both): the one site then has the VALUE WyckoffSite::new(group) has on its Ok path
                if items is not None and len(items) == 1 and _site_is_new_by_value(f, sxg, o, items[0], gname):
                    ok_sites, why_s = True, ''
        rep.check(ok_sites, 'R5', 'from_group-uses-one-group:%s' % adt, where(fg), 'sites = [WyckoffSite::new(group)?] by value',
                  'from_group does not build label and operations from the same group argument: %s' % why_s)
        rep.check(ok_label, 'R5', 'initialise-gets-the-label:%s' % adt, where(fg, ibi),
                  'wallpaper argument = Wallpaper { name: group.name, family: group.family } by value',
                  'initialise does not receive the Wallpaper built from the group: %s' % why_l)
    rep.floor('R5', 'from_group constructors', n, 2)
    if main:
        _main(ctx)


def _syms(v):
    out = set()
    if isinstance(v, tuple):
        if v and v[0] == 'sym':
            out.add(v[1])
        for x in v:
            if isinstance(x, tuple):
                out |= _syms(x)
    return out


def _apps_named(v, name):
    out = []
    if isinstance(v, (tuple, list)):
        if isinstance(v, tuple) and v and v[0] == 'app' and isinstance(v[1], str) and v[1].endswith(name):
            out.append(v)
        for x in v:
            if isinstance(x, (tuple, list)):
                out += _apps_named(x, name)
    return out


def _main(ctx):
    rep, f = ctx.rep, ctx.facts
    mains = [b for b in f.bodies.values() if b.crate_kind == 'bin' and not b.is_closure
             and any(call_matches(t, 'get_wallpaper_group') for _, t in b.calls())]
    if not rep.check(len(mains) == 1, 'R5', 'anchor:main', 'src/main.rs', 'found',
                     'expected one bin function calling get_wallpaper_group, found %d' % len(mains), 'anchor-lost'):
        return
    m = mains[0]
    rep.saw(m)
    t = Tracer(m)
    gw = [(bi, tt) for bi, tt in m.calls() if call_matches(tt, 'get_wallpaper_group')]
    o = t.origin(gw[0][1]['args'][0])
    rep.check(field_path(o['p'])[-1:] == ['wallpaper'], 'R5', 'group-looked-up-from-args.wallpaper',
              where(m, gw[0][0]), 'get_wallpaper_group(args.wallpaper)',
              'the group is not looked up from the wallpaper argument (origin %s %s)' % (o['o'], field_path(o.get('p', []))))
    wg_bb = gw[0][0]
    pf = pipeline_fn(f)[0]
    sites = [(bi, tt) for bi, tt in m.calls() if (callee_name(tt) or '') == pf.path]
    # (5 call sites on the pinned tree, one per force x shape arm; arms may share a call — what must not get lost is a state kind)
    kinds = set()
    for bi, tt in sites:
        for a in tt['args']:
            if 'l' not in a:
                continue
            oo, _st = through(t, a)
            if oo['o'] == 'call' and call_matches(oo['term'], '::from_group'):
                cbf = f.body_of_fnconst(oo['term']['func'])
                kinds.add(f.norm(cbf.impl_self_adt) if cbf is not None and cbf.impl_self_adt else callee_name(oo['term']))
    rep.floor('R5', 'calls of the pipeline function in main', len(sites), 2, where(m))
    rep.floor('R5', 'state kinds handed to the pipeline function', len(kinds), 2, where(m))
    # parameter roles of the pipeline function by type (not by position: an added flag must not shift them)
    role = param_roles(f, pf)
    if not rep.check(set(role) == {'outfile', 'state', 'optimisation', 'replications'}, 'R5', 'pipeline-parameter-roles', where(pf),
                     'outfile/replications/state/optimisation = arguments %s' % role,
                     'cannot identify the pipeline function\'s parameters by type: %s' % role, 'undecidable-shape'):
        return
    for n_arm, (bi, tt) in enumerate(sites):
        args_ = tt['args']
        o0 = role_origin(f, t, m, tt, role['outfile'], pf)
        o1 = role_origin(f, t, m, tt, role['replications'], pf)
        o3 = role_origin(f, t, m, tt, role['optimisation'], pf)
        if not role['optimisation'][1]:
            o3, _ = through(t, args_[role['optimisation'][0]])
        ok0 = field_path(o0.get('p', []))[-1:] == ['outfile']
        ok1 = field_path(o1.get('p', []))[-1:] == ['replications']
        ok3 = field_path(o3.get('p', []))[-1:] == ['optimisation']
        o2, st = through(t, args_[role['state'][0]])
        ok2 = o2['o'] == 'call' and call_matches(o2['term'], '::from_group')
        okg = False
        if ok2:
            og, _ = through(t, o2['term']['args'][1])
            okg = og['o'] == 'call' and og['bb'] == wg_bb
        rep.check(ok0 and ok1 and ok3 and ok2 and okg, 'R5', 'main-arm-passes-requested-arguments:#%d' % (n_arm + 1), where(m, bi),
                  'analyse_state(args.outfile, args.replications, X::from_group(shape, &wg)?, &args.optimisation)',
                  'a main arm does not pass outfile/replications/group/optimisation as requested: outfile=%s replications=%s '
                  'state-from-group=%s group-is-lookup=%s optimisation=%s' % (ok0, ok1, ok2, okg, ok3))


def _dispatch(ctx):
    """The command line turns each (shape, potential) request into `pipeline(.., State::from_group(Shape::ctor(..), &group), ..)`: the
    (state constructor, shape constructor) pairs of the arms are pairwise different (a copied arm makes two different requests
    produce the same kind of structure: the written file does not record what was asked for)."""
    rep, f = ctx.rep, ctx.facts
    pfs = pipeline_fn(f)
    if len(pfs) != 1:
        return
    pf = pfs[0]
    pairs = []
    for b in f.bodies.values():
        if b.crate_kind != 'bin' or b.is_closure or b is pf:
            continue
        tr = None
        for bi, t in b.calls():
            cb = f.body_of_fnconst(t['func']) if t['func'].get('k') == 'const' else None
            if cb is None or not (cb is pf or cb.path == pf.path):
                continue
            tr = tr or Tracer(b)
            for a in t['args']:
                if 'l' not in a:
                    continue
                o, _st = through(tr, a)
                if o['o'] != 'call' or not (callee_name(o['term']) or '').endswith('::from_group'):
                    continue
                shape = None
                for a2 in o['term']['args']:
                    if 'l' in a2:
                        o2, _s2 = through(tr, a2)
                        if o2['o'] == 'call' and f.norm(callee_name(o2['term']) or '').split('::<')[0] not in ('',) and \
                                not (callee_name(o2['term']) or '').endswith(('get_wallpaper_group', '::from_group')):
                            shape = f.norm(callee_name(o2['term'])).replace('packing::', '')
                            break
                pairs.append((f.norm(callee_name(o['term'])).replace('packing::', ''), shape, where(b, bi)))
    if not rep.floor('R9', 'pipeline calls in the command line\'s dispatch', len(pairs), 4):
        return
    seen = {}
    dup = None
    for st, sh, w in pairs:
        if (st, sh) in seen:
            dup = (st, sh, seen[(st, sh)], w)
        seen[(st, sh)] = w
    rep.check(dup is None, 'R9', 'dispatch-arms-build-different-structures', dup[3] if dup else pairs[0][2],
              '%d requests, %d different (state, shape constructor) pairs' % (len(pairs), len(seen)),
              'two arms of the dispatch build the same structure %s(%s): one of the requests is answered with something else' %
              ((dup[0], dup[1]) if dup else ('', '')))


def run(ctx):
    _run_rules(ctx)
    from .common import import_obligations
    # every replica stage is seeded with the replica index (C09.R4 / R6): otherwise a replica is not the same computation in every run
    import_obligations(ctx, 'C09', 'R10', only_rules={'R4', 'R6'}, floor=3)
    # every replica starts from `state.clone()` and the structure that is written is (a descendant of) such a clone: a Clone impl
    # that drops a field (the crystal family of the cell, a site, a shape parameter) changes what is written (C09.R3)
    import_obligations(ctx, 'C09', 'R11', only_rules={'R3'}, floor=4,
                       only_instances=lambda i: i.startswith('clone-fidelity:'))

