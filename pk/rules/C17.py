"""C17 — symmetry-operation strings: the parser never crashes the program (clause only)."""
from ..cfg import CFG
from ..harness import where
from ..lineage import adaptor_chain, through
from ..mirutil import Defs, Tracer, call_matches, callee_name, const_value, field_path
from .C20 import PANIC_CALLS, _generated, _ptrcheck

LEVEL = 'other'
EXPLANATION = ('Only the "never crashes" clause is decided: every panic-capable construct reachable from '
               'Transform2::from_operations, WyckoffSite::new and get_wallpaper_group is enumerated; the only ones allowed are '
               'the matrix IndexMut writes transform[(row, col)], whose column is a constant < 3 and whose row is the '
               'enumerate() counter over a Vec whose length was narrowed to exactly 2 by the two guards that dominate the '
               'loop (interval refinement along the dominating branch edges), on a Vec that is never resized. That the '
               'parsed map equals the denotation of every grammar string is a statement about executing a character state '
               'machine over an infinite language and is NOT decided by this family of technique.')


def guard_interval(b, cfg, tr, x_locals, target_bb):
    """Interval of an unsigned integer value (held in any of x_locals) at target_bb, refined by the comparison
    switches that dominate target_bb."""
    lo, hi = 0, None
    used = []
    for bi in sorted(cfg.reach):
        t = b.blocks[bi]['term']
        if t['t'] != 'switch' or not cfg.dominates(bi, target_bb) or bi == target_bb:
            continue
        o = tr.origin(t['discr'])
        if o['o'] != 'rvalue' or o['rv']['r'] != 'binop':
            continue
        op = o['rv']['op']
        a, c = o['rv']['a'], o['rv']['b']
        ch = [l for l, _ in tr.chain(a)]
        ao = tr.origin(a)
        if ao['o'] in ('call', 'rvalue', 'local', 'arg') and not field_path(ao.get('p', [])) and ao.get('l') is not None:
            ch.append(ao['l'])      # single-definition value reached through references
        if not (set(ch) & set(x_locals)) or c.get('k') != 'const':
            continue
        k = const_value(c)
        if not isinstance(k, int):
            continue
        # which edge leads to the target?
        false_t = [x[1] for x in t['arms'] if x[0] == '0']
        true_t = t['otherwise']
        if not false_t:
            continue
        false_t = false_t[0]
        via_true = target_bb in cfg.reachable_from([true_t], avoid={bi})
        via_false = target_bb in cfg.reachable_from([false_t], avoid={bi})
        if via_true == via_false:
            continue
        holds = via_true
        # refine
        if op == 'Lt':
            if holds:
                hi = k - 1 if hi is None else min(hi, k - 1)
            else:
                lo = max(lo, k)
        elif op == 'Le':
            if holds:
                hi = k if hi is None else min(hi, k)
            else:
                lo = max(lo, k + 1)
        elif op == 'Gt':
            if holds:
                lo = max(lo, k + 1)
            else:
                hi = k if hi is None else min(hi, k)
        elif op == 'Ge':
            if holds:
                lo = max(lo, k)
            else:
                hi = k - 1 if hi is None else min(hi, k - 1)
        elif op == 'Eq' and holds:
            lo, hi = max(lo, k), (k if hi is None else min(hi, k))
        elif op == 'Ne' and not holds:
            lo, hi = max(lo, k), (k if hi is None else min(hi, k))
        else:
            continue
        used.append((bi, op, k, holds))
    return lo, hi, used


def run(ctx):
    rep, f, cg = ctx.rep, ctx.facts, ctx.cg
    rep.trust('nalgebra Matrix3 IndexMut panics iff row >= 3 or col >= 3; Enumerate over a slice iterator yields indices < len')
    fo = f.one(self_adt='transform::Transform2', name='from_operations')
    ws = f.one(self_adt='wallpaper::WyckoffSite', name='new')
    gw = f.body('wallpaper::get_wallpaper_group')
    if not rep.check(fo is not None and ws is not None and gw is not None, 'R1', 'anchor:parser-entry-points', 'transform/wallpaper',
                     'found', 'from_operations / WyckoffSite::new / get_wallpaper_group not found', 'anchor-lost'):
        return
    roots = [fo.key_in_facts, ws.key_in_facts, gw.key_in_facts]
    reach = sorted(cg.reachable(roots))
    rep.floor('R1', 'bodies reachable from the parser entry points', len(reach), 4)
    index_sites = []
    n_sites = 0
    for k in reach:
        b = f.bodies[k]
        if b.derived or _generated(b, f):
            continue
        rep.saw(b)
        cfg = CFG(b)
        tr = Tracer(b)
        for bi in sorted(cfg.reach):
            bb = b.blocks[bi]
            if bb['cleanup']:
                continue
            t = bb['term']
            if t['t'] == 'assert':
                n_sites += 1
                kind = t['kind'].split(' ')[0].split('{')[0]
                if kind in ('NullPointerDereference', 'MisalignedPointerDereference'):
                    v, sig, why = _ptrcheck(b, tr, bi, t)
                    rep.check(v == 'discharged', 'R1', 'ptr-check:%s' % b.fn_name, where(b, bi), why, why)
                else:
                    rep.fail('R1', '%s/assert:%s' % (b.fn_name, kind), where(b, bi),
                             'a %s check can panic on some input string' % kind)
            elif t['t'] == 'call':
                n = callee_name(t) or ''
                if not any(p in n for p in PANIC_CALLS):
                    continue
                n_sites += 1
                if '(usize, usize)' in n and 'index' in n.rsplit('::', 1)[-1]:
                    index_sites.append((b, cfg, tr, bi, t))
                    continue
                rep.fail('R1', '%s/%s' % (b.fn_name, n.rsplit('::', 1)[-1]), where(b, bi),
                         '%s can panic on some input string: the parser must report an error instead' % n)
    rep.floor('R1', 'panic-capable sites enumerated in the parser', n_sites, 3)
    rep.floor('R2', 'matrix index writes in the parser', len(index_sites), 3)
    for (b, cfg, tr, bi, t) in index_sites:
        idx = tr.origin(t['args'][1])
        ok = False
        why = 'index is not a (row, col) tuple'
        if idx['o'] == 'rvalue' and idx['rv']['r'] == 'aggr' and len(idx['rv']['ops']) == 2:
            row, col = idx['rv']['ops']
            cv = const_value(col) if col.get('k') == 'const' else None
            col_ok = isinstance(cv, int) and 0 <= cv < 3
            ro = tr.origin(row)
            rv = const_value(ro['c']) if ro['o'] == 'const' else None
            if isinstance(rv, int):
                row_ok, rwhy = 0 <= rv < 3, 'constant row %d' % rv
            else:
                row_ok, rwhy = _row_from_guarded_enumerate(b, cfg, tr, ro, bi)
            ok = col_ok and row_ok
            why = 'col=%s; row: %s' % (cv, rwhy)
        rep.check(ok, 'R2', 'index-in-bounds:col%s' % (const_value(idx['rv']['ops'][1]) if idx['o'] == 'rvalue' and len(idx['rv'].get('ops', [])) == 2 else '?'),
                  where(b, bi), why, 'a matrix write in the parser can be out of bounds (%s): e.g. "x,y,x,y" would index row 3' % why)
        rep.sample('%s: transform[(row, %s)] — %s' % (where(b, bi), const_value(idx['rv']['ops'][1]) if idx['o'] == 'rvalue' else '?', why))
    # errors are propagated: every Result produced in from_operations flows into `?`/return
    tr = Tracer(fo)
    n_res = 0
    for bi, t in fo.calls():
        if t['dest']['ty'].startswith('std::result::Result<') and not call_matches(t, 'Try>::branch', 'FromResidual'):
            n_res += 1
            from ..mirutil import uses_of_local
            uses = [u for u in uses_of_local(fo, t['dest']['l'])]
            okp = t['dest']['l'] == 0 or any(u[2] == 'callarg' and call_matches(fo.blocks[u[0]]['term'], 'Try>::branch', 'Try::branch')
                                            for u in uses)
            rep.check(okp, 'R1', 'error-propagated:%s' % (callee_name(t) or '').rsplit('::', 1)[-1], where(fo, bi),
                      'Result goes through `?`', 'a Result in the parser is unwrapped or dropped')
    rep.note('the denotation of every grammar string (sign/term/constant orders) is not decided statically; a cross-reference: '
             'the \'/\' and \'*\' operator arms have identical effects (harmless: the grammar has no \'*\')')


def _row_from_guarded_enumerate(b, cfg, tr, ro, use_bb):
    """row = .0 of the item yielded by Enumerate::next over vec.iter() where len(vec) was narrowed by dominating guards."""
    fp = field_path(ro.get('p', []))
    if not (ro['o'] == 'call' and call_matches(ro['term'], 'Enumerate<I> as std::iter::Iterator>::next', 'Enumerate<I>>::next')
            and fp[-1:] == ['0']):
        return False, 'row index is not the counter of an enumerate()'
    next_bb = ro['bb']
    src, chain = adaptor_chain(tr, ro['term']['args'][0])
    # cut the chain at the slice iterator: what it iterates is the container
    names = []
    vec_l = None
    from ..anchors import container_root
    for nm, tt, cbb in chain:
        names.append(nm)
        if nm == 'iter':
            vec_l = container_root(b, tr, tt['args'][0])
            break
    if any(x not in ('enumerate', 'iter', 'into_iter', 'deref') for x in names) or 'enumerate' not in names:
        return False, 'the enumerated iterator passes through %s' % names
    if vec_l is None:
        return False, 'enumerated collection not a local'
    # len() calls on the same vec
    xs = []
    for bi, t in b.calls():
        if call_matches(t, 'Vec::<T, A>::len', '<impl [T]>::len'):
            o, _ = through(tr, t['args'][0])
            if o.get('l') == vec_l:
                xs.append(t['dest']['l'])
    if not xs:
        return False, 'no length guard on the enumerated Vec'
    # copies of the length
    d = Defs(b)
    closure = set(xs)
    for l in range(len(b.locals)):
        ch = [c for c, _ in tr.chain({'k': 'copy', 'l': l, 'p': []})]
        if set(ch) & set(xs):
            closure.add(l)
    lo, hi, used = guard_interval(b, cfg, tr, closure, next_bb)
    # the Vec must not be resized
    for bi, t in b.calls():
        if call_matches(t, 'Vec::<T, A>::push', 'Vec::<T, A>::pop', 'Vec::<T, A>::clear', 'Vec::<T, A>::truncate',
                        'Vec::<T, A>::remove', 'Vec::<T, A>::append', 'Vec::<T, A>::insert', 'Vec::<T, A>::retain',
                        'Vec::<T, A>::drain', 'Vec::<T, A>::extend'):
            o, _ = through(tr, t['args'][0])
            if o.get('l') == vec_l:
                return False, 'the enumerated Vec is resized'
    if hi is None:
        return False, 'the length of the enumerated Vec is not bounded above by a dominating guard (guards used: %s)' % used
    ok = hi - 1 < 3
    return ok, 'enumerate counter < len(_%d) in [%d,%d] (guards %s) => row <= %d' % (vec_l, lo, hi, [(u[1], u[2], u[3]) for u in used], hi - 1)
