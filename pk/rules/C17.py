"""C17 — symmetry-operation strings: the parser never crashes the program (clause only)."""
from ..cfg import CFG
from ..harness import where
from ..lineage import adaptor_chain, through
from ..mirutil import Defs, Tracer, call_matches, callee_name, const_value, field_path
from .C20 import PANIC_CALLS, _generated, _ptrcheck, is_panic_call

LEVEL = 'other'
EXPLANATION = ('(R1/R2) "never crashes": every panic-capable construct reachable from Transform2::from_operations, WyckoffSite::new '
               'and get_wallpaper_group is enumerated; the only ones allowed are the matrix writes transform[(row, col)], whose column is a '
               'constant < 3 and whose row is the enumerate() counter over a Vec whose length was narrowed to exactly 2 by the two guards that '
               'dominate the loop, on a Vec that is never resized. (R3) necessary conditions of "parses to the affine map it denotes": one '
               'step of the character loop is executed symbolically from the block that receives the character, with a fully symbolic '
               'parser state, and must satisfy the lemmas that follow from the notation itself (blank = identity, \'-\' => sign := -1, x/y '
               'store and consume the pending sign in their column, \'/\' => pending division, digit => sign*digit or constant/digit, the '
               'constant is stored in column 2 after the characters). That EVERY grammar string parses to its denotation is NOT decided.')


def is_num_(v):
    return isinstance(v, tuple) and v[0] == 'num'


FACTS = [None]      # the facts of the current run (set by run(); guard_interval evaluates named/promoted constants through it)


def guard_interval(b, cfg, tr, x_locals, target_bb):
    """Interval of an unsigned integer value (held in any of x_locals) at target_bb, refined by the comparison
    switches that dominate target_bb."""
    lo, hi = 0, None
    used = []
    for bi in sorted(cfg.reach):
        t = b.blocks[bi]['term']
        if t['t'] != 'switch' or not cfg.dominates(bi, target_bb) or bi == target_bb:
            continue
        o = tr.origin(t['discr'])
        if o['o'] == 'rvalue' and o['rv']['r'] == 'discr':
            # match x.cmp(&K) { Less .. Equal .. Greater .. }: which orderings lead to the target?
            co = tr.origin(dict(o['rv']['place'], k='copy'))
            if co['o'] == 'call' and call_matches(co['term'], 'Ord>::cmp', 'Ord::cmp', '::cmp') and len(co['term']['args']) == 2:
                xo = tr.origin(co['term']['args'][0])
                ko = tr.origin(co['term']['args'][1])
                xl = [l for l, _ in tr.chain(co['term']['args'][0])]
                if xo.get('l') is not None:
                    xl.append(xo['l'])
                kk = const_value(ko['c']) if ko['o'] == 'const' else None
                if ko['o'] == 'const' and not isinstance(kk, int) and FACTS[0] is not None:
                    from ..mirutil import const_int
                    kk = const_int(FACTS[0], ko['c'])
                if (set(xl) & set(x_locals)) and isinstance(kk, int):
                    edges = {'eq': None, 'gt': None, 'lt': None}
                    arms = dict((v, x) for v, x in t['arms'])
                    edges['eq'] = arms.get('0', t['otherwise'])
                    edges['gt'] = arms.get('1', t['otherwise'])
                    lt_keys = [x for v, x in t['arms'] if v not in ('0', '1')]
                    edges['lt'] = lt_keys[0] if lt_keys else t['otherwise']
                    reach_by = {k2: (target_bb in cfg.reachable_from([e], avoid={bi})) for k2, e in edges.items()}
                    allowed = {k2 for k2, r in reach_by.items() if r}
                    if allowed and allowed != {'eq', 'gt', 'lt'}:
                        nlo = min([kk if 'eq' in allowed else 10 ** 30, kk + 1 if 'gt' in allowed else 10 ** 30, 0 if 'lt' in allowed else 10 ** 30])
                        nhi = max([kk if 'eq' in allowed else -1, kk - 1 if 'lt' in allowed else -1, 10 ** 30 if 'gt' in allowed else -1])
                        lo = max(lo, nlo)
                        if nhi < 10 ** 30:
                            hi = nhi if hi is None else min(hi, nhi)
                        used.append((bi, 'cmp', kk, tuple(sorted(allowed))))
            continue
        if o['o'] != 'rvalue' or o['rv']['r'] != 'binop':
            continue
        op = o['rv']['op']
        a, c = o['rv']['a'], o['rv']['b']

        def as_const(x):
            # a comparand held in a temporary (`_25 = const 0; Eq(move _23, move _25)`: slice patterns compare this way)
            if x.get('k') == 'const':
                return x
            xo = tr.origin(x)
            if xo['o'] == 'const' and not xo.get('p'):
                return dict(xo['c'], k='const')
            return x
        a, c = as_const(a), as_const(c)
        if a.get('k') == 'const' and c.get('k') != 'const':
            # K op x  ==  x op' K
            a, c = c, a
            op = {'Lt': 'Gt', 'Le': 'Ge', 'Gt': 'Lt', 'Ge': 'Le'}.get(op, op)
        ch = [l for l, _ in tr.chain(a)]
        ao = tr.origin(a)
        if ao['o'] in ('call', 'rvalue', 'local', 'arg') and not field_path(ao.get('p', [])) and ao.get('l') is not None:
            ch.append(ao['l'])      # single-definition value reached through references
        if not (set(ch) & set(x_locals)) or c.get('k') != 'const':
            continue
        k = const_value(c)
        if isinstance(k, str) and len(k) == 1:
            k = ord(k)          # a char constant: compared by code point
        if not isinstance(k, int):
            continue
        # which edge leads to the target?
        false_t = [x[1] for x in t['arms'] if x[0] == '0']
        true_t = t['otherwise']
        if not false_t:
            continue
        false_t = false_t[0]
        via_true = target_bb in cfg.reachable_from([true_t], avoid={bi})
        via_false = target_bb in cfg.reachable_from([false_t], avoid={bi})
        if via_true == via_false:
            continue
        holds = via_true
        # refine
        if op == 'Lt':
            if holds:
                hi = k - 1 if hi is None else min(hi, k - 1)
            else:
                lo = max(lo, k)
        elif op == 'Le':
            if holds:
                hi = k if hi is None else min(hi, k)
            else:
                lo = max(lo, k + 1)
        elif op == 'Gt':
            if holds:
                lo = max(lo, k + 1)
            else:
                hi = k if hi is None else min(hi, k)
        elif op == 'Ge':
            if holds:
                lo = max(lo, k)
            else:
                hi = k - 1 if hi is None else min(hi, k - 1)
        elif op == 'Eq' and holds:
            lo, hi = max(lo, k), (k if hi is None else min(hi, k))
        elif op == 'Ne' and not holds:
            lo, hi = max(lo, k), (k if hi is None else min(hi, k))
        else:
            continue
        used.append((bi, op, k, holds))
    return lo, hi, used


def _const_bounds(b, tr, t):
    """BoundsCheck with a constant index below the constant length of a fixed-size array."""
    import re as _re
    ln, ix = t['ops']
    io = tr.origin(ix)
    lo_ = tr.origin(ln)
    k = const_value(io['c']) if io['o'] == 'const' else None
    n = const_value(lo_['c']) if lo_['o'] == 'const' else None
    if isinstance(k, int) and isinstance(n, int) and 0 <= k < n:
        return 'constant index %d < constant length %d' % (k, n)
    if isinstance(n, int) and FACTS[0] is not None:
        from .C20 import enum_cast_bound
        ed = enum_cast_bound(FACTS[0], tr, ix)
        if ed is not None and 0 <= ed[0] and ed[1] < n:
            return 'index = %s as usize, discriminants %d..=%d < constant length %d' % (ed[2], ed[0], ed[1], n)
    return None


def _small_consts(f, b, tr, op, depth=0):
    """The set of integer constants an operand can hold when every definition that reaches it is a constant (literal or named
    constant); None otherwise."""
    if depth > 3:
        return None
    if op.get('k') == 'const':
        v = const_value(op)
        if isinstance(v, int) and not isinstance(v, bool):
            return {v}
        if 'uneval' in op:
            from ..sym import SymEx
            from ..facts import Body
            raw = {'path': 'pk::const_eval', 'blocks': [{'stmts': [{'s': 'assign', 'place': {'l': 0, 'p': [], 'ty': op.get('ty', '?')},
                   'rv': {'r': 'use', 'a': op}, 'span': {'file': '', 'line': 0, 'col': 0}}], 'term': {'t': 'return'}, 'cleanup': False}],
                   'locals': [{'ty': op.get('ty', '?')}], 'arg_count': 0, 'span': {'file': '', 'line': 0, 'col': 0}}
            try:
                sx = SymEx(f)
                outs = sx.run(Body(raw, 'lib'), [])
                r = sx.deep(outs[0].st, outs[0].ret) if len(outs) == 1 else None
                if isinstance(r, tuple) and r[0] == 'num' and r[1].denominator == 1:
                    return {int(r[1])}
            except Exception:      # noqa: BLE001
                return None
        return None
    if 'l' not in op:
        return None
    o = tr.origin(op)
    if o['o'] == 'const' and not o.get('p'):
        return _small_consts(f, b, tr, o['c'], depth + 1)
    if o['o'] == 'local' and not o.get('p'):
        out = set()
        ds = tr.defs.of(o['l'])
        if not ds:
            return None
        for d in ds:
            if d[2] != 'assign' or d[3]['r'] != 'use':
                return None
            sub = _small_consts(f, b, tr, d[3]['a'], depth + 1)
            if sub is None:
                return None
            out |= sub
        return out
    return None


def _index_plus_one(f, b, tr, t):
    from .C20 import _from_enumerate
    a, c = t['ops']
    co = tr.origin(c)
    if not (co['o'] == 'const' and const_value(co['c']) == 1):
        return False
    return _from_enumerate(b, tr, a, f)


def _sub_under_guard(b, cfg, tr, bi, t):
    """`x - K` (unsigned) where the dominating guards give x >= K: e.g. `c as u8 - b'0'` inside the arm for '0'..='9'."""
    a, c = t['ops']
    co = tr.origin(c)
    if co['o'] == 'rvalue' and co['rv']['r'] == 'cast' and not co['p'] and co['rv'].get('kind', '').startswith('IntToInt') and \
            co['rv']['a'].get('k') == 'const':
        co = {'o': 'const', 'c': co['rv']['a']}        # `'0' as u32`
    k = const_value(co['c']) if co['o'] == 'const' else None
    if isinstance(k, str) and len(k) == 1:
        k = ord(k)
    if not isinstance(k, int) or isinstance(k, bool):
        return None
    ao = tr.origin(a)
    src = a
    width_limit = None
    # look through a widening/narrowing cast of the guarded value (char -> u8 keeps the value only below 256)
    if ao['o'] == 'rvalue' and ao['rv']['r'] == 'cast' and not ao['p']:
        src = ao['rv']['a']
        to = ao['rv'].get('to', '')
        width_limit = {'u8': 256, 'u16': 65536}.get(to, None if to in ('u32', 'u64', 'u128', 'usize') else 0)
    so = tr.origin(src)
    xs = {l for l, _ in tr.chain(src)}
    if so.get('l') is not None:
        xs.add(so['l'])
    for l in range(len(b.locals)):
        if tr.origin({'k': 'copy', 'l': l, 'p': []}).get('l') in xs and not tr.origin({'k': 'copy', 'l': l, 'p': []}).get('p'):
            xs.add(l)
    lo, hi, used = guard_interval(b, cfg, tr, xs, bi)
    fits = width_limit is None or (hi is not None and hi < width_limit)
    if lo >= k and fits:
        return 'the minuend is in [%d, %s] by the dominating guards, the subtrahend is %d' % (lo, hi, k)
    return None


def digit_expect(b, cfg, tr, bi, t):
    """`c.to_digit(radix >= 10).expect(..)` / unwrap() where the dominating guards confine c to '0'..='9': the Option is Some."""
    n = callee_name(t) or ''
    if not n.endswith(('Option::<T>::expect', 'Option::<T>::unwrap')) or not t['args']:
        return None
    o = tr.origin(t['args'][0])
    if o['o'] != 'call' or not (callee_name(o['term']) or '').endswith('to_digit') or len(o['term']['args']) != 2:
        return None
    ro = tr.origin(o['term']['args'][1])
    radix = const_value(ro['c']) if ro['o'] == 'const' else None
    if ro['o'] == 'const' and not isinstance(radix, int) and FACTS[0] is not None:
        from ..mirutil import const_int
        radix = const_int(FACTS[0], ro['c'])
    if not isinstance(radix, int) or not 10 <= radix <= 36:
        return None
    co = tr.origin(o['term']['args'][0])
    xs = {l for l, _ in tr.chain(o['term']['args'][0])}
    if co.get('l') is not None:
        xs.add(co['l'])
    # every local holding (a copy of) the same character
    for l in range(len(b.locals)):
        ch = [c2 for c2, _ in tr.chain({'k': 'copy', 'l': l, 'p': []})]
        if set(ch) & xs or tr.origin({'k': 'copy', 'l': l, 'p': []}).get('l') in xs:
            xs.add(l)
    lo, hi, used = guard_interval(b, cfg, tr, xs, bi)
    if hi is not None and lo >= 48 and hi <= 57:
        return 'the character is in [%r, %r] by the dominating guards, so to_digit(%d) is Some' % (chr(lo), chr(hi), radix)
    return None


def _run_rules(ctx):
    rep, f, cg = ctx.rep, ctx.facts, ctx.cg
    FACTS[0] = f
    rep.trust('nalgebra Matrix3 IndexMut panics iff row >= 3 or col >= 3; Enumerate over a slice iterator yields indices < len')
    fo = f.one(self_adt='transform::Transform2', name='from_operations')
    ws = f.one(self_adt='wallpaper::WyckoffSite', name='new')
    gw = f.body('wallpaper::get_wallpaper_group')
    if not rep.check(fo is not None and ws is not None and gw is not None, 'R1', 'anchor:parser-entry-points', 'transform/wallpaper',
                     'found', 'from_operations / WyckoffSite::new / get_wallpaper_group not found', 'anchor-lost'):
        return
    roots = [fo.key_in_facts, ws.key_in_facts, gw.key_in_facts]
    reach = sorted(cg.reachable(roots))
    rep.floor('R1', 'bodies reachable from the parser entry points', len(reach), 4)
    index_sites = []
    n_sites = 0
    n_debug = 0
    for k in reach:
        b = f.bodies[k]
        if b.derived or _generated(b, f):
            continue
        rep.saw(b)
        cfg = CFG(b)
        tr = Tracer(b)
        from .C20 import debug_only_blocks
        dbg = debug_only_blocks(b, cfg, f)
        for bi in sorted(cfg.reach):
            bb = b.blocks[bi]
            if bb['cleanup']:
                continue
            t = bb['term']
            if bi in dbg and (t['t'] == 'assert' or (t['t'] == 'call' and is_panic_call(callee_name(t) or ''))):
                n_debug += 1        # a debug_assert! self-check (not decided; absent when debug assertions are off)
                continue
            if t['t'] == 'assert':
                n_sites += 1
                kind = t['kind'].split(' ')[0].split('{')[0]
                if kind in ('NullPointerDereference', 'MisalignedPointerDereference'):
                    v, sig, why = _ptrcheck(b, tr, bi, t)
                    rep.check(v == 'discharged', 'R1', 'ptr-check:%s' % b.fn_name, where(b, bi), why, why)
                elif kind == 'BoundsCheck' and _const_bounds(b, tr, t):
                    rep.ok('R1', 'const-index-in-bounds:%s' % b.fn_name, where(b, bi), _const_bounds(b, tr, t))
                elif kind == 'Overflow' and t.get('binop') == 'Sub' and _sub_under_guard(b, cfg, tr, bi, t):
                    rep.ok('R1', 'subtraction-cannot-underflow:%s' % b.fn_name, where(b, bi), _sub_under_guard(b, cfg, tr, bi, t))
                elif kind == 'Overflow' and t.get('binop') == 'Add' and _index_plus_one(f, b, tr, t):
                    rep.ok('R1', 'enumerate-index-plus-one:%s' % b.fn_name, where(b, bi),
                           'index + 1 for the index of an enumerate() over a collection: at most its length <= isize::MAX')
                else:
                    rep.fail('R1', '%s/assert:%s' % (b.fn_name, kind), where(b, bi),
                             'a %s check can panic on some input string' % kind)
            elif t['t'] == 'call':
                n = callee_name(t) or ''
                if not is_panic_call(n):
                    continue
                n_sites += 1
                if '(usize, usize)' in n and 'index' in n.rsplit('::', 1)[-1]:
                    index_sites.append((b, cfg, tr, bi, t))
                    continue
                dd = digit_expect(b, cfg, tr, bi, t)
                if dd:
                    rep.ok('R1', 'digit-value-is-some:%s' % b.fn_name, where(b, bi), dd)
                    continue
                if 'Index<I>>::index' in n:
                    from .C20 import _const_index_under_len_guard
                    gi = _const_index_under_len_guard(b, cfg, tr, bi, t)
                    if gi:
                        rep.ok('R1', 'index-below-guarded-length:%s' % b.fn_name, where(b, bi), gi)
                        continue
                rep.fail('R1', '%s/%s' % (b.fn_name, n.rsplit('::', 1)[-1]), where(b, bi),
                         '%s can panic on some input string: the parser must report an error instead' % n)
    if n_debug:
        rep.assume('%d panic-capable site(s) inside debug_assert!-family self-checks are not decided' % n_debug)
    # a parser that assembles the matrix with a constructor has no index writes that could be out of bounds (and may have no
    # panic-capable site at all: nothing to enumerate is the best case, not a lost anchor)
    has_ctor = any((callee_name(t2) or '').endswith('::new') and len(t2['args']) == 9 and 'Matrix' in t2['dest'].get('ty', '')
                   for _, t2 in fo.calls())
    rep.floor('R1', 'panic-capable sites enumerated in the parser', n_sites, 0 if has_ctor else 3)
    has_ctor = any((callee_name(t2) or '').endswith('::new') and len(t2['args']) == 9 and 'Matrix' in t2['dest'].get('ty', '')
                   for _, t2 in fo.calls())
    # (3 on the pinned tree: x, y, constant; a merged `'x' | 'y'` arm writes both coefficient columns at one site)
    rep.floor('R2', 'matrix index writes in the parser', len(index_sites), 0 if has_ctor else 1)
    for (b, cfg, tr, bi, t) in index_sites:
        idx = tr.origin(t['args'][1])
        ok = False
        why = 'index is not a (row, col) tuple'
        if idx['o'] == 'rvalue' and idx['rv']['r'] == 'aggr' and len(idx['rv']['ops']) == 2:
            row, col = idx['rv']['ops']
            cv = const_value(col) if col.get('k') == 'const' else None
            col_ok = isinstance(cv, int) and 0 <= cv < 3
            if not col_ok:
                # a column chosen among constants (`if c == 'x' { X_COLUMN } else { Y_COLUMN }`, a named constant)
                cvs = _small_consts(f, b, tr, col)
                if cvs and all(0 <= v < 3 for v in cvs):
                    col_ok, cv = True, '/'.join(str(v) for v in sorted(cvs))
            ro = tr.origin(row)
            rv = const_value(ro['c']) if ro['o'] == 'const' else None
            if isinstance(rv, int):
                row_ok, rwhy = 0 <= rv < 3, 'constant row %d' % rv
            else:
                row_ok, rwhy = _row_from_guarded_enumerate(b, cfg, tr, ro, bi)
            ok = col_ok and row_ok
            why = 'col=%s; row: %s' % (cv, rwhy)
        rep.check(ok, 'R2', 'index-in-bounds:col%s' % (const_value(idx['rv']['ops'][1]) if idx['o'] == 'rvalue' and len(idx['rv'].get('ops', [])) == 2 else '?'),
                  where(b, bi), why, 'a matrix write in the parser can be out of bounds (%s): e.g. "x,y,x,y" would index row 3' % why)
        rep.sample('%s: transform[(row, %s)] — %s' % (where(b, bi), const_value(idx['rv']['ops'][1]) if idx['o'] == 'rvalue' else '?', why))
    # errors are propagated: every Result produced in from_operations flows into `?`/return
    tr = Tracer(fo)
    n_res = 0
    for bi, t in fo.calls():
        if t['dest']['ty'].startswith('std::result::Result<') and not call_matches(t, 'Try>::branch', 'FromResidual'):
            n_res += 1
            from ..mirutil import uses_of_local
            # the names the value is known by (a spliced helper's result is moved into the caller's local before its `?`)
            flow = {t['dest']['l']}
            grew = True
            while grew:
                grew = False
                for bb2 in fo.blocks:
                    for s2 in bb2['stmts']:
                        if s2['s'] == 'assign' and not s2['place']['p'] and s2['rv']['r'] == 'use' and s2['rv']['a'].get('l') in flow \
                                and not s2['rv']['a'].get('p') and s2['place']['l'] not in flow:
                            flow.add(s2['place']['l'])
                            grew = True
                    # an error-decorating wrapper hands the same Result on (`.map_err(|e| { warn!(..); e })`, `.context(..)`)
                    t2 = bb2['term']
                    if t2['t'] == 'call' and t2['args'] and t2['args'][0].get('l') in flow and not t2['args'][0].get('p') and \
                            not t2['dest']['p'] and t2['dest']['l'] not in flow and \
                            call_matches(t2, 'Result::<T, E>::map_err', 'Context::context', 'Context::with_context',
                                         'Context<T, E>>::context', 'Context<T, E>>::with_context',
                                         'for std::result::Result<T, E>>::context', 'for std::result::Result<T, E>>::with_context'):
                        flow.add(t2['dest']['l'])
                        grew = True
            uses = [u for l2 in flow for u in uses_of_local(fo, l2)]
            okp = 0 in flow or any(u[2] == 'callarg' and call_matches(fo.blocks[u[0]]['term'], 'Try>::branch', 'Try::branch')
                                   for u in uses)
            rep.check(okp, 'R1', 'error-propagated:%s' % (callee_name(t) or '').rsplit('::', 1)[-1], where(fo, bi),
                      'Result goes through `?`', 'a Result in the parser is unwrapped or dropped')
    transition_lemmas(ctx, fo)
    rep.note('the denotation of every grammar string (sign/term/constant orders) is not decided statically; a cross-reference: '
             'the \'/\' and \'*\' operator arms have identical effects (harmless: the grammar has no \'*\')')


def length_locals(b, tr, cont):
    """Locals that hold the length of container `cont`: results of len() on it, and PtrMetadata / Len reads of a slice of it
    (what `match v.as_slice() { [a, b] => .. }` compiles to)."""
    from ..anchors import container_root
    xs = []
    for bi, t in b.calls():
        if call_matches(t, 'Vec::<T, A>::len', '<impl [T]>::len') and t['args']:
            o, _ = through(tr, t['args'][0])
            if o.get('l') == cont or container_root(b, tr, t['args'][0]) == cont:
                xs.append(t['dest']['l'])
    for bb in b.blocks:
        for s in bb['stmts']:
            if s['s'] != 'assign' or s['place']['p']:
                continue
            rv = s['rv']
            src = None
            if rv['r'] == 'unop' and rv.get('op') == 'PtrMetadata' and 'l' in rv['a']:
                src = rv['a']
            elif rv['r'] == 'len' and 'place' in rv:
                src = dict(rv['place'], k='copy')
            if src is not None and container_root(b, tr, src) == cont:
                xs.append(s['place']['l'])
    return xs


def _row_from_guarded_enumerate(b, cfg, tr, ro, use_bb):
    """row = .0 of the item yielded by Enumerate::next over vec.iter() where len(vec) was narrowed by dominating guards."""
    fp = field_path(ro.get('p', []))
    if not (ro['o'] == 'call' and call_matches(ro['term'], 'Enumerate<I> as std::iter::Iterator>::next', 'Enumerate<I>>::next')
            and fp[-1:] == ['0']):
        return False, 'row index is not the counter of an enumerate()'
    next_bb = ro['bb']
    src, chain = adaptor_chain(tr, ro['term']['args'][0])
    # cut the chain at the slice iterator: what it iterates is the container
    names = []
    vec_l = None
    from ..anchors import container_root
    for nm, tt, cbb in chain:
        names.append(nm)
        if nm == 'iter':
            vec_l = container_root(b, tr, tt['args'][0])
            break
    if any(x not in ('enumerate', 'iter', 'into_iter', 'deref') for x in names) or 'enumerate' not in names:
        return False, 'the enumerated iterator passes through %s' % names
    if vec_l is None:
        return False, 'enumerated collection not a local'
    import re as _re
    m = _re.match(r'^&?\[.*; (\d+)\]$', b.local_ty(vec_l))
    if m:
        nfix = int(m.group(1))
        return nfix - 1 < 3, 'enumerate counter < %d, the length of the fixed-size array _%d' % (nfix, vec_l)
    # len() calls on the same vec, and the slice-length reads a slice pattern compiles to
    xs = length_locals(b, tr, vec_l)
    if not xs:
        return False, 'no length guard on the enumerated Vec'
    # copies of the length
    d = Defs(b)
    closure = set(xs)
    for l in range(len(b.locals)):
        ch = [c for c, _ in tr.chain({'k': 'copy', 'l': l, 'p': []})]
        if set(ch) & set(xs):
            closure.add(l)
    lo, hi, used = guard_interval(b, cfg, tr, closure, next_bb)
    # the Vec must not be resized
    for bi, t in b.calls():
        if call_matches(t, 'Vec::<T, A>::push', 'Vec::<T, A>::pop', 'Vec::<T, A>::clear', 'Vec::<T, A>::truncate',
                        'Vec::<T, A>::remove', 'Vec::<T, A>::append', 'Vec::<T, A>::insert', 'Vec::<T, A>::retain',
                        'Vec::<T, A>::drain', 'Vec::<T, A>::extend'):
            o, _ = through(tr, t['args'][0])
            if o.get('l') == vec_l:
                return False, 'the enumerated Vec is resized'
    if hi is None:
        return False, 'the length of the enumerated Vec is not bounded above by a dominating guard (guards used: %s)' % used
    ok = hi - 1 < 3
    return ok, 'enumerate counter < len(_%d) in [%d,%d] (guards %s) => row <= %d' % (vec_l, lo, hi, [(u[1], u[2], u[3]) for u in used], hi - 1)


# ---------------------------------------------------------------------------------------------------------------
# R3 — per-character transition lemmas (necessary conditions of "parses to the affine map the expression denotes").
# The inner character loop's body is loop-free: it is executed symbolically once, from the block that receives the
# character, with a fully symbolic parser state (pending sign, constant, pending operator, matrix), and stops at the loop
# head.  The lemmas below follow from the notation itself (not from this implementation): blanks are insignificant, '-'
# makes the pending sign negative, a variable stores the pending sign in its column and consumes it, '/' then a digit
# divides, the row's constant ends up in column 2.  They say nothing about strings outside the grammar.

def transition_lemmas(ctx, fo):
    """Per-character lemmas on one symbolic step of every character loop, with the parser state discovered by behaviour:
    the state is every place (local, field of a local, entry of the matrix) that lives across iterations; the roles (pending
    sign, pending operator, x / y / constant cells) are read off what the steps for '-', '/', 'x', 'y' and a digit change, and
    every lemma then restricts what the OTHER steps may do to them.  The cells are finally traced to the matrix entries of
    their row.  Works for the matrix-writing parser of the reference tree and for parsers that collect a row first."""
    from ..sym import NUM, SYM, STRUCT, SymEx, sfield
    from ..terms import Norm, NotNumeric
    from ..loops import for_loops
    rep, f = ctx.rep, ctx.facts
    # nest form: a parser state kept in a struct (`RowParser { row, sign, operator }` behind `&mut self`) is the set of its fields
    fo = f.nest_form(fo, yields=False)
    cfg = CFG(fo)
    tr = Tracer(fo)
    loops = for_loops(fo, cfg, tr)
    inner = [d for d in loops if 'Chars' in (d['next_term']['args'][0].get('ty', '') + d['next_term']['func'].get('fn', '') +
                                                 str(d['next_term']['func'].get('self_ty', '')))]
    if not rep.check(1 <= len(inner) <= 2, 'R3', 'anchor:character-loop', where(fo), '%d loop(s) over chars()' % len(inner),
                     'expected one loop over the characters of a component (or one per row), found %d' % len(inner),
                     'undecidable-shape'):
        return
    n = Norm()
    lemmas = {32: 'blank', 43: 'plus', 45: 'minus', 120: 'x', 121: 'y', 47: 'slash'}
    all_cells = []
    n_digit = 0
    seen = set()
    for li, d in enumerate(inner):
        hdr, item = d['header'], d['item_local']
        body = d['loop']['body']
        sw = fo.blocks[d['next_term']['target']]['term']
        some_t = None
        if sw['t'] == 'switch':
            arms = dict((v, x) for v, x in sw['arms'])
            some_t = arms.get('1', sw['otherwise'])
        if not rep.check(some_t is not None, 'R3', 'character-loop-shape', where(fo, hdr), 'switch on next()', 'loop shape not recognised',
                         'undecidable-shape'):
            return
        # state locals: defined both outside and inside the loop body (or written in part inside it)
        state = []
        for l in range(1, len(fo.locals)):
            if l == item:
                continue
            defs_in = [x for x in tr.defs.of(l) if x[0] in body and x[0] in cfg.reach]
            pw_in = [x for x in tr.defs.pwrites.get(l, []) if x[0] in body and x[0] in cfg.reach]
            defs_out = [x for x in tr.defs.of(l) if x[0] not in body and x[0] in cfg.reach]
            if (defs_in and defs_out) or (pw_in and defs_out):
                ty = fo.local_ty(l)
                scalar = ty in ('f64', 'bool', 'char', 'u8', 'u32', 'u64', 'usize', 'i32', 'i64') or \
                    ty.startswith('std::option::Option<') or f.norm(ty) in f.adts
                if ty == 'bool' and fo.local_name(l) is None and not fo.locals[l].get('sroa'):
                    continue        # a compiler-generated drop flag
                if scalar or pw_in:
                    state.append(l)
        # a matrix written through index_mut inside the loop
        mat_l = None
        for bi, t in fo.calls():
            nm = callee_name(t) or ''
            if '(usize, usize)' in nm and nm.endswith('index_mut'):
                from ..anchors import container_root
                mat_l = container_root(fo, tr, t['args'][0])
        outer = [x for x in loops if x is not d and hdr in x['loop']['body']]
        rows = (0, 1) if outer else (li,)
        for row in rows:
            sx = SymEx(f)
            payload = SYM('c')
            if '(usize, char)' in str(d['next_term']['dest'].get('ty', '')) or 'enumerate' in d['chain']:
                # `for (offset, c) in component.chars().enumerate()`: the character is the second component of the item
                payload = STRUCT('(tuple)', None, [('0', SYM('offset')), ('1', SYM('c'))])
            frame = {item: STRUCT('std::option::Option', ('Some', 1), [('0', payload)])}
            for l in state:
                frame[l] = SYM('v%d' % l)
            if mat_l is not None:
                frame[mat_l] = SymEx.m3([[SYM('m%d%d' % (i, j)) for j in range(3)] for i in range(3)])
            if outer:
                oi = outer[0]['item_local']
                frame[oi] = STRUCT('std::option::Option', ('Some', 1), [('0', STRUCT('(tuple)', None, [('0', NUM(row)), ('1', SYM('op'))]))])
                for i2 in range(len(fo.locals)):
                    if i2 in frame:
                        continue
                    ds = tr.defs.single(i2)
                    if ds and ds[2] == 'assign' and ds[3]['r'] == 'use' and ds[0] in outer[0]['loop']['body'] and ds[0] not in body:
                        a = ds[3]['a']
                        if a.get('l') == oi:
                            fp = field_path(a['p'])
                            if fp[-1:] == ['0'] and len(fp) >= 2:
                                frame[i2] = NUM(row)
            # one step ends at the loop head; a path that leaves the loop (an error return) ends where it leaves
            leave = {s2 for bb2 in body for s2 in cfg.succ[bb2] if s2 not in body}
            outs = sx.run_region(fo, some_t, frame, {hdr} | leave)
            if not rep.check(bool(outs) and not sx.aborted, 'R3', 'character-step-loop-free', where(fo, some_t),
                             '%d paths per character step' % len(outs), 'one step of the character loop is not loop-free: %s' % (sx.aborted[:3],),
                             'undecidable-shape'):
                return
            steps = []      # (class name or 'digit', outcome, delta)
            for o in outs:
                if not (isinstance(o.ret, tuple) and o.ret[0] == 'stopped' and o.ret[1] == hdr):
                    continue
                codes = None
                # a path that took the arm for one character and then the branch `c == <another>` (or the false branch of
                # `c == <the same>`) is not a path of any string (a merged arm `'x' | 'y' => if c == 'x' ..`)
                sw_ = [c[2] for c in o.pc if c[0] == 'switch' and c[1] == SYM('c')]
                infeasible = False
                for c in o.pc:
                    if sw_ and c[0] == 'cond' and isinstance(c[1], tuple) and c[1][0] == 'cmp' and c[1][1] in ('Eq', 'Ne'):
                        a_, b_ = c[1][2], c[1][3]
                        v_ = int(b_[1]) if a_ == SYM('c') and is_num_(b_) else int(a_[1]) if b_ == SYM('c') and is_num_(a_) else None
                        if v_ is not None:
                            truth = (sw_[-1] == v_) if c[1][1] == 'Eq' else (sw_[-1] != v_)
                            if truth != c[2]:
                                infeasible = True
                if infeasible:
                    continue
                for c in o.pc:
                    if c[0] == 'switch' and c[1] == SYM('c'):
                        codes = c[2]
                    elif c[0] == 'cond' and c[2] is True and isinstance(c[1], tuple) and c[1][0] == 'cmp' and c[1][1] == 'Eq':
                        # an if / else-if chain on `c == 'x'` instead of a match
                        a_, b_ = c[1][2], c[1][3]
                        if a_ == SYM('c') and is_num_(b_):
                            codes = int(b_[1])
                        elif b_ == SYM('c') and is_num_(a_):
                            codes = int(a_[1])
                fr = o.st.frames[sx.region_fid]
                delta = {}
                for l in state:
                    v = sx.deep(o.st, fr.get(l))
                    if v == SYM('v%d' % l):
                        continue
                    if isinstance(v, tuple) and v[0] == 'struct' and v[1] == '?sym:v%d' % l:
                        for k, x in v[3]:
                            if x != SYM('v%d.%s' % (l, k)):
                                delta['v%d.%s' % (l, k)] = x
                    else:
                        delta['v%d' % l] = v
                if mat_l is not None:
                    mv = sx.deep(o.st, fr.get(mat_l))
                    for i in range(3):
                        for j in range(3):
                            x = sfield(mv, '%d%d' % (i, j)) if isinstance(mv, tuple) and mv[0] == 'struct' else None
                            if x is not None and x != SYM('m%d%d' % (i, j)):
                                delta['M[%d,%d]' % (i, j)] = x
                steps.append((lemmas.get(codes) if codes is not None else 'digit', o, delta))
            rep.floor('R3', 'paths through one character step', len(steps), 7, where(fo, some_t))
            # the digit class is '0'..='9', all ten: read off the comparisons of c on the paths that take the digit step
            dig_ranges = set()
            for nm_, o_, dl_ in steps:
                if nm_ != 'digit' or not dl_:
                    continue
                lo_, hi_ = None, None
                for c in o_.pc:
                    if c[0] != 'cond' or not (isinstance(c[1], tuple) and c[1][0] == 'cmp'):
                        continue
                    op_, a_, b_ = c[1][1], c[1][2], c[1][3]
                    if b_ == SYM('c') and is_num_(a_):
                        a_, b_ = b_, a_
                        op_ = {'Lt': 'Gt', 'Le': 'Ge', 'Gt': 'Lt', 'Ge': 'Le'}.get(op_, op_)
                    if a_ != SYM('c') or not is_num_(b_):
                        continue
                    k_ = int(b_[1])
                    if not c[2]:
                        op_ = {'Lt': 'Ge', 'Le': 'Gt', 'Gt': 'Le', 'Ge': 'Lt'}.get(op_, op_)
                    if op_ == 'Ge':
                        lo_ = k_ if lo_ is None else max(lo_, k_)
                    elif op_ == 'Gt':
                        lo_ = k_ + 1 if lo_ is None else max(lo_, k_ + 1)
                    elif op_ == 'Le':
                        hi_ = k_ if hi_ is None else min(hi_, k_)
                    elif op_ == 'Lt':
                        hi_ = k_ - 1 if hi_ is None else min(hi_, k_ - 1)
                if lo_ is not None or hi_ is not None:
                    dig_ranges.add((lo_, hi_))
            if dig_ranges:
                rep.check(dig_ranges == {(48, 57)}, 'R3', 'digit-class-is-0-to-9', where(fo, some_t), "the digit step is taken for '0'..='9'",
                          'the digit step is taken for the characters %s, not for exactly \'0\'..=\'9\''
                          % sorted((chr(a) if a else None, chr(b) if b else None) for a, b in dig_ranges))

            def same(a, b):
                try:
                    return n.rf(a).equals(n.rf(b))
                except (NotNumeric, TypeError):
                    return a == b

            by = {}
            for nm, o, dl in steps:
                by.setdefault(nm, []).append((o, dl))
            # ---- roles, read off the steps that define them ----
            sign_p = op_p = x_p = y_p = None
            sign_enum = None        # the pending sign as an enum: {'neg': variant index after '-', 'num': {variant index: +-1}}
            ms = by.get('minus', [])
            if len(ms) == 1 and len(ms[0][1]) == 1 and same(list(ms[0][1].values())[0], NUM(-1)):
                sign_p = list(ms[0][1])[0]
            elif len(ms) == 1 and len(ms[0][1]) == 1:
                mv = list(ms[0][1].values())[0]
                if isinstance(mv, tuple) and mv[0] == 'struct' and mv[2] is not None and not mv[3]:
                    sign_p = list(ms[0][1])[0]
                    sign_enum = {'neg': mv[2][1], 'num': {}}

            def sign_variant(o):
                # which variant of the sign enum this path is for (from its condition on the discriminant of the sign place)
                for c in o.pc:
                    if c[0] == 'switch' and c[1] == ('app', 'discr', (SYM(sign_p),)):
                        return c[2]
                return None
            sl = by.get('slash', [])
            if len(sl) >= 1 and all(len(dl) == 1 for _, dl in sl) and len({list(dl)[0] for _, dl in sl}) == 1:
                op_p = list(sl[0][1])[0]
            for nm in ('x', 'y'):
                xs = by.get(nm, [])
                if len(xs) == 1 and sign_p is not None and sign_enum is None:
                    others = [k for k in xs[0][1] if k != sign_p]
                    if len(others) == 1:
                        if nm == 'x':
                            x_p = others[0]
                        else:
                            y_p = others[0]
                elif sign_enum is not None and xs:
                    # one path per sign variant: the cell receives the number the variant stands for
                    cells_, ok_ = set(), True
                    for o2, dl2 in xs:
                        k2 = sign_variant(o2)
                        others = [k for k in dl2 if k != sign_p]
                        if k2 is None or len(others) != 1 or not (is_num_(dl2[others[0]]) and abs(dl2[others[0]][1]) == 1):
                            ok_ = False
                            break
                        cells_.add(others[0])
                        if sign_enum['num'].setdefault(k2, int(dl2[others[0]][1])) != int(dl2[others[0]][1]):
                            ok_ = False
                    if ok_ and len(cells_) == 1:
                        if nm == 'x':
                            x_p = cells_.pop()
                        else:
                            y_p = cells_.pop()
            if sign_enum is not None:
                nm_ = sign_enum['num']
                if not (len(nm_) == 2 and nm_.get(sign_enum['neg']) == -1 and sorted(nm_.values()) == [-1, 1]):
                    x_p = y_p = None        # '-' does not select the variant that x / y store as -1
                else:
                    sign_enum['pos'] = [k for k, v in nm_.items() if v == 1][0]
            okr = None not in (sign_p, op_p, x_p, y_p) and len({sign_p, op_p, x_p, y_p}) == 4
            if not rep.check(okr, 'R3', 'parser-state-roles', where(fo, some_t),
                             'pending sign %s, pending operator %s, x cell %s, y cell %s' % (sign_p, op_p, x_p, y_p),
                             'cannot identify the parser state by what the steps for - / x y change: sign=%s operator=%s x=%s y=%s '
                             '(each of these steps must change exactly the place that carries its meaning)' % (sign_p, op_p, x_p, y_p),
                             'undecidable-shape' if not ms or not sl or 'x' not in by or 'y' not in by else 'violation'):
                return
            S = SYM(sign_p)

            def is_pos(v):
                # the sign place holds "+": the number 1, or the variant that stands for +1
                if sign_enum is None:
                    return same(v, NUM(1))
                return isinstance(v, tuple) and v[0] == 'struct' and v[2] is not None and v[2][1] == sign_enum['pos']

            def is_neg(v):
                if sign_enum is None:
                    return same(v, NUM(-1))
                return isinstance(v, tuple) and v[0] == 'struct' and v[2] is not None and v[2][1] == sign_enum['neg']
            for nm, o, dl in steps:
                if nm == 'digit' or nm is None:
                    continue
                seen.add(nm)
                if nm in ('blank', 'plus'):
                    ok = not dl or (nm == 'plus' and set(dl) == {sign_p} and is_pos(dl[sign_p]))
                    why = 'a %s changes the parser state (%s): "x - 1/2" and "x -1/2" would parse differently although spaces ' \
                          'are optional' % ('blank' if nm == 'blank' else '\'+\'', sorted(dl))
                elif nm == 'minus':
                    ok = set(dl) == {sign_p} and is_neg(dl[sign_p])
                    why = '\'-\' does not simply make the pending sign negative (changes %s)' % sorted(dl)
                elif nm in ('x', 'y'):
                    cell = x_p if nm == 'x' else y_p
                    if sign_enum is None:
                        ok = set(dl) == {cell, sign_p} and dl[cell] == S and same(dl[sign_p], NUM(1))
                    else:
                        k2 = sign_variant(o)
                        ok = set(dl) == {cell, sign_p} and k2 in sign_enum['num'] and same(dl[cell], NUM(sign_enum['num'][k2])) and \
                            is_pos(dl[sign_p])
                    if cell.startswith('M['):
                        ok = ok and cell == 'M[%d,%d]' % (row, 0 if nm == 'x' else 1)
                    why = '\'%s\' does not store the pending sign in its cell and consume it: changes %s' % (nm, {k: str(v)[:40] for k, v in dl.items()})
                else:
                    ok = set(dl) == {op_p}
                    why = '\'/\' does not simply record a pending division (changes %s)' % sorted(dl)
                rep.check(ok, 'R3', 'char-step:%s:row%d' % (nm, row), where(fo, some_t), 'lemma for \'%s\' holds' % nm, why)
            # ---- digits ----
            const_p = None
            pending = {repr(list(dl.values())[0]) for _, dl in sl}     # the value(s) the operator place takes after '/'
            for o, dl in by.get('digit', []):
                cands = [k for k in dl if k not in (sign_p, op_p)]
                if len(cands) != 1:
                    continue
                cp = cands[0]
                cv = dl[cp]
                try:
                    got = n.rf(cv)
                except (NotNumeric, TypeError):
                    continue
                atoms = got.atoms()
                if not any(a == 'c' or 'c)' in a or '(c' in a or a.startswith('c.') or ', c' in a for a in atoms):
                    # the default arm of a nested match (e.g. Some(_) => 0.) does not involve the digit: with the only operator the
                    # character steps ever record ('/') it is dead code — unless this path is taken WITH a pending '/': then a
                    # digit that follows a '/' is dropped
                    if any((c[0] == 'cond' and c[2] is True and '47' in repr(c[1])) or (c[0] == 'switch' and c[2] == 47) for c in o.pc):
                        rep.fail('R3', 'digit-step:after-slash', where(fo, some_t),
                                 'on a path taken with a pending \'/\' the digit does not enter the constant (it becomes %s): '
                                 'for some digits the fraction is dropped' % got.canon()[:80])
                    continue
                const_p = const_p or cp
                if cp != const_p:
                    rep.fail('R3', 'digit-step:one-constant-cell', where(fo, some_t), 'digits write two different places: %s, %s' % (const_p, cp))
                    continue
                C = n.atom(const_p)
                if sign_enum is None:
                    s_ = n.atom(sign_p)
                else:
                    k2 = sign_variant(o)
                    if k2 not in sign_enum['num']:
                        rep.fail('R3', 'digit-step:form', where(fo, some_t), 'a digit step does not depend on the pending sign',
                                 'undecidable-shape')
                        continue
                    s_ = n.const(sign_enum['num'][k2])
                # is the operator pending on this path?  (conditions on the operator place)
                op_conds = [c for c in o.pc if c[0] in ('switch', 'switch-not', 'cond') and op_p.split('.')[0] in repr(c[1])]
                is_none = any(c[0] == 'switch' and c[2] == 0 for c in op_conds) or \
                    any(c[0] == 'cond' and c[2] is False and op_p in repr(c[1]) and c[1][0] == 'sym' for c in op_conds)
                from ..poly import subst
                def _try(fn):
                    try:
                        return fn()
                    except Exception:      # noqa: BLE001  (a value that is not defined at that point, e.g. a division by the constant)
                        return None
                if sign_enum is None:
                    v_first = _try(lambda: subst(subst(got, sign_p, n.const(1)), const_p, n.const(0)))
                    v_div = _try(lambda: subst(subst(got, sign_p, n.const(1)), const_p, n.const(1)))
                else:
                    # the value this path would compute for the "+" variant: the sign enters as a factor +-1
                    v_first = _try(lambda: subst(got, const_p, n.const(0)) * s_)
                    v_div = _try(lambda: subst(got, const_p, n.const(1)) * s_)
                if v_first is None and v_div is None:
                    continue
                digit_only = lambda rf: all(a not in (sign_p, const_p) and not a.startswith('v') for a in rf.atoms())     # noqa: E731
                n_digit += 1
                if v_first is not None and got.equals(s_ * v_first) and digit_only(v_first) and not v_first.is_zero():
                    ok = is_none and is_pos(dl.get(sign_p, S))
                    rep.check(ok, 'R3', 'digit-step:first-digit', where(fo, some_t), 'constant := sign * digit; sign consumed',
                              'constant := sign*digit happens while an operator is pending, or the sign is not consumed')
                elif v_div is not None and (got.equals(s_ * C * v_div) or got.equals(C * v_div)) and digit_only(v_div):
                    slash = any(c[0] == 'cond' and c[2] and '47' in repr(c[1]) for c in o.pc) or \
                        any(c[0] == 'switch' and c[2] == 47 for c in o.pc) or not is_none
                    if slash and any('47' in repr(c[1]) or c[2] == 47 for c in o.pc if c[0] in ('cond', 'switch')):
                        # v_div is what multiplies the constant: it must be the reciprocal of a digit-only value
                        okd = not v_div.is_zero() and digit_only(n.const(1) / v_div)
                        rep.check(okd, 'R3', 'digit-step:after-slash', where(fo, some_t), 'constant := [sign*]constant / digit',
                                  'a digit after \'/\' does not divide the constant by the digit (got %s)' % got.canon()[:120])
                else:
                    rep.fail('R3', 'digit-step:form', where(fo, some_t),
                             'a digit sets the constant to %s: neither sign*digit nor [sign*]constant/digit' % got.canon()[:160])
            if not rep.check(const_p is not None, 'R3', 'digit-step:constant-cell', where(fo, some_t), 'constant cell %s' % const_p,
                             'no digit step writes a place with a value that depends on the digit', 'undecidable-shape'):
                return
            all_cells.append({'loop': d, 'row': row, 'x': x_p, 'y': y_p, 'const': const_p, 'mat': mat_l, 'nested': bool(outer)})
    for nm in lemmas.values():
        rep.check(nm in seen, 'R3', 'char-step-present:%s' % nm, where(fo), 'handled', 'no path handles the character class %s' % nm,
                  'undecidable-shape')
    rep.floor('R3', 'digit transitions checked', n_digit, 2, where(fo))
    _cell_wiring(ctx, fo, cfg, tr, all_cells)
    rep.sample('character step: blank=identity, \'-\': sign:=-1, x/y: cell:=sign & sign:=1, \'/\': pending division, digit: sign*d or constant/d')


def _cell_wiring(ctx, fo, cfg, tr, cells):
    """The x / y / constant cells of each row end up in entries (row, 0), (row, 1), (row, 2) of the returned matrix."""
    rep = ctx.rep
    if not cells:
        return
    if cells[0]['mat'] is not None and cells[0]['x'].startswith('M['):
        # matrix-writing parser: x / y cells ARE the entries (checked per row above); the constant is stored after the loop
        d = cells[0]['loop']
        ok = False
        late = None
        for bi, t in fo.calls():
            nm = callee_name(t) or ''
            if '(usize, usize)' in nm and nm.endswith('index_mut') and bi not in d['loop']['body']:
                idx = tr.origin(t['args'][1])
                col = const_value(idx['rv']['ops'][1]) if idx['o'] == 'rvalue' and len(idx['rv'].get('ops', [])) == 2 else None
                if col == 2:
                    rl = t['dest']['l']
                    for (wbi, wsi, pl, rv) in tr.defs.dwrites.get(rl, []):
                        if rv.get('r') == 'use' and rv['a'].get('l') is not None:
                            src = tr.chain(rv['a'])[-1][0]
                            late = src
                            ok = 'v%d' % src == cells[0]['const']
        rep.check(ok, 'R3', 'constant-stored-after-the-characters', where(fo),
                  'transform[(row, 2)] := constant after the character loop',
                  'the constant cell %s is not stored in column 2 after the character loop (stored: %s)' % (cells[0]['const'], late))
        return
    # row-collecting parser: follow what is put into the matrix back to the cells

    def resolve(op):
        """Place an operand's value comes from, looking through `?`, helper results (the Ok(..) definition of a spliced
        helper's return slot), arrays and tuples."""
        o, _ = through(tr, op)
        for _ in range(6):
            if o['o'] == 'local' and len(tr.defs.of(o['l'])) > 1:
                succ = [x for x in tr.defs.of(o['l']) if x[2] == 'assign' and x[3].get('r') == 'aggr' and
                        x[3].get('variant') in ('Ok', 'Some', 'Continue') and x[0] in cfg.reach]
                if len(succ) == 1 and succ[0][3]['ops']:
                    a = succ[0][3]['ops'][0]
                    p = [e for e in o['p'] if not (isinstance(e, dict) and 'downcast' in e)]
                    if p and isinstance(p[0], dict) and p[0].get('f') == 0 and o['p'] and isinstance(o['p'][0], dict) and 'downcast' in o['p'][0]:
                        p = p[1:]
                    if a.get('k') == 'const':
                        return None
                    o = tr._origin_place(a['l'], list(a['p']) + p, 0)
                    o2, _ = (o, None)
                    continue
            break
        if o['o'] == 'local':
            fp = field_path(o['p'])
            return 'v%d' % o['l'] + (''.join('.' + x for x in fp) if fp else '')
        return None
    from ..loops import for_loops
    array_loops = {}
    for d2 in for_loops(fo, cfg, tr):
        if d2['chain_terms'] and all(c2[0] in ('enumerate', 'iter', 'into_iter', 'iter_mut') for c2 in d2['chain_terms']):
            so = tr.origin(d2['chain_terms'][-1][1]['args'][0])
            if so['o'] == 'rvalue' and so['rv'].get('r') == 'aggr' and so['rv'].get('agg') == 'array':
                array_loops[d2['header']] = (so['rv']['ops'], any(c2[0] == 'enumerate' for c2 in d2['chain_terms']))

    def resolve_multi(op):
        """resolve(), and for the item of a loop over an array literal `[a, b]` one resolution per element."""
        o, _ = through(tr, op)
        if o['o'] == 'call' and call_matches(o['term'], '::next') and o.get('bb') in array_loops:
            elems, enum = array_loops[o['bb']]
            p = list(o['p'])
            # Some payload, then (for enumerate) the second tuple component, then an optional deref
            if p and isinstance(p[0], dict) and 'downcast' in p[0]:
                p = p[1:]
            if p and isinstance(p[0], dict) and p[0].get('f') == 0:
                p = p[1:]
            if enum:
                if not (p and isinstance(p[0], dict) and p[0].get('f') == 1):
                    return [None]
                p = p[1:]
            p = [e for e in p if e not in ('deref', 'ref')]
            out = []
            for e in elems:
                if 'l' not in e:
                    out.append(None)
                    continue
                out.append(resolve(dict(e, k='copy', p=list(e['p']) + p)))
            return out
        return [resolve(op)]
    want = {}
    for c in cells:
        for j, k in enumerate(('x', 'y', 'const')):
            want[(c['row'], j)] = c[k]
    bad = []
    n_wired = 0
    ctor = [(bi, t) for bi, t in fo.calls() if (callee_name(t) or '').endswith('::new') and len(t['args']) == 9 and 'Matrix' in (t['dest'].get('ty', ''))]
    if len(ctor) == 1:
        bi, t = ctor[0]
        for (r, j), cell in sorted(want.items()):
            got = resolve(t['args'][3 * r + j])
            n_wired += 1
            if got != cell:
                bad.append('entry (%d,%d) comes from %s, expected the %s cell %s' % (r, j, got, ('x', 'y', 'constant')[j], cell))
    else:
        loops_bodies = set()
        for c in cells:
            loops_bodies |= c['loop']['loop']['body']
        bi = None
        for wbi, t in fo.calls():
            nm = callee_name(t) or ''
            if '(usize, usize)' in nm and nm.endswith('index_mut') and wbi not in loops_bodies and wbi in cfg.reach:
                idx = tr.origin(t['args'][1])
                col = const_value(idx['rv']['ops'][1]) if idx['o'] == 'rvalue' and len(idx['rv'].get('ops', [])) == 2 else None
                rl = t['dest']['l']
                for (w2, wsi, pl, rv) in tr.defs.dwrites.get(rl, []):
                    if rv.get('r') == 'use' and rv['a'].get('l') is not None and col in (0, 1, 2):
                        gots = resolve_multi(rv['a'])
                        n_wired += 1
                        bi = wbi
                        cands = {c[('x', 'y', 'const')[col]] for c in cells}
                        for ei, got in enumerate(gots):
                            if got not in cands:
                                bad.append('column %d is written from %s, expected the %s cell %s' % (col, got, ('x', 'y', 'constant')[col], sorted(cands)))
                            elif len(gots) > 1:
                                # element ei of the array literal is written to row ei (the enumerate index): it must be the
                                # cell of the ei-th row parsed
                                wantc = [c[('x', 'y', 'const')[col]] for c in cells if c['row'] == ei]
                                if wantc and got not in wantc:
                                    bad.append('row %d column %d is written from %s, the cell of another row (expected %s)' % (ei, col, got, wantc))
    rep.check(not bad and n_wired >= 3, 'R3', 'row-cells-reach-the-matrix', where(fo, bi) if bi is not None else where(fo),
              'entries (row, 0..2) = x, y, constant cells of that row (%d checked)' % n_wired,
              '; '.join(bad[:3]) or 'cannot find how the rows are assembled into the matrix')


def _apps(v):
    out = []
    if isinstance(v, tuple):
        if v and v[0] == 'app':
            out.append(v)
        for x in v:
            if isinstance(x, tuple):
                out.extend(_apps(x))
    return out


def run(ctx):
    _run_rules(ctx)
    # R4: what a reader of the parsed map gets is the parsed matrix (Transform2 -> Matrix3 is not a transpose / re-composition)
    from .C11 import conversion_is_the_matrix
    conversion_is_the_matrix(ctx, 'R4')
    # R5: "anything else is reported as an error": the caller that parses the group tables keeps every string and passes a
    # parse error on (the WyckoffSite::new obligations of C10.R5)
    from ..harness import Report
    from .C10 import _carried
    rep = ctx.rep
    sub = type('Ctx', (), {})()
    sub.__dict__.update(ctx.__dict__)
    sub.rep = Report('C10', ctx.tier)
    _carried(sub, main=False)
    n = 0
    for o in sub.rep.obligations:
        if 'WyckoffSite::new' not in o['instance'] and 'each-string-parsed' not in o['instance']:
            continue
        n += 1
        if o['ok']:
            rep.ok('R5', 'C10:' + o['instance'], o['construct'], o['why'])
        else:
            rep.fail('R5', 'C10:' + o['instance'], o['construct'], o['why'], o['reason'])
    rep.floor('R5', 'imported obligations on WyckoffSite::new (C10.R5)', n, 3)
    from .common import import_obligations
    # "never crashes the program": the constructors that parse the group tables pass the error on (C20.R1 for from_group / WyckoffSite)
    import_obligations(ctx, 'C20', 'R6', only_rules={'R1'}, floor=0, only_instances=lambda k: 'from_group' in k or 'WyckoffSite' in k)

