"""C17 — symmetry-operation strings: the parser never crashes the program (clause only)."""
from ..cfg import CFG
from ..harness import where
from ..lineage import adaptor_chain, through
from ..mirutil import Defs, Tracer, call_matches, callee_name, const_value, field_path
from .C20 import PANIC_CALLS, _generated, _ptrcheck

LEVEL = 'other'
EXPLANATION = ('(R1/R2) "never crashes": every panic-capable construct reachable from Transform2::from_operations, WyckoffSite::new '
               'and get_wallpaper_group is enumerated; the only ones allowed are the matrix writes transform[(row, col)], whose column is a '
               'constant < 3 and whose row is the enumerate() counter over a Vec whose length was narrowed to exactly 2 by the two guards that '
               'dominate the loop, on a Vec that is never resized. (R3) necessary conditions of "parses to the affine map it denotes": one '
               'step of the character loop is executed symbolically from the block that receives the character, with a fully symbolic '
               'parser state, and must satisfy the lemmas that follow from the notation itself (blank = identity, \'-\' => sign := -1, x/y '
               'store and consume the pending sign in their column, \'/\' => pending division, digit => sign*digit or constant/digit, the '
               'constant is stored in column 2 after the characters). That EVERY grammar string parses to its denotation is NOT decided.')


def guard_interval(b, cfg, tr, x_locals, target_bb):
    """Interval of an unsigned integer value (held in any of x_locals) at target_bb, refined by the comparison
    switches that dominate target_bb."""
    lo, hi = 0, None
    used = []
    for bi in sorted(cfg.reach):
        t = b.blocks[bi]['term']
        if t['t'] != 'switch' or not cfg.dominates(bi, target_bb) or bi == target_bb:
            continue
        o = tr.origin(t['discr'])
        if o['o'] != 'rvalue' or o['rv']['r'] != 'binop':
            continue
        op = o['rv']['op']
        a, c = o['rv']['a'], o['rv']['b']
        ch = [l for l, _ in tr.chain(a)]
        ao = tr.origin(a)
        if ao['o'] in ('call', 'rvalue', 'local', 'arg') and not field_path(ao.get('p', [])) and ao.get('l') is not None:
            ch.append(ao['l'])      # single-definition value reached through references
        if not (set(ch) & set(x_locals)) or c.get('k') != 'const':
            continue
        k = const_value(c)
        if not isinstance(k, int):
            continue
        # which edge leads to the target?
        false_t = [x[1] for x in t['arms'] if x[0] == '0']
        true_t = t['otherwise']
        if not false_t:
            continue
        false_t = false_t[0]
        via_true = target_bb in cfg.reachable_from([true_t], avoid={bi})
        via_false = target_bb in cfg.reachable_from([false_t], avoid={bi})
        if via_true == via_false:
            continue
        holds = via_true
        # refine
        if op == 'Lt':
            if holds:
                hi = k - 1 if hi is None else min(hi, k - 1)
            else:
                lo = max(lo, k)
        elif op == 'Le':
            if holds:
                hi = k if hi is None else min(hi, k)
            else:
                lo = max(lo, k + 1)
        elif op == 'Gt':
            if holds:
                lo = max(lo, k + 1)
            else:
                hi = k if hi is None else min(hi, k)
        elif op == 'Ge':
            if holds:
                lo = max(lo, k)
            else:
                hi = k - 1 if hi is None else min(hi, k - 1)
        elif op == 'Eq' and holds:
            lo, hi = max(lo, k), (k if hi is None else min(hi, k))
        elif op == 'Ne' and not holds:
            lo, hi = max(lo, k), (k if hi is None else min(hi, k))
        else:
            continue
        used.append((bi, op, k, holds))
    return lo, hi, used


def run(ctx):
    rep, f, cg = ctx.rep, ctx.facts, ctx.cg
    rep.trust('nalgebra Matrix3 IndexMut panics iff row >= 3 or col >= 3; Enumerate over a slice iterator yields indices < len')
    fo = f.one(self_adt='transform::Transform2', name='from_operations')
    ws = f.one(self_adt='wallpaper::WyckoffSite', name='new')
    gw = f.body('wallpaper::get_wallpaper_group')
    if not rep.check(fo is not None and ws is not None and gw is not None, 'R1', 'anchor:parser-entry-points', 'transform/wallpaper',
                     'found', 'from_operations / WyckoffSite::new / get_wallpaper_group not found', 'anchor-lost'):
        return
    roots = [fo.key_in_facts, ws.key_in_facts, gw.key_in_facts]
    reach = sorted(cg.reachable(roots))
    rep.floor('R1', 'bodies reachable from the parser entry points', len(reach), 4)
    index_sites = []
    n_sites = 0
    n_debug = 0
    for k in reach:
        b = f.bodies[k]
        if b.derived or _generated(b, f):
            continue
        rep.saw(b)
        cfg = CFG(b)
        tr = Tracer(b)
        from .C20 import debug_only_blocks
        dbg = debug_only_blocks(b, cfg)
        for bi in sorted(cfg.reach):
            bb = b.blocks[bi]
            if bb['cleanup']:
                continue
            t = bb['term']
            if bi in dbg and (t['t'] == 'assert' or (t['t'] == 'call' and any(p in (callee_name(t) or '') for p in PANIC_CALLS))):
                n_debug += 1        # a debug_assert! self-check (not decided; absent when debug assertions are off)
                continue
            if t['t'] == 'assert':
                n_sites += 1
                kind = t['kind'].split(' ')[0].split('{')[0]
                if kind in ('NullPointerDereference', 'MisalignedPointerDereference'):
                    v, sig, why = _ptrcheck(b, tr, bi, t)
                    rep.check(v == 'discharged', 'R1', 'ptr-check:%s' % b.fn_name, where(b, bi), why, why)
                else:
                    rep.fail('R1', '%s/assert:%s' % (b.fn_name, kind), where(b, bi),
                             'a %s check can panic on some input string' % kind)
            elif t['t'] == 'call':
                n = callee_name(t) or ''
                if not any(p in n for p in PANIC_CALLS):
                    continue
                n_sites += 1
                if '(usize, usize)' in n and 'index' in n.rsplit('::', 1)[-1]:
                    index_sites.append((b, cfg, tr, bi, t))
                    continue
                rep.fail('R1', '%s/%s' % (b.fn_name, n.rsplit('::', 1)[-1]), where(b, bi),
                         '%s can panic on some input string: the parser must report an error instead' % n)
    if n_debug:
        rep.assume('%d panic-capable site(s) inside debug_assert!-family self-checks are not decided' % n_debug)
    rep.floor('R1', 'panic-capable sites enumerated in the parser', n_sites, 3)
    rep.floor('R2', 'matrix index writes in the parser', len(index_sites), 3)
    for (b, cfg, tr, bi, t) in index_sites:
        idx = tr.origin(t['args'][1])
        ok = False
        why = 'index is not a (row, col) tuple'
        if idx['o'] == 'rvalue' and idx['rv']['r'] == 'aggr' and len(idx['rv']['ops']) == 2:
            row, col = idx['rv']['ops']
            cv = const_value(col) if col.get('k') == 'const' else None
            col_ok = isinstance(cv, int) and 0 <= cv < 3
            ro = tr.origin(row)
            rv = const_value(ro['c']) if ro['o'] == 'const' else None
            if isinstance(rv, int):
                row_ok, rwhy = 0 <= rv < 3, 'constant row %d' % rv
            else:
                row_ok, rwhy = _row_from_guarded_enumerate(b, cfg, tr, ro, bi)
            ok = col_ok and row_ok
            why = 'col=%s; row: %s' % (cv, rwhy)
        rep.check(ok, 'R2', 'index-in-bounds:col%s' % (const_value(idx['rv']['ops'][1]) if idx['o'] == 'rvalue' and len(idx['rv'].get('ops', [])) == 2 else '?'),
                  where(b, bi), why, 'a matrix write in the parser can be out of bounds (%s): e.g. "x,y,x,y" would index row 3' % why)
        rep.sample('%s: transform[(row, %s)] — %s' % (where(b, bi), const_value(idx['rv']['ops'][1]) if idx['o'] == 'rvalue' else '?', why))
    # errors are propagated: every Result produced in from_operations flows into `?`/return
    tr = Tracer(fo)
    n_res = 0
    for bi, t in fo.calls():
        if t['dest']['ty'].startswith('std::result::Result<') and not call_matches(t, 'Try>::branch', 'FromResidual'):
            n_res += 1
            from ..mirutil import uses_of_local
            uses = [u for u in uses_of_local(fo, t['dest']['l'])]
            okp = t['dest']['l'] == 0 or any(u[2] == 'callarg' and call_matches(fo.blocks[u[0]]['term'], 'Try>::branch', 'Try::branch')
                                            for u in uses)
            rep.check(okp, 'R1', 'error-propagated:%s' % (callee_name(t) or '').rsplit('::', 1)[-1], where(fo, bi),
                      'Result goes through `?`', 'a Result in the parser is unwrapped or dropped')
    transition_lemmas(ctx, fo)
    rep.note('the denotation of every grammar string (sign/term/constant orders) is not decided statically; a cross-reference: '
             'the \'/\' and \'*\' operator arms have identical effects (harmless: the grammar has no \'*\')')


def _row_from_guarded_enumerate(b, cfg, tr, ro, use_bb):
    """row = .0 of the item yielded by Enumerate::next over vec.iter() where len(vec) was narrowed by dominating guards."""
    fp = field_path(ro.get('p', []))
    if not (ro['o'] == 'call' and call_matches(ro['term'], 'Enumerate<I> as std::iter::Iterator>::next', 'Enumerate<I>>::next')
            and fp[-1:] == ['0']):
        return False, 'row index is not the counter of an enumerate()'
    next_bb = ro['bb']
    src, chain = adaptor_chain(tr, ro['term']['args'][0])
    # cut the chain at the slice iterator: what it iterates is the container
    names = []
    vec_l = None
    from ..anchors import container_root
    for nm, tt, cbb in chain:
        names.append(nm)
        if nm == 'iter':
            vec_l = container_root(b, tr, tt['args'][0])
            break
    if any(x not in ('enumerate', 'iter', 'into_iter', 'deref') for x in names) or 'enumerate' not in names:
        return False, 'the enumerated iterator passes through %s' % names
    if vec_l is None:
        return False, 'enumerated collection not a local'
    # len() calls on the same vec
    xs = []
    for bi, t in b.calls():
        if call_matches(t, 'Vec::<T, A>::len', '<impl [T]>::len'):
            o, _ = through(tr, t['args'][0])
            if o.get('l') == vec_l:
                xs.append(t['dest']['l'])
    if not xs:
        return False, 'no length guard on the enumerated Vec'
    # copies of the length
    d = Defs(b)
    closure = set(xs)
    for l in range(len(b.locals)):
        ch = [c for c, _ in tr.chain({'k': 'copy', 'l': l, 'p': []})]
        if set(ch) & set(xs):
            closure.add(l)
    lo, hi, used = guard_interval(b, cfg, tr, closure, next_bb)
    # the Vec must not be resized
    for bi, t in b.calls():
        if call_matches(t, 'Vec::<T, A>::push', 'Vec::<T, A>::pop', 'Vec::<T, A>::clear', 'Vec::<T, A>::truncate',
                        'Vec::<T, A>::remove', 'Vec::<T, A>::append', 'Vec::<T, A>::insert', 'Vec::<T, A>::retain',
                        'Vec::<T, A>::drain', 'Vec::<T, A>::extend'):
            o, _ = through(tr, t['args'][0])
            if o.get('l') == vec_l:
                return False, 'the enumerated Vec is resized'
    if hi is None:
        return False, 'the length of the enumerated Vec is not bounded above by a dominating guard (guards used: %s)' % used
    ok = hi - 1 < 3
    return ok, 'enumerate counter < len(_%d) in [%d,%d] (guards %s) => row <= %d' % (vec_l, lo, hi, [(u[1], u[2], u[3]) for u in used], hi - 1)


# ---------------------------------------------------------------------------------------------------------------
# R3 — per-character transition lemmas (necessary conditions of "parses to the affine map the expression denotes").
# The inner character loop's body is loop-free: it is executed symbolically once, from the block that receives the
# character, with a fully symbolic parser state (pending sign, constant, pending operator, matrix), and stops at the loop
# head.  The lemmas below follow from the notation itself (not from this implementation): blanks are insignificant, '-'
# makes the pending sign negative, a variable stores the pending sign in its column and consumes it, '/' then a digit
# divides, the row's constant ends up in column 2.  They say nothing about strings outside the grammar.

def transition_lemmas(ctx, fo):
    from ..sym import NUM, SYM, STRUCT, SymEx, sfield
    from ..terms import Norm, NotNumeric
    from ..loops import for_loops
    rep, f = ctx.rep, ctx.facts
    cfg = CFG(fo)
    tr = Tracer(fo)
    loops = for_loops(fo, cfg, tr)
    inner = [d for d in loops if 'Chars' in (d['next_term']['args'][0].get('ty', '') + d['next_term']['func'].get('fn', '') +
                                                 str(d['next_term']['func'].get('self_ty', '')))]
    if not rep.check(len(inner) == 1, 'R3', 'anchor:character-loop', where(fo), 'one loop over chars()',
                     'expected exactly one loop over the characters of a component, found %d' % len(inner), 'undecidable-shape'):
        return
    d = inner[0]
    hdr = d['header']
    item = d['item_local']
    # Some-edge of the switch after next()
    nb = d['next_term']['target']
    sw = fo.blocks[nb]['term']
    some_t = None
    if sw['t'] == 'switch':
        for v, tgt in sw['arms']:
            if v == '1':
                some_t = tgt
        if some_t is None:
            some_t = sw['otherwise']
    if not rep.check(some_t is not None, 'R3', 'character-loop-shape', where(fo, nb), 'switch on next()', 'loop shape not recognised',
                     'undecidable-shape'):
        return
    # roles of the state locals
    mat_l = None
    writes = {}   # col -> value local
    for bi, t in fo.calls():
        n = callee_name(t) or ''
        if '(usize, usize)' in n and n.endswith('index_mut'):
            from ..anchors import container_root
            mat_l = container_root(fo, tr, t['args'][0])
            idx = tr.origin(t['args'][1])
            col = const_value(idx['rv']['ops'][1]) if idx['o'] == 'rvalue' else None
            # the statement storing through the returned reference
            rl = t['dest']['l']
            for (wbi, wsi, pl, rv) in tr.defs.dwrites.get(rl, []):
                if rv.get('r') == 'use' and rv['a'].get('l') is not None:
                    writes[col] = (tr.chain(rv['a'])[-1][0], bi in d['loop']['body'])
    sign_l = writes.get(0, (None,))[0]
    const_l = writes.get(2, (None,))[0]
    op_l = None
    for i, l in enumerate(fo.locals):
        if l['ty'] == 'std::option::Option<char>' and l.get('name') and any(x[0] in d['loop']['body'] for x in tr.defs.of(i)):
            op_l = i
    if not rep.check(None not in (mat_l, sign_l, const_l, op_l) and writes.get(1, (None,))[0] == sign_l, 'R3', 'parser-state-roles', where(fo),
                     'matrix _%s, pending sign _%s, constant _%s, pending operator _%s' % (mat_l, sign_l, const_l, op_l),
                     'cannot identify the parser state (matrix / pending sign / constant / pending operator) by role: %s'
                     % (dict(mat=mat_l, sign=sign_l, const=const_l, op=op_l),), 'undecidable-shape'):
        return
    rep.check(writes.get(2, (None, True))[1] is False, 'R3', 'constant-stored-after-the-characters', where(fo),
              'transform[(row, 2)] := constant after the character loop', 'the constant is stored inside the character loop')
    # the outer enumerate index local
    outer = [x for x in loops if x is not d and d['header'] in x['loop']['body']]
    n = Norm()
    results = {}
    for row in (0, 1):
        sx = SymEx(f)
        M = SymEx.m3([[SYM('m%d%d' % (i, j)) for j in range(3)] for i in range(3)])
        frame = {mat_l: M, sign_l: SYM('sign'), const_l: SYM('constant'), op_l: SYM('operator'),
                 item: STRUCT('std::option::Option', ('Some', 1), [('0', SYM('c'))])}
        # the row index: every local holding the enumerate counter
        if outer:
            oi = outer[0]['item_local']
            frame[oi] = STRUCT('std::option::Option', ('Some', 1), [('0', STRUCT('(tuple)', None, [('0', NUM(row)), ('1', SYM('op'))]))])
            # locals copied from the outer item before the inner loop
            for i2 in range(len(fo.locals)):
                if i2 in frame:
                    continue
                ds = tr.defs.single(i2)
                if ds and ds[2] == 'assign' and ds[3]['r'] == 'use' and ds[0] in outer[0]['loop']['body'] and ds[0] not in d['loop']['body']:
                    a = ds[3]['a']
                    if a.get('l') == oi:
                        fp = field_path(a['p'])
                        if fp[-1:] == ['0'] and len(fp) >= 2:
                            frame[i2] = NUM(row)
        outs = sx.run_region(fo, some_t, frame, {hdr})
        results[row] = (sx, outs)
    ok_all = True

    def state_of(sx, o):
        fr = o.st.frames[sx.region_fid]
        g = lambda l: sx.deep(o.st, fr.get(l))
        return {'sign': g(sign_l), 'constant': g(const_l), 'operator': g(op_l), 'matrix': g(mat_l)}

    def char_class(o):
        """set of character codes this path is taken for (from switch facts on c), or ('digit',) / ('other',)."""
        codes = None
        conds = []
        for c in o.pc:
            if c[0] == 'switch' and c[1] == SYM('c'):
                codes = c[2]
            elif c[0] == 'cond':
                conds.append(c)
        return codes, conds

    sx0, outs0 = results[0]
    if not rep.check(bool(outs0) and not sx0.aborted, 'R3', 'character-step-loop-free', where(fo, some_t), '%d paths per character step' % len(outs0),
                     'one step of the character loop is not loop-free', 'undecidable-shape'):
        return
    rep.floor('R3', 'paths through one character step', len(outs0), 8, where(fo, some_t))

    def same(a, b):
        try:
            return n.rf(a).equals(n.rf(b))
        except (NotNumeric, TypeError):
            return a == b

    def mat_changes(row, st):
        ch = {}
        for i in range(3):
            for j in range(3):
                v = sfield(st['matrix'], '%d%d' % (i, j))
                if v != SYM('m%d%d' % (i, j)):
                    ch[(i, j)] = v
        return ch
    lemmas = {32: 'blank', 43: 'plus', 45: 'minus', 120: 'x', 121: 'y', 47: 'slash'}
    seen = set()
    for row in (0, 1):
        sx, outs = results[row]
        for o in outs:
            codes, conds = char_class(o)
            if codes is None or o.ret[0] != 'stopped' if isinstance(o.ret, tuple) else True:
                continue
            nm = lemmas.get(codes)
            if nm is None:
                continue
            st = state_of(sx, o)
            ch = mat_changes(row, st)
            sign_same, const_same, op_same = st['sign'] == SYM('sign'), st['constant'] == SYM('constant'), st['operator'] == SYM('operator')
            if nm == 'blank':
                ok = sign_same and const_same and op_same and not ch
                why = 'a blank changes the parser state (sign %s, constant %s, operator %s, matrix %s): "x - 1/2" and "x -1/2" parse ' \
                      'differently although spaces are optional' % (sign_same, const_same, op_same, not ch)
            elif nm == 'plus':
                ok = (sign_same or same(st['sign'], NUM(1))) and const_same and op_same and not ch
                why = '\'+\' changes more than the pending sign'
            elif nm == 'minus':
                ok = same(st['sign'], NUM(-1)) and const_same and op_same and not ch
                why = '\'-\' does not simply make the pending sign negative (sign -> %r)' % (st['sign'],)
            elif nm in ('x', 'y'):
                col = 0 if nm == 'x' else 1
                ok = set(ch) == {(row, col)} and ch[(row, col)] == SYM('sign') and same(st['sign'], NUM(1)) and const_same and op_same
                why = '\'%s\' does not store the pending sign in entry (%d,%d) and consume it: matrix changes %s, sign -> %r' % (nm, row, col, ch, st['sign'])
            else:   # slash
                ok = sign_same and const_same and not ch and st['operator'][0] == 'struct' and st['operator'][2] and st['operator'][2][0] == 'Some'
                why = '\'/\' does not simply record a pending division'
            seen.add(nm)
            rep.check(ok, 'R3', 'char-step:%s:row%d' % (nm, row), where(fo, some_t), 'lemma for \'%s\' holds' % nm, why)
            ok_all &= ok
    for nm in lemmas.values():
        rep.check(nm in seen, 'R3', 'char-step-present:%s' % nm, where(fo, some_t), 'handled', 'no path handles the character class %s' % nm,
                  'undecidable-shape')
    # digits: with no pending operator constant := sign*V ; with a pending '/' constant := [sign*]constant/V ; sign consumed
    sx, outs = results[0]
    dig = [o for o in outs if isinstance(o.ret, tuple) and o.ret[0] == 'stopped' and char_class(o)[0] is None and
           any('as:f64' in repr(state_of(sx, o)['constant']) or 'parse' in repr(state_of(sx, o)['constant']) for _ in (0,))]
    n_d = 0
    for o in dig:
        st = state_of(sx, o)
        cv = st['constant']
        vs = [a for a in _apps(cv) if 'parse' in repr(a) or 'as:f64' in a[1]]
        if not vs:
            continue
        try:
            got = n.rf(cv)
        except (NotNumeric, TypeError):
            continue
        V = None
        for a in got.atoms():
            if 'parse' in a or 'Try' in a or 'branch' in a:
                V = n.atom(a)
        if V is None:
            continue
        n_d += 1
        s_, c_ = n.atom('sign'), n.atom('constant')
        forms_none = [s_ * V]
        forms_div = [s_ * c_ / V, c_ / V]
        opd = [c for c in o.pc if c[0] in ('switch', 'switch-not') and 'operator' in repr(c[1])]
        is_none = any(c[0] == 'switch' and c[2] == 0 for c in opd)
        if is_none:
            ok = any(got.equals(x) for x in forms_none) and same(st['sign'], NUM(1))
            rep.check(ok, 'R3', 'digit-step:first-digit', where(fo, some_t), 'constant := sign * digit; sign consumed',
                      'a digit with no pending operator does not set constant := sign*digit (got %s)' % got.canon()[:120])
        else:
            slash = any(c[0] == 'cond' and c[2] and '47' in repr(c[1]) for c in o.pc)
            if slash:
                ok = any(got.equals(x) for x in forms_div)
                rep.check(ok, 'R3', 'digit-step:after-slash', where(fo, some_t), 'constant := constant / digit',
                          'a digit after \'/\' does not divide the constant by the digit (got %s)' % got.canon()[:120])
    rep.floor('R3', 'digit transitions checked', n_d, 2, where(fo, some_t))
    rep.sample('character step: blank=identity, \'-\': sign:=-1, x/y: m[row,col]:=sign & sign:=1, \'/\': pending division, digit: sign*d or constant/d')


def _apps(v):
    out = []
    if isinstance(v, tuple):
        if v and v[0] == 'app':
            out.append(v)
        for x in v:
            if isinstance(x, tuple):
                out.extend(_apps(x))
    return out
