"""Rules shared by several properties (defined once in DESIGN §4): WRITERS."""
from ..harness import where
from ..mirutil import call_matches


def places_in_body(body):
    """Yield (bb, si|'term', place, is_write) for every place mentioned in a body."""
    for bi, bb in enumerate(body.blocks):
        for si, s in enumerate(bb['stmts']):
            if s['s'] == 'assign':
                yield bi, si, s['place'], True
                rv = s['rv']
                for k in ('a', 'b'):
                    if k in rv and isinstance(rv[k], dict) and 'l' in rv[k]:
                        yield bi, si, rv[k], False
                if 'place' in rv:
                    yield bi, si, rv['place'], False
                for o in rv.get('ops', []):
                    if isinstance(o, dict) and 'l' in o:
                        yield bi, si, o, False
            elif s['s'] == 'setdiscr':
                yield bi, si, s['place'], True
        t = bb['term']
        if t['t'] == 'call':
            yield bi, 'term', t['dest'], True
            for a in t['args']:
                if isinstance(a, dict) and 'l' in a:
                    yield bi, 'term', a, False
        elif t['t'] == 'drop':
            yield bi, 'term', t['place'], False


def field_accesses(facts, adt_suffix, field):
    """[(body, bb, si, is_write_through_field)] for every place that projects `field` of an ADT
    whose type string starts with adt_suffix."""
    out = []
    for b in facts.bodies.values():
        for bi, si, pl, w in places_in_body(b):
            for pi, e in enumerate(pl['p']):
                if isinstance(e, dict) and e.get('n') == field and e.get('of', '').replace('packing::', '').startswith(adt_suffix):
                    # is it a write *to/through* this field?  (the field is the last named projection or a prefix)
                    out.append((b, bi, si, w))
                    break
    return out


def fresh_receiver(body, term):
    """Is the cell written by this SharedValue::set_value call part of a value CREATED in this function (a fresh local
    built by a call/aggregate), i.e. not reachable from a parameter?  Writing one's own fresh object is construction."""
    from ..mirutil import Tracer
    t = Tracer(body)
    o = t.origin(term['args'][0])
    if o['o'] in ('call', 'rvalue') and o.get('l') is not None:
        # value produced in this function; make sure it is not a reference handed out by a call on a parameter
        if o['o'] == 'call':
            rty = o['term']['dest'].get('ty', '')
            if rty.startswith('&') or rty.startswith('*'):
                return False
        return True
    return False


def nonfresh_writer_sites(ctx):
    """[(body, bb)] call sites of SharedValue::set_value whose receiver is not a fresh local of the caller."""
    f, cg = ctx.facts, ctx.cg
    out = []
    for k, s in cg.callers_of(lambda n: n == 'basis::SharedValue::set_value'):
        b = f.bodies[k]
        t = b.blocks[s['bb']]['term']
        if not fresh_receiver(b, t):
            out.append((b, s['bb']))
    return out


def rule_writers(ctx, rule='WRITERS'):
    """Who may write a parameter cell (DESIGN §4 WRITERS)."""
    rep, f, cg = ctx.rep, ctx.facts, ctx.cg
    sv_set = f.one(self_adt='basis::SharedValue', name='set_value')
    sv_get = f.one(self_adt='basis::SharedValue', name='get_value')
    if not rep.check(sv_set is not None and sv_get is not None, rule, 'anchor:SharedValue::{get_value,set_value}',
                     'basis::SharedValue', 'found', 'SharedValue::set_value / get_value not found', 'anchor-lost'):
        return False
    rep.saw(sv_set)
    rep.saw(sv_get)
    good = True
    # 1. callers of SharedValue::set_value (non-test code: the dev config has no test bodies)
    callers = cg.callers_of(lambda n: n == 'basis::SharedValue::set_value')
    allowed = {('basis::StandardBasis', 'set_value'), ('basis::StandardBasis', 'reset_value')}
    seen = set()
    for k, s in callers:
        b = f.bodies[k]
        if fresh_receiver(b, b.blocks[s['bb']]['term']):
            rep.ok(rule, 'fresh-cell-write:%s' % b.path, where(b, s['bb']), 'writes a cell of a value created in this function (construction)')
            continue
        ident = (f.norm(b.impl_self_adt or ''), b.fn_name)
        okc = ident in allowed and b.impl_trait and f.norm(b.impl_trait).endswith('Basis') and not b.is_closure
        seen.add(ident)
        good &= rep.check(okc, rule, 'caller-of-cell-write:%s' % b.path, where(b, s['bb']),
                          'allowed writer', 'a function other than StandardBasis::{set_value,reset_value} writes a '
                          'parameter cell through SharedValue::set_value')
    good &= rep.floor(rule, 'callers of SharedValue::set_value', len(callers), 2, where(sv_set))
    # 2. the cell itself (field SharedValue.value) is touched only inside SharedValue's own methods
    acc = field_accesses(f, 'basis::SharedValue', 'value')
    ok_bodies = {'new', 'get_value', 'set_value'}
    n_acc = 0
    for b, bi, si, w in acc:
        n_acc += 1
        own = f.norm(b.impl_self_adt or '') == 'basis::SharedValue' and (
            (b.impl_trait is None and b.fn_name in ok_bodies) or (b.derived and b.fn_name in ('fmt',)))
        good &= rep.check(own, rule, 'cell-field-access:%s' % b.path, where(b, bi),
                          'inside SharedValue', 'SharedValue.value (the UnsafeCell) is accessed outside '
                          'SharedValue::{new,get_value,set_value}: another route to the raw cell exists')
    good &= rep.floor(rule, 'accesses to SharedValue.value', n_acc, 3, where(sv_set))
    # 3. UnsafeCell accessor calls confined to SharedValue
    uc = cg.callers_of(lambda n: 'UnsafeCell::<T>::' in n and not n.endswith('::new'))
    for k, s in uc:
        b = f.bodies[k]
        own = f.norm(b.impl_self_adt or '') == 'basis::SharedValue' and b.fn_name in ('get_value', 'set_value')
        good &= rep.check(own, rule, 'unsafecell-accessor:%s' % b.path, where(b, s['bb']),
                          'confined', 'UnsafeCell accessor used outside SharedValue::{get_value,set_value}')
    # 4. callers of Basis::set_value / set_sampled / reset_value
    def callers_of_basis(method):
        return [(k, s) for k, s in cg.callers_of(lambda n: n.endswith('Basis>::' + method) or n == 'traits::Basis::' + method)]
    for k, s in callers_of_basis('set_value'):
        b = f.bodies[k]
        okc = f.norm(b.impl_self_adt or '') == 'basis::StandardBasis' and b.fn_name == 'set_sampled'
        # ... or the trait's own provided set_sampled (the body every implementor without an override gets)
        okc = okc or (b.fn_name == 'set_sampled' and not b.impl_self_adt and f.norm(b.path) == 'traits::Basis::set_sampled')
        good &= rep.check(okc, rule, 'caller-of-Basis::set_value:%s' % b.path, where(b, s['bb']),
                          'set_sampled only', 'Basis::set_value is called from somewhere other than set_sampled')
    from ..anchors import OptimiserAnchors, AnchorLost
    try:
        oa = OptimiserAnchors(f)
        step = oa.body.path
    except AnchorLost as e:
        rep.fail(rule, 'anchor:stepping-function', '', str(e), 'anchor-lost')
        return False
    spliced = set(getattr(oa.body, 'inlined', []))
    for m in ('set_sampled', 'reset_value'):
        cs = callers_of_basis(m)
        for k, s in cs:
            b = f.bodies[k]
            # a closure (or helper) whose blocks were spliced into the stepping function is part of it
            good &= rep.check(b.path == step or b.path in spliced, rule, 'caller-of-Basis::%s:%s' % (m, b.path), where(b, s['bb']),
                              'the stepping function', 'Basis::%s is called outside the optimiser\'s stepping function' % m)
        good &= rep.floor(rule, 'callers of Basis::' + m, len(cs), 1)
    rep.sample('WRITERS: SharedValue::set_value called from %s; cell field touched in %d places, all inside SharedValue'
               % (sorted(x[1] for x in seen), n_acc))
    return good


def writes_cell_reachable(ctx, roots):
    """Call path from roots to a function that writes a parameter cell it did not create itself, or None."""
    writers = {b.key_in_facts for b, _ in nonfresh_writer_sites(ctx)}
    return ctx.cg.path_to(roots, lambda k: k in writers)


def import_obligations(ctx, src_prop, rule_as, only_rules=None, prefix=None, floor=1, only_instances=None):
    """Run another property's rule module on the same facts and record (a subset of) its obligations under `rule_as` of the
    current report (cross-import: the other property's clause is a necessary condition of this one)."""
    import importlib
    from ..harness import Report
    rep = ctx.rep
    mod = importlib.import_module('pk.rules.' + src_prop)
    sub = type('Ctx', (), {})()
    sub.__dict__.update(ctx.__dict__)
    sub.rep = Report(src_prop, ctx.tier)
    mod.run(sub)
    n = 0
    pre = prefix or (src_prop + ':')
    for o in sub.rep.obligations:
        if only_rules is not None and o['rule'] not in only_rules:
            continue
        if only_instances is not None and not only_instances(o['instance']):
            continue
        n += 1
        if o['ok']:
            rep.ok(rule_as, pre + o['rule'] + '/' + o['instance'], o['construct'], o['why'])
        else:
            rep.fail(rule_as, pre + o['rule'] + '/' + o['instance'], o['construct'], o['why'], o['reason'])
    rep.floor(rule_as, 'obligations imported from %s%s' % (src_prop, (' ' + '/'.join(sorted(only_rules))) if only_rules else ''), n, floor)
    rep.analysed |= sub.rep.analysed
    return n
