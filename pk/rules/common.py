"""Rules shared by several properties (defined once in DESIGN §4): WRITERS."""
from ..harness import where
from ..mirutil import call_matches
from ..anchors import is_trait_call


def places_in_body(body):
    """Yield (bb, si|'term', place, is_write) for every place mentioned in a body."""
    for bi, bb in enumerate(body.blocks):
        for si, s in enumerate(bb['stmts']):
            if s['s'] == 'assign':
                yield bi, si, s['place'], True
                rv = s['rv']
                for k in ('a', 'b'):
                    if k in rv and isinstance(rv[k], dict) and 'l' in rv[k]:
                        yield bi, si, rv[k], False
                if 'place' in rv:
                    yield bi, si, rv['place'], False
                for o in rv.get('ops', []):
                    if isinstance(o, dict) and 'l' in o:
                        yield bi, si, o, False
            elif s['s'] == 'setdiscr':
                yield bi, si, s['place'], True
        t = bb['term']
        if t['t'] == 'call':
            yield bi, 'term', t['dest'], True
            for a in t['args']:
                if isinstance(a, dict) and 'l' in a:
                    yield bi, 'term', a, False
        elif t['t'] == 'drop':
            yield bi, 'term', t['place'], False


def field_accesses(facts, adt_suffix, field):
    """[(body, bb, si, is_write_through_field)] for every place that projects `field` of an ADT
    whose type string starts with adt_suffix."""
    out = []
    for b in facts.bodies.values():
        for bi, si, pl, w in places_in_body(b):
            for pi, e in enumerate(pl['p']):
                if isinstance(e, dict) and e.get('n') == field and e.get('of', '').replace('packing::', '').startswith(adt_suffix):
                    # is it a write *to/through* this field?  (the field is the last named projection or a prefix)
                    out.append((b, bi, si, w))
                    break
    return out


def fresh_receiver(body, term):
    """Is the cell written by this SharedValue::set_value call part of a value CREATED in this function (a fresh local
    built by a call/aggregate), i.e. not reachable from a parameter?  Writing one's own fresh object is construction."""
    from ..mirutil import Tracer
    t = Tracer(body)
    o = t.origin(term['args'][0])
    if o['o'] in ('call', 'rvalue') and o.get('l') is not None:
        # value produced in this function; make sure it is not a reference handed out by a call on a parameter
        if o['o'] == 'call':
            rty = o['term']['dest'].get('ty', '')
            if rty.startswith('&') or rty.startswith('*'):
                return False
        return True
    return False


def nonfresh_writer_sites(ctx):
    """[(body, bb)] call sites of SharedValue::set_value whose receiver is not a fresh local of the caller."""
    f, cg = ctx.facts, ctx.cg
    out = []
    for k, s in cg.callers_of(lambda n: n == 'basis::SharedValue::set_value'):
        b = f.bodies.get(k)
        if b is None:
            continue
        t = b.blocks[s['bb']]['term']
        if not fresh_receiver(b, t):
            out.append((b, s['bb']))
    return out


def rule_writers(ctx, rule='WRITERS'):
    """Who may write a parameter cell (DESIGN §4 WRITERS)."""
    rep, f, cg = ctx.rep, ctx.facts, ctx.cg
    sv_set = f.one(self_adt='basis::SharedValue', name='set_value')
    sv_get = f.one(self_adt='basis::SharedValue', name='get_value')
    if not rep.check(sv_set is not None and sv_get is not None, rule, 'anchor:SharedValue::{get_value,set_value}',
                     'basis::SharedValue', 'found', 'SharedValue::set_value / get_value not found', 'anchor-lost'):
        return False
    rep.saw(sv_set)
    rep.saw(sv_get)
    good = True
    # 1. callers of SharedValue::set_value (non-test code: the dev config has no test bodies)
    callers = cg.callers_of(lambda n: n == 'basis::SharedValue::set_value')
    allowed = {('basis::StandardBasis', 'set_value'), ('basis::StandardBasis', 'reset_value')}
    seen = set()
    for k, s in callers:
        b = f.bodies.get(k)
        if b is None:
            continue
        if fresh_receiver(b, b.blocks[s['bb']]['term']):
            rep.ok(rule, 'fresh-cell-write:%s' % b.path, where(b, s['bb']), 'writes a cell of a value created in this function (construction)')
            continue
        ident = (f.norm(b.impl_self_adt or ''), b.fn_name)
        okc = ident in allowed and b.impl_trait and f.norm(b.impl_trait).endswith('Basis') and not b.is_closure
        if not okc and ident == ('basis::StandardBasis', 'set_sampled') and b.impl_trait and not b.is_closure:
            ds = direct_sampler(ctx)        # set_sampled that captures, clamps and writes itself (decided by value)
            if ds is not None and ds['ok']:
                rep.ok(rule, 'caller-of-cell-write:%s' % b.path, where(b, s['bb']), ds['why'])
                seen.add(ident)
                continue
        seen.add(ident)
        good &= rep.check(okc, rule, 'caller-of-cell-write:%s' % b.path, where(b, s['bb']),
                          'allowed writer', 'a function other than StandardBasis::{set_value,reset_value} writes a '
                          'parameter cell through SharedValue::set_value')
    good &= rep.floor(rule, 'callers of SharedValue::set_value', len(callers), 2, where(sv_set))
    # 2. the cell itself (field SharedValue.value) is touched only inside SharedValue's own methods
    acc = field_accesses(f, 'basis::SharedValue', 'value')
    ok_bodies = {'new', 'get_value', 'set_value'}
    n_acc = 0
    for b, bi, si, w in acc:
        n_acc += 1
        own = f.norm(b.impl_self_adt or '') == 'basis::SharedValue' and (
            (b.impl_trait is None and b.fn_name in ok_bodies) or (b.derived and b.fn_name in ('fmt',)))
        good &= rep.check(own, rule, 'cell-field-access:%s' % b.path, where(b, bi),
                          'inside SharedValue', 'SharedValue.value (the UnsafeCell) is accessed outside '
                          'SharedValue::{new,get_value,set_value}: another route to the raw cell exists')
    good &= rep.floor(rule, 'accesses to SharedValue.value', n_acc, 3, where(sv_set))
    # 3. UnsafeCell accessor calls confined to SharedValue
    uc = cg.callers_of(lambda n: 'UnsafeCell::<T>::' in n and not n.endswith('::new'))
    for k, s in uc:
        b = f.bodies.get(k)
        if b is None:
            continue
        own = f.norm(b.impl_self_adt or '') == 'basis::SharedValue' and b.fn_name in ('get_value', 'set_value')
        good &= rep.check(own, rule, 'unsafecell-accessor:%s' % b.path, where(b, s['bb']),
                          'confined', 'UnsafeCell accessor used outside SharedValue::{get_value,set_value}')
    # 4. callers of Basis::set_value / set_sampled / reset_value
    def callers_of_basis(method):
        # (keys of bodies analysed on demand — derived impls, cg.sites_for — are not call sites of the workspace's own functions)
        return [(k, s) for k, s in cg.callers_of(lambda n: n.endswith('Basis>::' + method) or n == 'traits::Basis::' + method)
                if k in f.bodies]
    for k, s in callers_of_basis('set_value'):
        b = f.bodies.get(k)
        if b is None:
            continue
        okc = f.norm(b.impl_self_adt or '') == 'basis::StandardBasis' and b.fn_name == 'set_sampled'
        # ... or the trait's own provided set_sampled (the body every implementor without an override gets)
        okc = okc or (b.fn_name == 'set_sampled' and not b.impl_self_adt and f.norm(b.path) == 'traits::Basis::set_sampled')
        good &= rep.check(okc, rule, 'caller-of-Basis::set_value:%s' % b.path, where(b, s['bb']),
                          'set_sampled only', 'Basis::set_value is called from somewhere other than set_sampled')
    from ..anchors import OptimiserAnchors, AnchorLost
    try:
        oa = OptimiserAnchors(f)
        step = oa.body.path
    except AnchorLost as e:
        rep.fail(rule, 'anchor:stepping-function', '', str(e), 'anchor-lost')
        return False
    spliced = set(getattr(oa.body, 'inlined', []))
    for m in ('set_sampled', 'reset_value'):
        cs = callers_of_basis(m)
        for k, s in cs:
            b = f.bodies.get(k)
            if b is None:
                continue
            # a closure (or helper) whose blocks were spliced into the stepping function is part of it
            good &= rep.check(b.path == step or b.path in spliced, rule, 'caller-of-Basis::%s:%s' % (m, b.path), where(b, s['bb']),
                              'the stepping function', 'Basis::%s is called outside the optimiser\'s stepping function' % m)
        good &= rep.floor(rule, 'callers of Basis::' + m, len(cs), 1)
    rep.sample('WRITERS: SharedValue::set_value called from %s; cell field touched in %d places, all inside SharedValue'
               % (sorted(x[1] for x in seen), n_acc))
    return good


def writes_cell_reachable(ctx, roots):
    """Call path from roots to a function that writes a parameter cell it did not create itself, or None."""
    writers = {b.key_in_facts for b, _ in nonfresh_writer_sites(ctx)}
    return ctx.cg.path_to(roots, lambda k: k in writers)


def import_obligations(ctx, src_prop, rule_as, only_rules=None, prefix=None, floor=1, only_instances=None):
    """Run another property's rule module on the same facts and record (a subset of) its obligations under `rule_as` of the
    current report (cross-import: the other property's clause is a necessary condition of this one)."""
    import importlib
    from ..harness import Report
    rep = ctx.rep
    if getattr(ctx, 'import_depth', 0) >= 1:
        return 0            # imports are not transitive (and two properties may import clauses of each other)
    mod = importlib.import_module('pk.rules.' + src_prop)
    sub = type('Ctx', (), {})()
    sub.__dict__.update(ctx.__dict__)
    sub.rep = Report(src_prop, ctx.tier)
    sub.import_depth = getattr(ctx, 'import_depth', 0) + 1
    cache = ctx.__dict__.setdefault('_import_cache', {})
    if src_prop in cache:
        sub.rep = cache[src_prop]
    else:
        mod.run(sub)
        cache[src_prop] = sub.rep
    n = 0
    pre = prefix or (src_prop + ':')
    for o in sub.rep.obligations:
        if only_rules is not None and o['rule'] not in only_rules:
            continue
        if only_instances is not None and not only_instances(o['instance']):
            continue
        n += 1
        if o['ok']:
            rep.ok(rule_as, pre + o['rule'] + '/' + o['instance'], o['construct'], o['why'])
        else:
            rep.fail(rule_as, pre + o['rule'] + '/' + o['instance'], o['construct'], o['why'], o['reason'])
    rep.floor(rule_as, 'obligations imported from %s%s' % (src_prop, (' ' + '/'.join(sorted(only_rules))) if only_rules else ''), n, floor)
    rep.analysed |= sub.rep.analysed
    return n


def builder_setters(ctx, rule, fields, floor=None):
    """Setter fidelity of the optimiser's builder: every inherent method of the builder type that is named after one of `fields`
    (optionally with a `with_` / `set_` prefix) and takes the value as its only argument writes exactly that field, with its
    argument (or `Some(argument)` for an optional field), and nothing else.  A request made through the builder API otherwise
    never reaches the optimiser (or reaches another setting)."""
    from ..optmodel import build_families
    from ..sym import SYM, SymEx, sfield
    rep, f = ctx.rep, ctx.facts
    fams, err, bb = build_families(f)
    if not rep.check(bb is not None, rule, 'anchor:builder', 'optimisation', 'found', 'the builder (single function returning the optimiser) '
                     'was not found: %s' % err, 'anchor-lost'):
        return
    adt = f.norm(bb.impl_self_adt or '')
    info = f.adts.get(adt) or {}
    fnames = [fl['name'] for fl in info.get('fields') or []]
    n = 0
    for b in f.bodies.values():
        if b.is_closure or b.derived or b.impl_trait or f.norm(b.impl_self_adt or '') != adt or b.crate_kind != 'lib':
            continue
        nm = b.fn_name or ''
        for pre in ('with_', 'set_'):
            if nm.startswith(pre) and nm[len(pre):] in fnames:
                nm = nm[len(pre):]
        if nm not in fields or nm not in fnames or len(b.args()) != 2:
            continue
        n += 1
        key = 'setter-writes-its-field:%s' % (b.fn_name,)
        sx = SymEx(f)
        try:
            outs = sx.run(b, [SYM('self'), SYM('v')])
        except Exception:      # noqa: BLE001
            outs = []
        if len(outs) != 1 or sx.aborted:
            rep.fail(rule, key, where(b), 'the setter is not a single loop-free path', 'undecidable-shape')
            continue
        o = outs[0]
        written = {}
        # (what the setter changes: the builder behind `&mut self`, or the builder it hands back by value)
        by_ref = not f.norm(b.local_ty(0) or '').lstrip().startswith(adt)
        if by_ref:
            for e in o.effects:
                tgt = e[0]
                if isinstance(tgt, tuple) and tgt[0] == 'sym' and tgt[1].startswith('self.'):
                    written[tgt[1][5:].split('.')[0].split('#')[0]] = sx.deep(o.st, e[1])
        else:
            r = sx.deep(o.st, o.ret)
            if isinstance(r, tuple) and r[0] == 'struct':
                for k, v in r[3]:
                    if v != SYM('self.' + k):
                        written[k] = v
                if r[1].startswith('?sym:self') and not written:
                    pass
            elif r != SYM('self'):
                rep.fail(rule, key, where(b), 'the by-value setter does not return the builder', 'undecidable-shape')
                continue

        def is_v(x):
            if x == SYM('v'):
                return True
            return isinstance(x, tuple) and x[0] == 'struct' and x[2] is not None and x[2][0] == 'Some' and sfield(x, '0') == SYM('v')
        ok = set(written) == {nm} and is_v(written[nm])
        rep.check(ok, rule, key, where(b), 'writes self.%s := its argument and nothing else' % nm,
                  'the setter `%s` writes %s: the value requested through the builder does not reach `%s`'
                  % (b.fn_name, {k: repr(v)[:60] for k, v in written.items()} or 'nothing', nm))
    rep.floor(rule, 'builder setters checked (%s)' % ', '.join(sorted(fields)), n, floor if floor is not None else len(fields))


def named_argument_wiring(ctx, rule, bodies, min_sites=0, what='the caller'):
    """Calls from `bodies` to workspace functions with two or more parameters of one type: an argument that is a plain named
    local whose NAME is the name of one of the callee's parameters must sit in that parameter's position
    (`from_trimer(radius, angle, distance)` for `fn from_trimer(radius, angle, distance)`).  A call where two such arguments sit
    in each other's place hands the callee the right values under the wrong names."""
    from ..mirutil import Tracer
    rep, f = ctx.rep, ctx.facts
    n = 0
    for b in bodies:
        tr = Tracer(b)
        for bi, t in b.calls():
            cb = f.body_of_fnconst(t['func']) if t['func'].get('k') == 'const' else None
            if cb is not None and cb.is_closure:
                continue
            if cb is None:
                # the coordinate constructors of nalgebra: (x, y)
                nm0 = (t['func'].get('fn') or '') if t['func'].get('k') == 'const' else ''
                if len(t['args']) == 2 and nm0.endswith('::new') and ('point_construction' in nm0 or 'translation_construction' in nm0 or
                                                                      ('base::construction' in nm0 and 'nalgebra::U2, nalgebra::U1' in nm0)):
                    params, ptys, cpath = ['x', 'y'], ['f64', 'f64'], 'nalgebra ' + nm0.split('<impl ')[-1][:40]
                else:
                    continue
            else:
                params = [cb.local_name(i) for i in cb.args()]
                ptys = [cb.local_ty(i) for i in cb.args()]
                cpath = cb.path
            if len(params) < 2 or len(params) != len(t['args']):
                continue
            named = []
            for ai, a in enumerate(t['args']):
                if 'l' not in a:
                    continue
                # the first named local on the chain of plain copies that feeds the argument (a binding of a pattern such as
                # `Shapes::Trimer { distance, angle, radius }` is a named local), else the field the value is read from
                nm, x = None, a['l'] if not a['p'] else None
                for _ in range(8):
                    if x is None:
                        break
                    if b.local_name(x):
                        nm = b.local_name(x)
                        break
                    ds = [d for d in tr.defs.of(x)]
                    if len(ds) != 1 or ds[0][2] != 'assign' or ds[0][3]['r'] != 'use' or 'l' not in ds[0][3]['a']:
                        break
                    src = ds[0][3]['a']
                    if src['p']:
                        fl = [e for e in src['p'] if isinstance(e, dict) and 'f' in e]
                        nm = fl[-1].get('n') if fl else None
                        break
                    x = src['l']
                if nm and nm in params and nm != 'self':
                    named.append((ai, nm))
            if len(named) < 2:
                continue
            n += 1
            wrong = [(ai, nm, params.index(nm)) for ai, nm in named if params.index(nm) != ai and ptys[params.index(nm)] == ptys[ai]]
            rep.check(not wrong, rule, 'arguments-in-parameter-order:%s@%s' % (f.norm(cpath).split('::')[-1].split(' ')[0], b.fn_name or b.path),
                      where(b, bi), '%s passes %s to %s by name and position' % (what, [x[1] for x in named], cpath),
                      'the call of %s passes `%s` in the position of parameter `%s`: the callee receives the requested values under '
                      'the wrong names' % (cpath, wrong[0][1] if wrong else '', params[wrong[0][0]] if wrong else ''))
    rep.floor(rule, 'calls whose arguments are named like the callee\'s parameters', n, min_sites)
    # struct literals: a field that is given a plain named local / parameter whose NAME is that of ANOTHER field of the same struct
    # (`MCOptimiser { max_step_size: kt_ratio, .. }`, `LJ2 { epsilon: sigma, .. }` in `fn new(x, y, sigma)`), while that other
    # field is not given it: the value sits under the wrong name
    for b in bodies:
        tr = Tracer(b)
        for bi, bb in enumerate(b.blocks):
            for si, st in enumerate(bb['stmts']):
                if st['s'] != 'assign' or st['rv']['r'] != 'aggr' or st['rv'].get('agg') != 'adt':
                    continue
                rv = st['rv']
                fields = list(rv.get('fields') or [])
                if len(fields) != len(rv['ops']):
                    continue
                adt = f.adts.get(f.norm(str(rv.get('adt') or '')).split('<')[0]) or {}
                allf = [fl['name'] for fl in adt.get('fields') or []] or fields
                src = {}
                for fname, op in zip(fields, rv['ops']):
                    nm, x = None, (op['l'] if 'l' in op and not op['p'] else None)
                    for _ in range(8):
                        if x is None:
                            break
                        if b.local_name(x):
                            nm = b.local_name(x)
                            break
                        ds = [d for d in tr.defs.of(x)]
                        if len(ds) != 1 or ds[0][2] != 'assign' or ds[0][3]['r'] != 'use' or 'l' not in ds[0][3]['a'] or ds[0][3]['a']['p']:
                            break
                        x = ds[0][3]['a']['l']
                    src[fname] = nm
                named = [(fn_, nm) for fn_, nm in src.items() if nm and nm in allf]
                if not named:
                    continue
                wrong = [(fn_, nm) for fn_, nm in named if nm != fn_]
                rep.check(not wrong, rule, 'fields-from-same-named-values:%s@%s' % (f.norm(str(rv.get('adt'))).split('::')[-1], b.fn_name or b.path),
                          where(b, bi, si), 'fields %s take the values of their own names' % [x[0] for x in named],
                          'the literal gives field `%s` the value named `%s`, the name of another field of the same struct: the value '
                          'sits under the wrong name' % (wrong[0][0] if wrong else '', wrong[0][1] if wrong else ''))
    return n


def direct_sampler(ctx):
    """`StandardBasis::set_sampled` that does not go through `Basis::set_value` but captures, clamps and writes itself (the
    shared value read once, used as the origin of the step and as the value to restore).  Decided by value, path by path:
    exactly one cell write, to the handle's own cell; the undo field (the field of the handle set_sampled assigns the cell's
    pre-write value to) is captured before the write and not touched after it; one draw gen_range(-1/2, 1/2) on the passed
    generator; and on witness points covering every ordering of the sample against the bounds the stored value is
    clamp(value + step*(max-min)*U, min, max).  Returns None if set_sampled delegates to set_value (the reference form), else
    {'ok': bool, 'why': str, 'body': body}."""
    if hasattr(ctx, '_direct_sampler'):
        return ctx._direct_sampler
    from fractions import Fraction
    from ..celltables import bound_places, eval_num, recorder
    from ..optmodel import _mentions_opaque
    from ..sym import SYM, SymEx
    f = ctx.facts
    res = None
    ssb = f.one(self_adt='basis::StandardBasis', trait='Basis', name='set_sampled')
    if ssb is not None and not any(is_trait_call(t, 'Basis', 'set_value') for _, t in ssb.calls()):
        res = {'ok': False, 'why': '', 'body': ssb}
        names = [ssb.local_name(i) or 'a%d' % i for i in ssb.args()]
        sx = SymEx(f, models=[recorder({'basis::SharedValue::set_value': 'cellwrite'})])
        try:
            outs = sx.run(ssb, [SYM('self')] + [SYM(nm) for nm in names[1:]])
        except Exception as ex:      # noqa: BLE001
            outs = []
            res['why'] = 'set_sampled could not be evaluated (%s)' % str(ex)[:80]
        if outs and not sx.aborted and len(names) == 3:
            why = []
            draws = {}

            def walk(v):
                if isinstance(v, tuple):
                    if v[0] == 'app' and isinstance(v[1], str) and 'gen_range' in v[1]:
                        draws[repr(v)] = v
                    for x in v[1:]:
                        if isinstance(x, (tuple, list)):
                            walk(tuple(x) if isinstance(x, list) else x)

            def repl(v, key):
                if not isinstance(v, tuple):
                    return v
                if repr(v) == key:
                    return SYM('U')
                return tuple(repl(x, key) if isinstance(x, tuple) else ([repl(y, key) for y in x] if isinstance(x, list) else x)
                             for x in v)
            recs = []
            for o in outs:
                seq = []
                for e in o.effects:
                    if e[0] == ('rec', 'cellwrite'):
                        seq.append(('w', e[1][0], e[1][1]))
                        walk(e[1][1])
                    elif isinstance(e[0], tuple) and e[0][0] == 'sym' and str(e[0][1]).startswith('self.') and e[0][1].count('.') == 1:
                        seq.append(('f', e[0][1], e[1]))
                for c in o.pc:
                    if c[0] == 'cond':
                        walk(c[1])
                ws = [i for i, x in enumerate(seq) if x[0] == 'w']
                if len(ws) != 1:
                    why.append('a path writes the cell %d times' % len(ws))
                    continue
                if seq[ws[0]][1] != SYM('self.value'):
                    why.append('a path writes another cell')
                caps = [x[1] for x in seq[:ws[0]] if x[0] == 'f' and x[2] == SYM('self.value.value')]
                late = [x[1] for x in seq[ws[0] + 1:] if x[0] == 'f']
                # (the last assignment of each captured field before the write must be the capture)
                lastv = {}
                for x in seq[:ws[0]]:
                    if x[0] == 'f':
                        lastv[x[1]] = x[2]
                caps = [c for c in caps if lastv.get(c) == SYM('self.value.value')]
                recs.append((o, seq[ws[0]][2], set(caps), late))
            undo = None
            for _o, _v, caps, _l in recs:
                undo = caps if undo is None else (undo & caps)
            if not undo:
                why.append('no field of the handle holds the cell\'s pre-write value on every path')
            elif any(set(l) & undo for _o, _v, _c, l in recs):
                why.append('the undo field is assigned again after the cell write')
            if len(draws) != 1:
                why.append('set_sampled draws %d random numbers' % len(draws))
            else:
                key, d = list(draws.items())[0]
                nums = sorted(a[1] for a in d[2] if isinstance(a, tuple) and a[0] == 'num')
                if nums != [Fraction(-1, 2), Fraction(1, 2)] or not any(a == SYM(names[1]) for a in d[2]):
                    why.append('the draw is not gen_range(-0.5, 0.5) on the passed generator')
                bp = bound_places(f) or ('self.min', 'self.max')
                pts = [(5, 1, 0, 10, Fraction(-3, 5)), (5, 1, 0, 10, Fraction(-1, 2)), (5, 1, 0, 10, Fraction(0)),
                       (5, 1, 0, 10, Fraction(1, 2)), (5, 1, 0, 10, Fraction(3, 5)), (5, 2, 0, 10, Fraction(-1, 2)),
                       (3, 1, 3, 3, Fraction(1, 4)), (9, Fraction(1, 2), 0, 10, Fraction(1, 2))]
                for cell, step, lo, hi, u in pts:
                    env = {'self.value.value': Fraction(cell), names[2]: Fraction(step), bp[0]: Fraction(lo), bp[1]: Fraction(hi),
                           'U': u}
                    for fld in (undo or ()):
                        env[fld] = Fraction(cell)
                    x = Fraction(cell) + Fraction(step) * (Fraction(hi) - Fraction(lo)) * u
                    want = min(max(x, Fraction(lo)), Fraction(hi))
                    got, bad = set(), False
                    for o, val, _c, _l in recs:
                        feas = True
                        for c in o.pc:
                            if c[0] != 'cond':
                                continue
                            try:
                                if bool(eval_num(repl(c[1], key), env)) != c[2]:
                                    feas = False
                                    break
                            except (KeyError, ValueError, ZeroDivisionError):
                                if _mentions_opaque(c[1]) and 'self.' not in repr(c[1]):
                                    continue
                                bad = True
                        if feas:
                            try:
                                got.add(eval_num(repl(val, key), env))
                            except (KeyError, ValueError, ZeroDivisionError):
                                bad = True
                    if bad or got != {want}:
                        why.append('for value=%s step=%s bounds=[%s,%s] U=%s set_sampled stores %s, expected clamp(value + '
                                   'step*(max-min)*U) = %s' % (cell, step, lo, hi, u, 'something undecided' if bad else sorted(got), want))
                        break
            res['ok'] = not why
            res['why'] = '; '.join(why) if why else ('set_sampled captures the pre-write value in %s, draws once and stores '
                                                     'clamp(value + step*(max-min)*U) in its own cell on every path (%d paths, 8 '
                                                     'witness points)' % (sorted(undo), len(outs)))
            res['undo'] = sorted(undo) if undo else []
        elif not res['why']:
            res['why'] = 'set_sampled is not loop-free'
    ctx._direct_sampler = res
    return res
