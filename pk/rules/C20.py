"""C20 — the optimiser terminates normally and does the amount of work requested."""
import re

from ..absval import AbsEval, F, IVL, i_contains, show
from ..anchors import AnchorLost, OptimiserAnchors, container_root, is_trait_call
from ..cfg import CFG, term_succs
from ..harness import where
from ..lineage import through
from ..mirutil import Defs, Tracer, call_matches, callee_name, const_value, field_path, uses_of_local
from ..optmodel import U64, build_families, field_values, loop_range, mir_expr, subst_syms
from ..sym import NUM, SYM
from ..terms import Norm, NotNumeric

LEVEL = 'other'
EXPLANATION = ('(R1) every panic-capable construct reachable in workspace code from the stepping function, the state '
               'orderings and the binary (MIR Assert terminators, panic!/assert!/unwrap/expect, indexing, '
               'Uniform::new/gen_range, env_logger init) is enumerated and must be discharged by an analysis '
               '(divisor interval excludes 0 for every builder family, constant index < constant length, index drawn '
               'from Uniform(0,len) of the same unmodified container, bounded counter, constant arguments, pointer '
               'from UnsafeCell/Box) or be listed in the committed precondition table; (R2) proposals = '
               'floor(steps/I)*I with one score evaluation per inner iteration; (R3) the convergence block writes '
               'only its counter and returns the state; (R4) the binary propagates every error.')

PANIC_CALLS = ('std::rt::begin_panic', 'core::panicking::', 'std::rt::panic_fmt', 'Option::<T>::unwrap', 'Option::<T>::expect',
               'Result::<T, E>::unwrap', 'Result::<T, E>::expect', 'Result::<T, E>::unwrap_err', 'Result::<T, E>::expect_err',
               'assert_failed', 'Uniform::<X>::new', 'Uniform::<X>::new_inclusive', 'Rng::gen_range',
               'Index<I>>::index', 'IndexMut<I>>::index_mut', 'Index<(usize, usize)>', 'IndexMut<(usize, usize)>',
               'Builder::init', 'logger::init', 'RefCell', 'Vec::<T, A>::remove', 'Vec::<T, A>::swap_remove',
               'Vec::<T, A>::insert', 'Vec::<T, A>::drain', 'Vec::<T, A>::split_off', '::split_at', 'copy_from_slice',
               '::step_by', '::chunks', '::windows', 'String::remove', '::rem_euclid', '::div_euclid',
               'core::unreachable', 'unreachable_display', 'slice_index', 'Index<std::ops::Range')



def is_panic_call(n):
    """A callee that can panic: one of PANIC_CALLS, an integer power (`i64::pow` panics on overflow in debug builds), or
    `clamp` (`Ord::clamp` / `f64::clamp` assert min <= max)."""
    return any(p in n for p in PANIC_CALLS) or (n.endswith('>::pow') and 'core::num::' in n) or n.endswith('::clamp')


NON_PANICKING = ('::unwrap_or', '::unwrap_or_else', '::unwrap_or_default', '::expect_none_never')

# Committed precondition / justification table: signature -> (max count, reason).  A site that is neither discharged
# by analysis nor matches an entry (within its count) is a violation.
PRECONDITIONS = {
    ('stepping', 'begin_panic', 'guard:initial-score-none'):
        (1, 'precondition: the state handed to the optimiser is valid (has a score)'),
    ('stepping', 'begin_panic', 'guard:final-score-none'):
        (1, 'the last held state is an accepted one (C06.R2/R5) and an invalid proposal is never accepted (C07.R1), so its '
            'score is Some whenever the input state was valid'),
    ('stepping', 'Overflow:Add', 'accumulate-rejections'):
        (1, 'total rejections <= proposals = floor(steps/I)*I <= steps <= u64::MAX'),
    ('stepping', 'Overflow:Mul', 'loop_counter*inner_steps'):
        (1, 'loop_counter*I <= floor(steps/I)*I <= steps <= u64::MAX'),
    ('ordering', 'Option::unwrap', 'cmp-of-partial_cmp'):
        (2, 'precondition: compared replica results are valid states with non-NaN scores (every stage returns a state whose '
            'score is Some by the final assertion)'),
    ('any', 'Overflow:Add', 'enumerate-index+1'):
        (2, 'index of an enumerate over in-memory placements; index+1 <= number of placements <= isize::MAX'),
    ('any', 'Overflow:Add', 'sum-of-vec-lengths'):
        (4, 'sum of lengths of live Vecs cannot exceed usize::MAX'),
    ('svg', 'Vec-index', 'corners-or-items-constant-index'):
        (9, 'get_corners builds exactly 4 points; a LineShape built by from_radial has >= 3 items (precondition for '
            'deserialised shapes)'),
    ('bin', 'logger-init', 'once'):
        (1, 'env_logger init is called exactly once, at the start of main'),
    ('parser', 'Matrix-index_mut', 'row-from-enumerate'):
        (32, 'row index < 2 by the two-component guard: decided, for every matrix index site of the parser, by C17.R2 (no cap on '
             'the number of such sites: a log line that reads the row back is one more)'),
}


def _run_rules(ctx):
    rep, f, cg = ctx.rep, ctx.facts, ctx.cg
    rep.trust('pk/callgraph.py reachability (trait calls expanded to all workspace impls; rayon max -> Ord::cmp added by '
              'model), documented panic conditions of rand::Uniform::new / gen_range / env_logger init')
    rep.assume('a generic shape parameter S of a state is one of the workspace\'s Shape implementors (what the library and the CLI '
               'build): their smallest size bounds the length of a Vec<S> (pk/sizes.py)')
    rep.assume('panics inside third-party crates (rayon, serde_json, svg, clap/structopt-generated code, env_logger) and '
               'allocation failure are out of scope')
    try:
        oa = OptimiserAnchors(f)
    except AnchorLost as e:
        rep.fail('R0', 'anchor:stepping-function', '', str(e), 'anchor-lost')
        return
    rep.saw(oa.body)
    _r1(ctx, oa)
    _r2(ctx, oa)
    _r3(ctx, oa)
    _r4(ctx)


# ------------------------------------------------------------------------------------------------ R1

def _roots(ctx, oa):
    f = ctx.facts
    roots = [oa.body.path]
    for b in f.bodies.values():
        if b.crate_kind == 'bin' and not b.is_closure and not b.derived and 'exp' not in b.span:
            roots.append(b.key_in_facts)
        if b.crate_kind == 'bin' and not b.is_closure and b.fn_name == 'main':
            roots.append(b.key_in_facts)
        if b.impl_trait and f.norm(b.impl_trait).endswith(('cmp::Ord', 'cmp::PartialOrd', 'cmp::PartialEq')) and not b.derived \
                and b.crate_kind == 'lib':
            roots.append(b.key_in_facts)
    return sorted(set(roots))


def _r1(ctx, oa):
    rep, f, cg = ctx.rep, ctx.facts, ctx.cg
    roots = _roots(ctx, oa)
    reach = sorted(cg.reachable(roots))
    rep.floor('R1', 'workspace bodies reachable from the stepping function / orderings / binary', len(reach), 100)
    fams, err, bbody = build_families(f)
    used = {}
    sites = 0
    discharged = 0
    skipped_derived = 0
    # analysis units: every function in nest form (helpers unknown to the reference tree, closures handed to iterator
    # consumers/adaptors spliced in: their panic-capable sites are judged in the context they run in); a closure that was
    # spliced into a unit is not judged again on its own
    units = []
    covered = set()
    for k in reach:
        b = f.bodies[k]
        if b.derived or _generated(b, f):
            skipped_derived += 1
            continue
        if not b.is_closure:
            b = oa.body if b.path == oa.body.path else f.nest_form(b, yields=False)
            covered |= set(getattr(b, 'inlined', []))
        units.append(b)
    n_debug = 0
    for b in units:
        if b.is_closure and b.path in covered:
            continue
        cfg = CFG(b)
        dbg = debug_only_blocks(b, cfg, ctx.facts)
        tr = None
        for bi in sorted(cfg.reach):
            bb = b.blocks[bi]
            if bb['cleanup']:
                continue
            t = bb['term']
            site = None
            if t['t'] == 'assert':
                site = ('assert', t['kind'], t)
            elif t['t'] == 'call':
                n = callee_name(t) or ''
                if is_panic_call(n) and not n.endswith(NON_PANICKING):
                    site = ('call', n, t)
            if site is None:
                continue
            if bi in dbg:
                # a debug_assert! and the arithmetic of its condition: the program's own self-check, compiled out when debug
                # assertions are off; whether it can fire is not decided here (stated as an assumption)
                n_debug += 1
                continue
            sites += 1
            tr = tr or Tracer(b)
            verdict, sig, why = _judge(ctx, oa, b, cfg, tr, bi, site, fams)
            loc = where(b, bi)
            if verdict == 'discharged':
                discharged += 1
                rep.ok('R1', 'discharged:%s:%s#%d' % (_short(b), sig, sites), loc, why)
                if len(rep.samples) < 30:
                    rep.sample('%s: %s — discharged: %s' % (loc, sig, why))
            elif verdict == 'table':
              for sig in (sig if isinstance(sig, list) else [sig]):     # (a re-raised Err stands for every site that builds it)
                used[sig] = used.get(sig, 0) + 1
                mx, reason = PRECONDITIONS[sig]
                if used[sig] <= mx:
                    rep.ok('R1', 'tabled:%s:%s#%d' % (_short(b), '/'.join(sig), used[sig]), loc, reason)
                    rep.sample('%s: %s — precondition table: %s' % (loc, '/'.join(sig), reason))
                else:
                    rep.fail('R1', '%s/untabled:%s' % (_short(b), '/'.join(sig)), loc,
                             'more panic-capable sites of kind %s than the %d recorded in the precondition table' % (sig, mx))
            else:
                rep.fail('R1', '%s/%s' % (_short(b), sig), loc, why)
    if n_debug:
        rep.assume('%d panic-capable site(s) inside debug_assert!-family checks are NOT decided: they are the program\'s own '
                   'self-checks and do not exist when debug assertions are off' % n_debug)
    rep.extra['debug_only_sites'] = n_debug
    rep.extra['panic_sites'] = sites
    rep.extra['panic_sites_discharged_by_analysis'] = discharged
    rep.extra['generated_bodies_skipped'] = skipped_derived
    rep.floor('R1', 'panic-capable sites enumerated', sites, 30)


def _generated(b, f=None):
    if f is not None and b.is_closure and b.closure_of:
        root = f.body(b.closure_of) or f.bodies.get('bin::' + b.closure_of)
        if root is not None and root is not b:
            return _generated(root) or root.derived
    sp = b.span
    return 'exp' in sp and sp['exp'].startswith(('macro:StructOpt', 'macro:Serialize', 'macro:Deserialize', 'macro:arg_enum',
                                                 'macro:Debug', 'macro:Clone', 'macro:PartialEq'))


def _short(b):
    p = b.path
    p = re.sub(r'<[^<>]*>', '', p)
    p = re.sub(r'<[^<>]*>', '', p)
    return p.split('::')[-1] if '{closure' not in p else p.split('::')[-2] + '::closure'


def _judge(ctx, oa, b, cfg, tr, bi, site, fams):
    f = ctx.facts
    kind, what, t = site
    is_step = b is oa.body
    if kind == 'assert':
        k = t['kind'].split(' ')[0].split('{')[0]
        if k == 'DivisionByZero' or k == 'RemainderByZero':
            return _divisor(ctx, oa, b, tr, bi, t, fams)
        if k in ('NullPointerDereference', 'MisalignedPointerDereference'):
            return _ptrcheck(b, tr, bi, t)
        if k == 'BoundsCheck':
            return _bounds(ctx, b, tr, bi, t)
        if k == 'OverflowNeg':
            return _const_param(ctx, b, tr, t['ops'][0], 'OverflowNeg')
        if k == 'Overflow':
            return _overflow(ctx, oa, b, cfg, tr, bi, t)
        return 'violation', 'assert:' + k, 'unrecognised assertion kind %s' % k
    n = what
    if 'begin_panic' in n or 'panicking::' in n or 'panic_fmt' in n or 'assert_failed' in n:
        if is_step:
            g = _panic_guard(oa, b, cfg, tr, bi)
            gs = [g] if g else _err_reraise(ctx, oa, b, cfg, tr, bi)
            if gs:
                sigs = []
                for g in gs:
                    if g == 'guard:empty-basis':
                        # the reference tree panics here too, inside Uniform::new(0, 0): unreachable by the same argument
                        impls = ctx.cg.impls_of('traits::State', 'generate_basis')
                        for im in impls:
                            ok, why = _nonempty_basis(ctx, im)
                            if not ok:
                                return 'violation', 'optimise_state/panic-on-empty-basis', \
                                    'panics when generate_basis() is empty, and %s::generate_basis is not shown to return ' \
                                    'at least one basis (%s)' % (f.norm(im.impl_self_adt), why)
                        if len(impls) < 2:
                            return 'violation', 'explicit-panic', 'generate_basis impls not found'
                    else:
                        sigs.append(('stepping', 'begin_panic', g))
                if not sigs:
                    return 'discharged', 'panic-on-empty-basis-unreachable', \
                        'guarded by is_empty(generate_basis()), and every generate_basis returns at least one basis'
                return 'table', (sigs if len(sigs) > 1 else sigs[0]), ''
        uv = _unreachable_by_value(ctx, b, bi)
        if uv:
            return 'discharged', 'explicit-panic-unreachable', uv
        if _panic_on_unordered(f, b, cfg, tr, bi):
            # `partial_cmp(..).unwrap_or_else(|| panic!(..))` in Ord::cmp: the unwrap() of the reference tree with a message
            return 'table', ('ordering', 'Option::unwrap', 'cmp-of-partial_cmp'), ''
        return 'violation', 'explicit-panic', 'an explicit panic!/assert! is reachable and is not one of the tabled sites'
    if 'Option::<T>::expect' in n or 'Option::<T>::unwrap' in n:
        r = _expect_of_uniform_index(b, tr, t)
        if r:
            return 'discharged', 'expect-of-get(uniform-index)', r
        if is_step and cfg.loop_depth(bi) == 0:
            # state.score().expect(..) / unwrap() is the same precondition as `match state.score() { None => panic!() }`
            so = tr.origin(t['args'][0])
            if so['o'] == 'call' and is_trait_call(so['term'], 'State', 'score') and not so['p']:
                outer = oa.outer or oa.inner
                before = outer['header'] in cfg.reachable_from([bi])
                return 'table', ('stepping', 'begin_panic', 'guard:initial-score-none' if before else 'guard:final-score-none'), ''
        from . import C17 as _c17
        _c17.FACTS[0] = f
        dd = _c17.digit_expect(b, cfg, tr, bi, t)
        if dd:
            return 'discharged', 'digit-value-is-some', dd
        o1 = tr.origin(t['args'][0])
        if o1['o'] == 'call' and call_matches(o1['term'], '<impl [T]>::first', '<impl [T]>::last') and b.file.endswith('to_svg.rs'):
            # items.first().expect(..) is items[0] with a message: same precondition
            return 'table', ('svg', 'Vec-index', 'corners-or-items-constant-index'), ''
        if b.impl_trait and f.norm(b.impl_trait).endswith('cmp::Ord') and b.fn_name == 'cmp':
            o = tr.origin(t['args'][0])
            if o['o'] == 'call' and call_matches(o['term'], 'partial_cmp'):
                return 'table', ('ordering', 'Option::unwrap', 'cmp-of-partial_cmp'), ''
        return 'violation', 'unwrap', 'an unwrap()/expect() on an Option that is not shown to be Some'
    if 'Result::<T, E>::' in n:
        return 'violation', 'unwrap', 'an unwrap()/expect() on a Result: an error would panic instead of being reported'
    if 'Uniform::<X>::new' in n:
        return _uniform_new(ctx, oa, b, tr, t)
    if n.endswith('::clamp') and len(t['args']) == 3:
        lo, hi = _const_number(tr, t['args'][1]), _const_number(tr, t['args'][2])
        if isinstance(lo, (int, float)) and isinstance(hi, (int, float)) and lo <= hi:
            return 'discharged', 'clamp-const', 'constant bounds %s <= %s' % (lo, hi)
        from ..sizes import _plain
        try:
            ilo, ihi = _sizes(ctx).interval(b, t['args'][1]), _sizes(ctx).interval(b, t['args'][2])
        except Exception:      # noqa: BLE001
            ilo = ihi = None
        if _plain(ilo) and _plain(ihi) and ilo[1] <= ihi[0]:
            return 'discharged', 'clamp-ordered', 'lower bound <= %d <= %d <= upper bound' % (ilo[1], ihi[0])
        return 'violation', 'clamp', 'clamp(min, max) panics when min > max (or a bound is NaN): the bounds are not shown to be ordered'
    if n.endswith('>::pow'):
        if 'core::num::' not in n or t['dest'].get('ty') not in ('u8', 'u16', 'u32', 'u64', 'u128', 'usize', 'i8', 'i16', 'i32', 'i64',
                                                                    'i128', 'isize'):
            return 'discharged', 'pow(non-integer)', 'not an integer power (no overflow check)'
        from ..sizes import RANGES, _plain
        try:
            iv = _sizes(ctx).interval(b, {'k': 'copy', 'l': t['dest']['l'], 'p': [], 'ty': t['dest'].get('ty')})
        except Exception:      # noqa: BLE001
            iv = None
        rng = RANGES.get(t['dest'].get('ty'))
        if _plain(iv) and rng and rng[0] <= iv[0] and iv[1] <= rng[1]:
            return 'discharged', 'integer-pow', 'base and exponent bounded: the power lies in [%d, %d]' % iv
        return 'violation', 'integer-pow', 'an integer power that is not shown to fit its type (panics on overflow in debug builds)'
    if 'gen_range' in n:
        lo, hi = _const_number(tr, t['args'][1]), _const_number(tr, t['args'][2])
        if isinstance(lo, (int, float)) and isinstance(hi, (int, float)) and lo < hi:
            return 'discharged', 'gen_range-const', 'constant bounds %s < %s' % (lo, hi)
        return 'violation', 'gen_range', 'gen_range bounds are not constants with lo < hi (panics when lo >= hi)'
    if '(usize, usize)' in n:
        idx = tr.origin(t['args'][1])
        if idx['o'] == 'const':
            from ..mirutil import const_tuple
            ct = const_tuple(f, idx['c'])
            if ct is not None and len(ct) == 2 and all(0 <= v <= 2 for v in ct):
                return 'discharged', 'matrix-const-index', 'named constant (row, col) = %s within 3x3' % (ct,)
        if idx['o'] == 'rvalue' and idx['rv']['r'] == 'aggr':
            vals = [const_value(x) if x.get('k') == 'const' else None for x in idx['rv']['ops']]
            if all(isinstance(v, int) and 0 <= v <= 2 for v in vals):
                return 'discharged', 'matrix-const-index', 'constant (row, col) = %s within 3x3' % (vals,)
            if b.fn_name == 'from_operations':
                return 'table', ('parser', 'Matrix-index_mut', 'row-from-enumerate'), ''
        return 'violation', 'matrix-index', 'matrix index is not a constant pair within 3x3'
    if 'Index<I>>::index' in n or 'IndexMut<I>>::index_mut' in n:
        r = _expect_of_uniform_index(b, tr, t, direct=True)
        if r:
            return 'discharged', 'index(uniform-index)', r
        r = _slice_from_enumerate_index(b, cfg, tr, t)
        if r:
            return 'discharged', 'slice-from(enumerate-index+1)', r
        r = _const_index_under_len_guard(b, cfg, tr, bi, t)
        if r:
            return 'discharged', 'index(constant below guarded length)', r
        idx = tr.origin(t['args'][1])
        if idx['o'] == 'const' and b.file.endswith('to_svg.rs'):
            co = tr.origin(t['args'][0])
            kv = const_value(idx['c'])
            if co['o'] == 'call' and call_matches(co['term'], 'Cell2::get_corners') and isinstance(kv, int) and not 0 <= kv < 4:
                # (get_corners returns exactly four points: C11.R7 / C14.R6)
                return 'violation', 'vec-index', 'corners[%d]: Cell2::get_corners returns four points' % kv
            return 'table', ('svg', 'Vec-index', 'corners-or-items-constant-index'), ''
        return 'violation', 'vec-index', 'Vec/slice indexing that is not shown to be in bounds'
    if 'Builder::init' in n or 'logger::init' in n:
        return 'table', ('bin', 'logger-init', 'once'), ''
    return 'violation', 'panic-capable-call:' + n.rsplit('::', 2)[-1], 'call to %s can panic and is neither discharged nor tabled' % n


def _const_number(tr, op):
    """The number an operand denotes when it is built from literals and named constants only (`-HALF_WIDTH`, `2. * K`), exactly;
    None otherwise."""
    v = const_value(tr.origin(op).get('c', {})) if tr.origin(op)['o'] == 'const' else None
    if isinstance(v, (int, float)) and not isinstance(v, bool):
        return v
    from ..loops import lift
    from ..celltables import eval_num
    e = lift(tr, op, None)
    if e is None:
        return None
    try:
        q = eval_num(e, {})
    except Exception:      # noqa: BLE001
        return None
    try:
        return float(q) if not isinstance(q, bool) else None
    except Exception:      # noqa: BLE001
        return None


def _assert_holds_by_value(ctx, b, bi):
    """An Assert terminator (bounds check, overflow check) whose condition is decided by the values of the function that
    contains it — `dof[index]` with `index` enumerating a 3-element array literal and `dof` a 3-element constant table: the
    enclosing function is executed symbolically on every path (finite sequences iterated concretely, closures called by the
    sequence models); the assertion holds when every evaluation of it found the passing constant."""
    from ..sym import SymEx
    f = ctx.facts
    outer = b
    if b.is_closure:
        outer = f.body(b.closure_of) if b.closure_of else None
        for _ in range(3):
            if outer is not None and outer.is_closure and outer.closure_of:
                outer = f.body(outer.closure_of)
    if outer is None or outer.is_closure:
        return None
    sx = SymEx(f)
    try:
        outs = sx.run(outer, [SYM(outer.local_name(i) or 'arg%d' % i) for i in outer.args()])
    except Exception:      # noqa: BLE001
        return None
    key = (b.path, bi)
    if sx.aborted or not outs or sx.opaque_mut_calls:
        return None
    if key in sx.symbolic_asserts or key in sx.failed_asserts or key not in sx.concrete_asserts:
        return None
    return 'every evaluation of this check in %s found the passing constant (%d paths executed by value)' % (outer.fn_name, len(outs))


def _unreachable_by_value(ctx, b, bi):
    """An assert!/panic! whose condition is decided by the values of the function itself (`assert!(a.len() >= b.len())` over two
    fixed-size tables): every path of the function is executed symbolically (callees by their definitions), symbolic conditions
    fork both ways; the panic is unreachable when the exploration is complete and no path arrives at its block."""
    from ..sym import SymEx
    if b.is_closure:
        return None
    sx = SymEx(ctx.facts)
    sx.stop_blocks = {bi}
    try:
        outs = sx.run(b, [SYM(b.local_name(i) or 'arg%d' % i) for i in b.args()])
    except Exception:      # noqa: BLE001
        return None
    if sx.aborted or not outs:
        return None
    if any(isinstance(o.ret, tuple) and o.ret and o.ret[0] == 'stopped' for o in outs):
        return None
    if sx.opaque_mut_calls:
        return None         # something the evaluator did not interpret may have changed a value the guard reads
    return 'no path of %s reaches the panic (%d paths executed by value, conditions decided by the function\'s own constants)' \
        % (b.fn_name, len(outs))


def _divisor(ctx, oa, b, tr, bi, t, fams):
    # the assertion's operand is the dividend; the divisor is the value compared with 0 in the condition
    co = tr.origin(t['cond'])
    div = None
    if co['o'] == 'rvalue' and co['rv']['r'] == 'binop' and co['rv']['op'] in ('Eq', 'Ne'):
        a, c = co['rv']['a'], co['rv']['b']
        if c.get('k') == 'const' and const_value(c) == 0:
            div = a
        elif a.get('k') == 'const' and const_value(a) == 0:
            div = c
    if div is None:
        return 'violation', 'div', 'cannot identify the divisor of a division'
    e = mir_expr(tr, div, self_prefix='F.' if b is oa.body else 'self.')
    num = oa.self_field(t['ops'][0]) if b is oa.body else None
    den = oa.self_field(div) if b is oa.body else None
    label = 'div:%s/%s' % (num or '?', den or '?') if b is oa.body else 'div'
    if e is None:
        return 'violation', label, 'the divisor is not an expression this rule can evaluate'
    env = {'self.steps': U64, 'self.inner_steps': U64, 'self.seed#Some.0': U64}
    if b is oa.body:
        if fams is None:
            return 'violation', label, 'builder not analysable'
        exprs = [subst_syms(e, {'F.' + k: v for k, v in fam['fields'].items()}) for fam in fams]
    else:
        exprs = [e]
    worst = None
    for x in exprs:
        v = AbsEval(env, default=U64).ev(x)
        v = AbsEval.coerce_i(v) if AbsEval.is_int(v) else IVL(None, None)
        if i_contains(v, 0):
            worst = v
    if worst is None:
        return 'discharged', label, 'divisor interval excludes 0 (for every builder configuration family)'
    return 'violation', label, \
        'the divisor can be 0 (abstract value %s: e.g. steps = 0 or inner_steps = 0 gives min(inner_steps, steps) = 0): ' \
        'integer division by zero panics' % show(worst)


def _ptrcheck(b, tr, bi, t):
    o = tr.origin(t['cond'])
    # the checked pointer: look for a raw pointer whose origin is UnsafeCell::get / a Box allocation
    for blk in b.blocks:
        tt = blk['term']
        if tt['t'] == 'call' and call_matches(tt, 'UnsafeCell::<T>::get', 'UnsafeCell::<T>::raw_get'):
            return 'discharged', 'ptr-check(UnsafeCell::get)', 'pointer obtained from UnsafeCell::get(&self.value) of a live reference'
    sp = t['span'].get('exp', '')
    if sp.startswith('macro:vec'):
        return 'discharged', 'ptr-check(vec!)', 'pointer to a fresh Box allocation inside the vec! expansion'
    return 'violation', 'raw-pointer-dereference', 'a raw pointer is dereferenced and its validity is not established'


def _panic_on_unordered(f, b, cfg, tr, bi):
    """The panic at block bi sits in `Ord::cmp` (or a closure of it spliced in) on the None edge of a switch on the result of
    partial_cmp(self, other): the reference tree's `partial_cmp(..).unwrap()` spelled with its own message."""
    owner = b
    if b.is_closure and b.closure_of:
        owner = f.body(b.closure_of) or b
    if not ((owner.impl_trait or '') and f.norm(owner.impl_trait).endswith('cmp::Ord') and owner.fn_name == 'cmp'):
        return False
    if b.is_closure:
        # the closure handed to unwrap_or_else / map_or_else on the partial_cmp result: it only runs for None
        for _bi, t2 in owner.calls():
            if call_matches(t2, 'Option::<T>::unwrap_or_else', 'Option::<T>::map_or_else', 'Option::<T>::ok_or_else') and t2['args']:
                o = Tracer(owner).origin(t2['args'][0])
                if o['o'] == 'call' and call_matches(o['term'], 'partial_cmp'):
                    return True
        return False
    # in the function itself (a `match` / `let else` / a spliced closure): some dominating switch tests discr(partial_cmp(..))
    for sb in sorted(cfg.reach):
        t2 = b.blocks[sb]['term']
        if t2['t'] != 'switch' or not cfg.dominates(sb, bi):
            continue
        o = tr.origin(t2['discr'])
        if o['o'] == 'rvalue' and o['rv'].get('r') == 'discr':
            so = tr.origin(dict(o['rv']['place'], k='copy'))
            if so['o'] == 'call' and call_matches(so['term'], 'partial_cmp'):
                none_t = [tg for v, tg in t2['arms'] if v == '0']
                none_t = none_t[0] if none_t else t2['otherwise']
                if bi in cfg.reachable_from([none_t]):
                    return True
    return False


def enum_cast_bound(facts, tr, op):
    """(min, max, enum path) of `x as usize` for a value x of a workspace enum: the range of its discriminants."""
    o = tr.origin(op)
    if not (o['o'] == 'rvalue' and o['rv'].get('r') == 'cast' and str(o['rv'].get('kind', '')).startswith('IntToInt')):
        return None
    s_ = tr.origin(o['rv']['a'])
    if not (s_['o'] == 'rvalue' and s_['rv'].get('r') == 'discr'):
        return None
    ety = facts.norm(str(s_['rv']['place'].get('ty', ''))).lstrip('&').strip()
    a = facts.adts.get(ety.split('<')[0])
    ds = (a or {}).get('discrs') or []
    if not ds:
        return None
    return min(ds), max(ds), ety


def _bounds(ctx, b, tr, bi, t):
    ln, ix = t['ops']
    io = tr.origin(ix)
    if io['o'] == 'call':
        # index drawn from Uniform::new(0, len(v)) into the slice of the same, never resized, v
        c2 = _uniform_index_container(b, tr, io)
        lo = tr.origin(ln)
        c1 = None
        if lo['o'] == 'rvalue' and lo['rv']['r'] == 'unop' and 'PtrMetadata' in lo['rv']['op']:
            c1 = container_root(b, tr, lo['rv']['a'])
        elif lo['o'] == 'call' and call_matches(lo['term'], 'Vec::<T, A>::len', '<impl [T]>::len'):
            c1 = container_root(b, tr, lo['term']['args'][0])
        if c2 is not None and c1 == c2 and not _resized(b, tr, c2):
            return 'discharged', 'bounds-uniform-index', 'index = Uniform::new(0, len(_%d)).sample(..) into the never resized _%d' % (c2, c2)
    if io['o'] != 'const':
        ed = enum_cast_bound(ctx.facts, tr, ix)
        if ed is not None:
            lo2 = tr.origin(ln)
            n2 = const_value(lo2['c']) if lo2['o'] == 'const' else None
            if isinstance(n2, int) and ed[1] < n2:
                return 'discharged', 'bounds-enum-index', 'index = %s as usize, discriminants %d..=%d < constant length %d' \
                    % (ed[2], ed[0], ed[1], n2)
        hv = _assert_holds_by_value(ctx, b, bi)
        if hv:
            return 'discharged', 'bounds-by-value', hv
        return 'violation', 'bounds', 'index is not a constant'
    k = const_value(io['c'])
    lo = tr.origin(ln)
    # len = PtrMetadata(slice ref) ; the slice comes from a call returning an unsized constant array
    n = None
    if lo['o'] == 'rvalue' and lo['rv']['r'] == 'unop' and 'PtrMetadata' in lo['rv']['op']:
        so, _ = through(tr, lo['rv']['a'])
        if so['o'] == 'call':
            cb = ctx.facts.body_of_fnconst(so['term']['func'])
            if cb is not None:
                n = _returned_array_len(cb)
    m = re.search(r'\[[^;\]]+; (\d+)\]', ln.get('ty', '') or '')
    if n is None and lo['o'] == 'const':
        n = const_value(lo['c'])
    if n is not None and isinstance(k, int) and k < n:
        return 'discharged', 'bounds-const', 'constant index %d < constant length %d' % (k, n)
    hv = _assert_holds_by_value(ctx, b, bi)
    if hv:
        return 'discharged', 'bounds-by-value', hv
    return 'violation', 'bounds', 'constant index %s is not shown to be below the length' % k


def _returned_array_len(cb):
    t = Tracer(cb)
    for bb in cb.blocks:
        for s in bb['stmts']:
            if s['s'] == 'assign' and s['place']['l'] == 0 and s['rv']['r'] == 'cast' and 'Unsize' in s['rv']['kind']:
                m = re.search(r'; (\d+)\]', s['rv']['a'].get('ty', ''))
                if m:
                    return int(m.group(1))
    return None


def debug_only_blocks(b, cfg, facts=None, depth=0):
    """Blocks that only run inside `debug_assert!`-family checks: everything between the `cfg!(debug_assertions)` test the
    macro expands to and the point where control rejoins, plus any panic site whose macro backtrace names the macro.  A closure
    that is only ever built inside such a region of its parent (`debug_assert!((0..3).all(|c| m[(2, c)] == 0.))`) is
    debug-only as a whole."""
    out = set()
    if facts is not None and b.is_closure and depth < 3:
        sites = []
        for cb in list(facts.bodies.values()) + list(getattr(facts, 'helpers', {}).values()):
            for bi2, bb in enumerate(cb.blocks):
                for st in bb['stmts']:
                    if st['s'] == 'assign' and st['rv'].get('r') == 'aggr' and st['rv'].get('agg') == 'closure' and \
                            facts.norm(st['rv']['closure']) == facts.norm(b.path):
                        sites.append((cb, bi2))
        if sites:
            from ..cfg import CFG as _CFG
            if all(bi2 in debug_only_blocks(cb, _CFG(cb), facts, depth + 1) for cb, bi2 in sites):
                return set(cfg.reach)
    for bi in cfg.reach:
        t = b.blocks[bi]['term']
        sp = t.get('span') or {}
        exps = sp.get('exps') or []
        if not any(e.startswith('debug_assert') for e in exps):
            continue
        if t['t'] == 'switch' and any(e.endswith('cfg') for e in exps):
            # `if cfg!(debug_assertions) { .. }`: the false arm is an empty block that jumps to the join point
            arms = dict((v, x) for v, x in t['arms'])
            skip = arms.get('0')
            inside = t['otherwise']
            if skip is not None and inside != skip:
                # everything only the "assertions enabled" arm can reach (the join point and what follows is reachable from both)
                out |= cfg.reachable_from([inside]) - cfg.reachable_from([skip])
        elif t['t'] == 'call':
            out.add(bi)
    return out


def _closure_sites(ctx, path):
    """[(body, closure aggregate rvalue)] for every place the workspace builds the closure `path`."""
    f = ctx.facts
    idx = getattr(f, '_closure_sites', None)
    if idx is None:
        idx = {}
        for cb in f.bodies.values():
            for bb in cb.blocks:
                for st in bb['stmts']:
                    if st['s'] == 'assign' and st['rv'].get('r') == 'aggr' and st['rv'].get('agg') == 'closure':
                        idx.setdefault(f.norm(st['rv']['closure']), []).append((cb, st['rv']))
        f._closure_sites = idx
    return idx.get(ctx.facts.norm(path), [])


def _reference_fns():
    from ..facts import known_fns
    return known_fns()


def _const_values(ctx, b, tr, op, depth=0):
    """All values an operand can take if they are all compile-time constants ([ints]), else a string saying why not.
    Follows parameters to every workspace call site and closure captures to every place the closure is built."""
    f, cg = ctx.facts, ctx.cg
    if depth > 6:
        return 'constant chase too deep'
    o = tr.origin(op)
    if o['o'] == 'const':
        v = const_value(o['c'])
        return [v] if isinstance(v, int) else 'non-integer constant'
    if o['o'] == 'local' and not [e for e in o['p'] if e not in ('ref', 'deref')]:
        ds = tr.defs.of(o['l'])
        vals = []
        for x in ds:
            if x[2] == 'assign' and x[3]['r'] == 'use':
                r = _const_values(ctx, b, tr, x[3]['a'], depth + 1) if not (x[3]['a'].get('l') == o['l']) else []
                if isinstance(r, str):
                    return r
                vals += r
            else:
                return 'local _%d is computed' % o['l']
        return vals if ds else 'no definition'
    if o['o'] == 'arg' and b.is_closure and o['l'] == 1:
        # a captured variable: (*env).k [deref if captured by reference]
        fields = [e for e in o['p'] if isinstance(e, dict) and 'f' in e]
        if len(fields) != 1:
            return 'capture path not understood'
        k = fields[0]['f']
        sites = _closure_sites(ctx, b.path)
        if not sites:
            return 'closure construction site not found'
        vals = []
        for cb, rv in sites:
            if k >= len(rv['ops']):
                return 'capture index out of range'
            r = _const_values(ctx, cb, Tracer(cb), rv['ops'][k], depth + 1)
            if isinstance(r, str):
                return r
            vals += r
        return vals
    if o['o'] == 'arg' and not o['p']:
        pi = o['l'] - 1
        vals = []
        n = 0
        for k, s in cg.callers_of(lambda n: n == b.path):
            cb = f.bodies[k]
            if s['how'] != 'call':
                continue
            t = cb.blocks[s['bb']]['term']
            if len(t['args']) <= pi:
                continue
            n += 1
            r = _const_values(ctx, cb, Tracer(cb), t['args'][pi], depth + 1)
            if isinstance(r, str) and not cb.is_closure:
                r2 = _values_by_execution(ctx, cb, t, pi)
                if r2 is not None:
                    r = r2
            if isinstance(r, str) and r == 'no call sites found' and depth + 1 <= 6:
                # a wrapper that only hands on its own parameter and is itself called from nowhere in the workspace (a public
                # convenience whose internal users had it spliced in): no value reaches the operand through it
                o2 = Tracer(cb).origin(t['args'][pi])
                if o2['o'] == 'arg' and not o2['p'] and f.norm(cb.path) not in _reference_fns():
                    n -= 1
                    continue
            if isinstance(r, str):
                return 'a caller (%s) passes a non-constant value (%s)' % (cb.path, r)
            vals += r
        return vals if n else 'no call sites found'
    if o['o'] in ('call', 'rvalue') and not [e for e in o['p'] if e not in ('ref', 'deref')] and o.get('l') is not None:
        # a value computed by a (spliced) helper or a workspace function: evaluate that function symbolically; if every
        # path returns a number, those are the values
        hp = b.locals[o['l']].get('inl')
        hb = None
        if hp:
            hb = f.helpers.get(f.norm(hp)) or f.body(hp)
        elif o['o'] == 'call':
            hb = f.body_of_fnconst(o['term']['func'])
        if hb is not None and not hb.is_closure:
            from ..sym import SymEx, SYM
            sx = SymEx(f)
            try:
                outs = sx.run(hb, [SYM(hb.local_name(i) or 'arg%d' % i) for i in hb.args()])
            except Exception:
                outs = []
            vals = []
            for oc in outs:
                r = sx.deep(oc.st, oc.ret)
                if isinstance(r, tuple) and r[0] == 'num' and r[1].denominator == 1:
                    vals.append(int(r[1]))
                else:
                    vals = None
                    break
            if vals and not sx.aborted:
                return vals
    return 'operand is %s' % o['o']


def _values_by_execution(ctx, cb, term, pi):
    """Every value argument `pi` of the call `term` in cb can take, by executing cb symbolically up to that call (tables,
    find/map_or, matches evaluated by their definitions); None unless all of them are integers."""
    from ..nest import Nest
    try:
        n = Nest(ctx.facts, cb, yields=False)
        sp = term.get('span') or {}
        sites = [bi for bi, tt in n.b.calls() if tt['func'].get('fn') == term['func'].get('fn') and
                 (tt.get('span') or {}).get('line') == sp.get('line') and (tt.get('span') or {}).get('col') == sp.get('col')]
        if len(sites) != 1:
            return None
        sx, outs = n.reach(sites[0])
        if not outs or sx.aborted:
            return None
        vals = []
        for o in outs:
            v = n.arg_values(sx, o, sites[0])[pi]
            if isinstance(v, tuple) and v[0] == 'num' and v[1].denominator == 1:
                vals.append(int(v[1]))
            else:
                return None
        return vals
    except Exception:
        return None


def _const_param(ctx, b, tr, op, label):
    """The operand only ever holds small compile-time constants (through parameters, captures and constant locals)."""
    vals = _const_values(ctx, b, tr, op)
    if isinstance(vals, str):
        return 'violation', label, vals
    if vals and all(isinstance(v, int) and -2 ** 62 < v < 2 ** 62 for v in vals):
        return 'discharged', label + '-const-args', 'every value reaching the operand is a constant: %s' % sorted(set(vals))
    return 'violation', label, 'no call sites found / non-constant argument'


_SIZES = {}
_LOGONLY = {}


def _sizes(ctx):
    k = id(ctx.facts)
    if k not in _SIZES:
        from ..sizes import Sizes
        _SIZES.clear()
        _SIZES[k] = Sizes(ctx.facts)
    return _SIZES[k]


def _overflow(ctx, oa, b, cfg, tr, bi, t):
    binop = t.get('binop')
    if binop == 'Sub':
        from . import C17 as _c17
        _c17.FACTS[0] = ctx.facts
        sg = _c17._sub_under_guard(b, cfg, tr, bi, t)
        if sg:
            return 'discharged', 'subtraction-cannot-underflow', sg
    a, c = t['ops']
    if binop == 'Sub':
        lm = _len_monotone_sub(b, cfg, tr, bi, a, c)
        if lm:
            return 'discharged', 'length-of-a-growing-vec-minus-an-earlier-length', lm
    sz = _sizes(ctx)
    try:
        ia, ic = sz.interval(b, a), sz.interval(b, c)
    except Exception:      # noqa: BLE001
        ia = ic = None
    from ..sizes import RANGES, _arith, _plain
    rng = RANGES.get(a.get('ty'))
    if _plain(ia) and _plain(ic) and rng is not None and binop in ('Add', 'Sub', 'Mul'):
        res = _arith(binop, ia, ic)
        if res is not None and rng[0] <= res[0] and res[1] <= rng[1]:
            return 'discharged', 'size-arithmetic', 'operands in [%d, %d] and [%d, %d] (collection lengths bounded by isize::MAX / ' \
                'element size, constants): the %s result fits %s' % (ia[0], ia[1], ic[0], ic[1], a.get('ty'), a.get('ty'))
    ao, co = tr.origin(a), tr.origin(c)
    if binop == 'Add' and _plain(ic) and ic[0] >= 0 and ao['o'] == 'local' and not ao.get('p') and rng is not None:
        # the checked addition IS the step of an accumulator x (its result flows back into x): the new value of x lies in the
        # interval of x over the whole loop
        from ..mirutil import copy_web
        x = ao['l']
        web = copy_web(b, tr, cfg.reach, x)
        feeds = False
        for l2 in web:
            for (dbi, si, kind, rv) in tr.defs.of(l2):
                if kind == 'assign' and rv['r'] == 'use' and 'l' in rv['a']:
                    o2 = tr.origin(rv['a'])
                    if o2['o'] == 'rvalue' and o2.get('bb') == bi and o2['rv'].get('r') == 'binop' and o2['rv']['op'].startswith('Add'):
                        feeds = True
        if feeds:
            try:
                ix = sz.interval(b, {'k': 'copy', 'l': x, 'p': [], 'ty': a.get('ty')})
            except Exception:      # noqa: BLE001
                ix = None
            if _plain(ix) and rng[0] <= ix[0] and ix[1] <= rng[1]:
                return 'discharged', 'accumulator-bound', 'the sum stays in [%d, %d] over the whole loop (terms in [%d, %d], ' \
                    'iterations bounded by the range / collection)' % (ix[0], ix[1], ic[0], ic[1])
    sigk = 'Overflow:%s' % binop
    rhs_const1 = co['o'] == 'const' and const_value(co['c']) == 1
    # D5 bounded counter: x += 1; if x > K { leave }
    # a bool counted as 0 / 1 (`count + u64::from(rejected)`, `rejected as u64`) is a step of at most one
    rhs_bool = (co['o'] == 'call' and call_matches(co['term'], 'From<bool>>::from', 'From<bool>::from') or
                (co['o'] == 'call' and call_matches(co['term'], 'From>::from', 'From::from', 'Into>::into', 'Into::into') and
                 co['term']['args'] and co['term']['args'][0].get('ty') == 'bool') or
                (co['o'] == 'rvalue' and co['rv'].get('r') == 'cast' and co['rv']['a'].get('ty') == 'bool'))
    if binop == 'Add' and (rhs_const1 or rhs_bool) and ao['o'] == 'local':
        x = ao['l']
        bc = _bounded_counter(b, cfg, tr, x, t['target'], bi) if rhs_const1 else None
        if bc:
            return 'discharged', 'bounded-counter', bc
        cc = _loop_counter(oa, b, cfg, tr, x, bi)
        if cc:
            return 'discharged', 'loop-counter', cc
        if ao.get('name') is None or True:
            # enumerate index + 1
            pass
    if binop == 'Add' and rhs_const1:
        # index of an enumerate + 1 (closure/iterator pattern)
        if ao['o'] in ('local', 'arg', 'call', 'rvalue') and _from_enumerate(b, tr, a, ctx.facts):
            # (a proof, not a tabled precondition: the index of an enumerate() over an in-memory collection is < its length,
            # and a collection's length is at most isize::MAX, so index + 1 cannot wrap a usize)
            return 'discharged', 'enumerate-index+1', 'index of an enumerate() over an in-memory collection: index + 1 <= its ' \
                'length <= isize::MAX'
    if binop == 'Add' and b.is_closure and (b.closure_of or '').endswith('total_shapes') or \
            (binop == 'Add' and 'total_shapes' in b.path) or (binop == 'Add' and 'initialise' in b.path):
        return 'table', ('any', sigk, 'sum-of-vec-lengths'), ''
    if b is oa.body and binop == 'Add' and ao['o'] == 'local' and co['o'] == 'local':
        return 'table', ('stepping', sigk, 'accumulate-rejections'), ''
    if b is oa.body and binop == 'Mul':
        flds = [oa.self_field(x) for x in (a, c)]
        if 'inner_steps' in flds:
            return 'table', ('stepping', sigk, 'loop_counter*inner_steps'), ''
    if binop == 'Add' and (rhs_const1 or rhs_bool) and a.get('ty') in ('u64', 'usize', 'i64', 'isize', 'u128', 'i128'):
        why = _pure_unit_counter(ctx, b, cfg, tr, a, ao)
        if why:
            ctx.rep.assume('a 64-bit counter that starts from a constant and only ever grows by one per executed step cannot wrap within '
                           'any feasible run (2^63 steps): such increments are discharged under this assumption')
            return 'discharged', 'unit-step-64-bit-counter', why
    return 'violation', '%s/%s' % (b.fn_name, sigk), 'integer overflow check that is neither discharged nor tabled'


def _len_monotone_sub(b, cfg, tr, bi, a, c):
    """`v.len() - earlier` where `earlier` is v.len() read at a point that dominates this one and v is never shrunk in the body
    (only push / append / extend / insert): a Vec that only grows is at least as long as it was."""
    ao, co = tr.origin(a), tr.origin(c)
    if not (ao['o'] == 'call' and co['o'] == 'call' and not ao['p'] and not co['p']):
        return None
    if not (call_matches(ao['term'], 'Vec::<T, A>::len') and call_matches(co['term'], 'Vec::<T, A>::len')):
        return None
    va, vc = container_root(b, tr, ao['term']['args'][0]), container_root(b, tr, co['term']['args'][0])
    if va is None or va != vc:
        return None
    shrinkers = tuple(x for x in RESIZERS if not x.endswith(('::push', '::append', '::insert')))
    for _bi2, tt in b.calls():
        if call_matches(tt, *shrinkers) and tt['args'] and container_root(b, tr, tt['args'][0]) == va:
            return None
    # no re-assignment of the Vec between the two reads: a single definition of the container local
    if len([d for d in tr.defs.of(va)]) > 1:
        return None
    if not (cfg.dominates(co['bb'], ao['bb']) and cfg.dominates(ao['bb'], bi)):
        return None
    return 'both operands are lengths of _%d, which is only ever appended to; the subtrahend was read first' % va


def _pure_unit_counter(ctx, b, cfg, tr, a, ao):
    """The incremented value is a counter in the strict sense: a local (or a struct field) that is only ever given a constant or its
    own value plus one (plus a bool).  Not: a value that comes from a parameter, a field set elsewhere, a call."""
    from ..mirutil import copy_web

    def step_of(rv, tr2, is_self):
        """rv is `(self + 1).0` / `self + bool`: the result of a checked add whose left operand is the counter itself"""
        if rv['r'] != 'use' or 'l' not in rv['a']:
            return False
        o2 = tr2.origin(rv['a'])
        if o2['o'] != 'rvalue' or o2['rv'].get('r') != 'binop' or not o2['rv']['op'].startswith('Add'):
            return False
        raw = o2['rv']['a']
        lo, ro = tr2.origin(raw), o2['rv']['b']
        # (the operand as written — `(*counts).improved` — says which place is read even where origin() has already looked
        # through to the value that place was first given)
        rawf = [e for e in (raw.get('p') or []) if isinstance(e, dict) and 'f' in e] if isinstance(raw, dict) else []
        if rawf:
            lo = {'o': 'place', 'l': raw.get('l'), 'p': raw['p']}
        one = ro.get('k') == 'const' and const_value(ro) == 1
        if not one and 'l' in ro:
            r2 = tr2.origin(ro)
            one = (r2['o'] == 'const' and const_value(r2['c']) == 1) or \
                (r2['o'] == 'rvalue' and r2['rv'].get('r') == 'cast' and r2['rv']['a'].get('ty') == 'bool') or \
                (r2['o'] == 'call' and r2['term']['args'] and r2['term']['args'][0].get('ty') == 'bool')
        return one and is_self(lo)
    if ao['o'] == 'call' and not ao.get('p') and 'atomic' in (callee_name(ao['term']) or '').lower() and \
            (callee_name(ao['term']) or '').endswith(('::fetch_add', '::load')):
        return 'the value of an atomic counter (fetch_add / load) plus one'
    if ao['o'] == 'local' and not ao.get('p'):
        x = ao['l']
        web = copy_web(b, tr, cfg.reach, x)
        n_step = 0
        for l2 in web:
            for (dbi, si, kind, rv) in tr.defs.of(l2):
                if kind != 'assign':
                    return None
                if rv['r'] == 'use' and rv['a'].get('k') == 'const':
                    continue
                if rv['r'] == 'use' and 'l' in rv['a'] and not rv['a']['p'] and rv['a']['l'] in web:
                    continue
                if step_of(rv, tr, lambda lo: lo['o'] == 'local' and lo.get('l') in web and not lo.get('p')):
                    n_step += 1
                    continue
                return None
        if n_step:
            return 'local _%d takes only constants and its own value plus one' % x
        return None
    # a field counter: `self.hits += 1`
    fp = [e for e in (a.get('p') or []) if isinstance(e, dict) and 'f' in e]
    if 'l' in a and fp and fp[-1].get('of'):
        adt = ctx.facts.norm(fp[-1]['of']).split('<')[0]
        fname = fp[-1].get('n')
        n_step = 0
        for b2 in ctx.facts.bodies.values():
            if b2.derived:
                continue
            tr2 = None
            for bb in b2.blocks:
                for st in bb['stmts']:
                    if st['s'] != 'assign':
                        continue
                    rv = st['rv']
                    if rv['r'] == 'aggr' and rv.get('agg') == 'adt' and ctx.facts.norm(str(rv.get('adt') or '')).split('<')[0] == adt:
                        d = dict(zip(rv.get('fields') or [], rv['ops']))
                        op = d.get(fname)
                        if op is None:
                            return None
                        if op.get('k') != 'const':
                            tr2 = tr2 or Tracer(b2)
                            o3 = tr2.origin(op)
                            # (a clone / functional update that copies the field of another value of the same type keeps a counter a counter)
                            if not (o3['o'] == 'const' or (field_path(o3.get('p', []))[-1:] == [fname])):
                                return None
                        continue
                    pl = st['place']
                    pfl = [e for e in pl['p'] if isinstance(e, dict) and 'f' in e]
                    if pfl and pfl[-1].get('n') == fname and ctx.facts.norm(pfl[-1].get('of') or '').split('<')[0] == adt and \
                            pl['p'][-1] is pfl[-1]:
                        tr2 = tr2 or Tracer(b2)
                        if rv['r'] == 'use' and rv['a'].get('k') == 'const':
                            continue
                        if step_of(rv, tr2, lambda lo: field_path(lo.get('p', []))[-1:] == [fname]):
                            n_step += 1
                            continue
                        return None
        if n_step:
            return 'field %s.%s is only ever set to a constant or to its own value plus one' % (adt.split('::')[-1], fname)
    return None


def _const_index_under_len_guard(b, cfg, tr, bi, t):
    """`v[k]` with a constant k, reached only where comparisons of v.len() (same, never resized, v) that dominate the site
    establish len > k."""
    from . import C17 as _c17
    if len(t['args']) != 2:
        return None
    io = tr.origin(t['args'][1])
    k = const_value(io['c']) if io['o'] == 'const' else None
    if not isinstance(k, int) or isinstance(k, bool):
        return None
    cont = container_root(b, tr, t['args'][0])
    if cont is None or _resized(b, tr, cont):
        return None
    lens = _c17.length_locals(b, tr, cont)
    if not lens:
        return None
    lo, hi, used = _c17.guard_interval(b, cfg, tr, lens, bi)
    if lo > k:
        return 'index %d < len: the length of _%d is at least %d here (guards %s)' % (k, cont, lo, [(u[1], u[2]) for u in used])
    return None


def _slice_from_enumerate_index(b, cfg, tr, t):
    """`v[i + c ..]` with c in {0, 1} and i the enumerate() index of a loop over the same, never resized, v: i < len(v), so the
    start is at most len(v) and the slice is in bounds."""
    from ..loops import for_loops, lift
    from ..sym import SYM
    if len(t['args']) != 2 or 'RangeFrom<' not in t['args'][1].get('ty', ''):
        return None
    ro = tr.origin(t['args'][1])
    if not (ro['o'] == 'rvalue' and ro['rv'].get('r') == 'aggr' and ro['rv'].get('ops')):
        return None
    hdr = {}

    def leaf(o):
        fp = field_path(o.get('p', []))
        if o['o'] == 'call' and call_matches(o['term'], '::next') and fp[-1:] == ['0'] and \
                ('Enumerate' in o['term']['args'][0].get('ty', '') or _enumerate_loop(b, tr, o['bb'])):
            hdr['h'] = o['bb']
            return SYM('i')
        return None
    e = lift(tr, ro['rv']['ops'][0], leaf)
    if e is None or 'h' not in hdr:
        return None
    c = None
    if e == SYM('i'):
        c = 0
    elif e[0] == 'bin' and e[1] == 'Add' and SYM('i') in (e[2], e[3]):
        other = e[3] if e[2] == SYM('i') else e[2]
        if other[0] == 'num' and other[1] in (0, 1):
            c = int(other[1])
    if c is None:
        return None
    loops = [d for d in for_loops(b, cfg, tr) if d['header'] == hdr['h']]
    if len(loops) != 1:
        return None
    d = loops[0]
    from ..lineage import IDENTITY_ADAPTORS
    cont = container_root(b, tr, t['args'][0])
    if cont is None or _resized(b, tr, cont):
        return None
    over = False
    seen_enum = False
    for nm, ct, cbb in d['chain_terms']:
        if nm == 'enumerate':
            seen_enum = True
        elif nm not in IDENTITY_ADAPTORS:
            break
        if nm in ('iter', 'deref', 'into_iter', 'as_slice') and ct['args'] and container_root(b, tr, ct['args'][0]) == cont:
            over = True
            break
    if not (over and seen_enum):
        return None
    return 'start = enumerate index%s of the loop over _%d itself (never resized): start <= len' % (' + 1' if c else '', cont)


def _from_enumerate(b, tr, op, facts=None, depth=0):
    o = tr.origin(op)
    # the tuple item (index, x) of an Enumerate: field .0 of the iterator's Some payload
    fp = field_path(o.get('p', []))
    if o['o'] == 'call' and call_matches(o['term'], '::next') and fp[-1:] == ['0']:
        ity = o['term']['args'][0].get('ty', '')
        return 'Enumerate' in ity or _enumerate_loop(b, tr, o['bb'])
    if facts is None or not b.is_closure or depth > 3 or o['o'] != 'arg':
        return False
    sites = []
    for cb in facts.bodies.values():
        for bi2, bb in enumerate(cb.blocks):
            for st in bb['stmts']:
                if st['s'] == 'assign' and st['rv'].get('r') == 'aggr' and st['rv'].get('agg') == 'closure' and \
                        facts.norm(st['rv']['closure']) == facts.norm(b.path):
                    sites.append((cb, st))
    if not sites:
        return False
    if o['l'] == 1:
        # a captured variable: the same question about what was captured, where the closure is built
        flds = [e['f'] for e in o['p'] if isinstance(e, dict) and 'f' in e]
        if len(flds) != 1:
            return False
        return all(flds[0] < len(st['rv']['ops']) and 'l' in st['rv']['ops'][flds[0]] and
                   _from_enumerate(cb, Tracer(cb), st['rv']['ops'][flds[0]], facts, depth + 1) for cb, st in sites)
    if o['l'] == 2 and fp[:1] == ['0']:
        # the closure's own item `(index, x)`: the closure is the argument of an adaptor / consumer of an Enumerate
        for cb, st in sites:
            cl = st['place']['l']
            used = False
            tcb = Tracer(cb)
            for _bi, t2 in cb.calls():
                for a2 in t2['args'][1:]:
                    if 'l' in a2 and tcb.origin(a2).get('l') == cl or ('l' in a2 and a2['l'] == cl):
                        if (t2['func'].get('trait') or '').endswith(('iter::Iterator', 'iterator::Iterator')) and \
                                'Enumerate<' in str(t2['args'][0].get('ty', '')):
                            used = True
            if not used:
                return False
        return True
    return False


def _enumerate_loop(b, tr, header):
    """The loop whose next() call is in block `header` ranges over `<chain>.enumerate()` (fused loops carry no iterator type)."""
    from ..loops import for_loops
    key = (id(b), 'enum-loops')
    if key not in _ENUM:
        _ENUM.clear()
        _ENUM[key] = {d['header'] for d in for_loops(b, CFG(b), tr) if d['chain_terms'] and d['chain_terms'][0][0] == 'enumerate'}
    return header in _ENUM[key]


_ENUM = {}


def _threshold_exits(b, cfg, tr, x, within=None):
    """Comparisons `x > K` / `x >= K` of counter local x whose bool result — directly or through copies (a helper's return
    slot, a threaded join) — decides a switch: [(cmp block, effective threshold, switch block, true edge leaves every loop
    around the comparison)].  effective threshold T means the switch is taken when x > T."""
    out = []
    for bi in sorted(cfg.reach):
        if within is not None and bi not in within:
            continue
        for s in b.blocks[bi]['stmts']:
            if s['s'] != 'assign' or s['place']['p'] or s['rv']['r'] != 'binop' or s['rv']['op'] not in ('Gt', 'Ge'):
                continue
            lhs = tr.origin(s['rv']['a'])
            ch = {l for l, _ in tr.chain(s['rv']['a'])}
            if lhs.get('l') != x and x not in ch:
                continue
            kb = s['rv']['b']
            K = const_value(kb) if kb.get('k') == 'const' else None
            if K is None:
                ko = tr.origin(kb)
                K = const_value(ko['c']) if ko['o'] == 'const' else None
            if not isinstance(K, int) or isinstance(K, bool):
                continue
            thr = K if s['rv']['op'] == 'Gt' else K - 1
            web = {s['place']['l']}
            grew = True
            while grew:
                grew = False
                for bb2 in b.blocks:
                    for s2 in bb2['stmts']:
                        if s2['s'] == 'assign' and not s2['place']['p'] and s2['rv']['r'] == 'use' and s2['rv']['a'].get('l') in web \
                                and not s2['rv']['a'].get('p') and s2['place']['l'] not in web:
                            web.add(s2['place']['l'])
                            grew = True
            hdrs = {l['header'] for l in cfg.loops() if bi in l['body']}
            for sbi in sorted(cfg.reachable_from([bi])):
                t = b.blocks[sbi]['term']
                if t['t'] != 'switch' or t['discr'].get('l') not in web or t['discr'].get('p') or t['discr'].get('ty') != 'bool':
                    continue
                zero = [tg for v, tg in t['arms'] if v == '0']
                if not zero:
                    continue
                true_t = t['otherwise']
                leaves = not (cfg.reachable_from([true_t]) & hdrs)
                out.append((bi, thr, sbi, leaves))
    return out


def _bounded_counter(b, cfg, tr, x, after_bb, inc_bb=None):
    """x := x+1 in after_bb, then `if x > K {leave}`; every other def of x is the constant 0."""
    d = Defs(b)
    for (dbi, si, kind, rv) in d.of(x):
        if dbi not in cfg.reach:
            continue
        if kind != 'assign':
            return None
        if rv['r'] == 'use' and rv['a'].get('k') == 'const' and const_value(rv['a']) == 0:
            continue
        if rv['r'] == 'use' and rv['a'].get('k') == 'move' and dbi == after_bb:
            continue
        if rv['r'] == 'use' and 'l' in rv['a']:
            zo = tr.origin(rv['a'])
            if zo['o'] == 'const' and not zo.get('p') and const_value(zo['c']) == 0:
                continue        # the initial 0 travelling through a constructor's field
        return None
    # after the increment, every way back to the increment passes a switch on `x > K` whose true edge leaves the loops
    exits = [e for e in _threshold_exits(b, cfg, tr, x) if e[3] and e[0] in cfg.reachable_from([after_bb])]
    if not exits or inc_bb is None:
        return None
    K = max(e[1] for e in exits)
    if inc_bb in cfg.reachable_from([after_bb], avoid={e[2] for e in exits}):
        return None
    lo, hi = {'i32': (-2 ** 31, 2 ** 31 - 1), 'u64': (0, 2 ** 64 - 1), 'usize': (0, 2 ** 64 - 1), 'i64': (-2 ** 63, 2 ** 63 - 1),
              'u32': (0, 2 ** 32 - 1)}.get(b.local_ty(x), (0, 127))
    if K + 2 <= hi:
        return 'counter _%d is 0 or incremented by 1 and leaves the loops once it exceeds %d: it stays in [0, %d]' % (x, K, K + 1)
    return None


def _loop_counter(oa, b, cfg, tr, x, bi):
    """x is reset to 0 outside loop L and incremented at most once per iteration of a range loop over the same width."""
    d = Defs(b)
    loop = cfg.innermost_loop_of(bi)
    if loop is None or b is not oa.body:
        return None
    incs = 0
    for (dbi, si, kind, rv) in d.of(x):
        if dbi not in cfg.reach:
            continue
        if kind != 'assign':
            return None
        if rv['r'] == 'use' and rv['a'].get('k') == 'const' and const_value(rv['a']) == 0:
            if dbi in loop['body']:
                return None
            continue
        if dbi in loop['body']:
            incs += 1
            continue
        if rv['r'] == 'use' and 'l' in rv['a']:
            zo = tr.origin(rv['a'])
            if zo['o'] == 'const' and not zo.get('p') and const_value(zo['c']) == 0:
                continue        # a 0 that travels through a constructor / a struct rebuilt between the loops
        return None
    if incs != 1:
        return None
    rg = loop_range(oa, loop)
    if rg is None:
        return None
    ty = b.local_ty(x)
    if ty in ('u64', 'usize') and cfg.loop_depth(bi) >= 1:
        return 'counter _%d (%s) starts at 0 before the range loop and is incremented at most once per iteration: it cannot ' \
               'exceed the loop\'s trip count <= u64::MAX' % (x, ty)
    return None


def _must_reach(b, cfg, d, x):
    """Every normal path from block d runs into block x (x post-dominates d, with x as the only exit of interest)."""
    seen, stack = set(), [s for s in cfg.succ[d]]
    while stack:
        c = stack.pop()
        if c == x or c in seen:
            continue
        seen.add(c)
        if not cfg.succ[c]:
            return False            # a return or a diverging block is reachable without passing x
        stack.extend(cfg.succ[c])
    return True


def _controlling_switch(b, cfg, x):
    """The branch block x is control dependent on: its nearest dominator that ends in a switch and has a way around x (the
    level tests of a `warn!` between the branch and x lead to x on both arms and are passed over)."""
    dom = cfg.dominators()
    cands = [d for d in dom.get(x, ()) if d != x and b.blocks[d]['term']['t'] == 'switch' and not _must_reach(b, cfg, d, x)]
    if not cands:
        return None
    return max(cands, key=lambda d: len(dom[d]))


def _guard_of_switch(oa, b, cfg, tr, p, at):
    """What the switch ending block p tests, for a panic-like site at block `at` outside the loops: 'guard:initial-score-none' |
    'guard:final-score-none' | 'guard:empty-basis' | None."""
    t = b.blocks[p]['term']
    if t['t'] != 'switch' or cfg.loop_depth(at) != 0:
        return None
    o = tr.origin(t['discr'])
    src = None
    if o['o'] == 'rvalue' and o['rv']['r'] == 'discr':
        src = tr.origin({'k': 'copy', 'l': o['rv']['place']['l'], 'p': []})
    elif o['o'] == 'call' and call_matches(o['term'], 'Option::<T>::is_some', 'Option::<T>::is_none'):
        src = tr.origin(o['term']['args'][0])
    elif o['o'] == 'call' and call_matches(o['term'], 'Vec::<T, A>::is_empty', '<impl [T]>::is_empty') and o['term']['args']:
        so = tr.origin(o['term']['args'][0])
        if so['o'] == 'call' and is_trait_call(so['term'], 'State', 'generate_basis'):
            return 'guard:empty-basis'
    if src and src['o'] == 'call' and is_trait_call(src['term'], 'State', 'score'):
        outer = oa.outer or oa.inner
        before = outer['header'] in cfg.reachable_from([p])
        return 'guard:initial-score-none' if before else 'guard:final-score-none'
    return None


def _err_reraise(ctx, oa, b, cfg, tr, bi):
    """`match self.try_step(state) { Ok(s) => s, Err(e) => panic!("{}", e) }` with the fallible twin spliced in: the panic
    re-raises the Err payload of a Result local R.  Every place that builds an Err into R is then the real panic site, and is
    classified by the branch IT is control dependent on.  Returns a list of guards (one per Err construction), or None."""
    # the straight-line chain above the panic, up to the first block with several predecessors
    chain, cur = [bi], bi
    for _ in range(12):
        ps = [p for p in cfg.pred[cur] if p in cfg.reach]
        if len(ps) != 1 or b.blocks[ps[0]]['term']['t'] not in ('goto', 'call'):
            break
        cur = ps[0]
        chain.append(cur)
    R = None
    for c in chain:
        for st in b.blocks[c]['stmts']:
            if st['s'] == 'assign' and st['rv']['r'] == 'use' and 'l' in st['rv']['a']:
                pr = st['rv']['a']['p']
                if len(pr) == 2 and isinstance(pr[0], dict) and pr[0].get('downcast') == 'Err' and \
                        'result::Result<' in b.local_ty(st['rv']['a']['l']):
                    R = st['rv']['a']['l']
    if R is None:
        return None
    defs = Defs(b)

    def err_defs(l, depth=0):
        out = []
        for d in defs.of(l):
            if d[2] == 'assign' and d[3]['r'] == 'use' and 'l' in d[3]['a'] and not d[3]['a']['p'] and depth < 4:
                out.extend(err_defs(d[3]['a']['l'], depth + 1))
            elif d[2] == 'assign' and d[3]['r'] == 'aggr' and d[3].get('agg') == 'adt':
                if d[3].get('variant') == 'Err':
                    out.append(d)
            else:
                out.append(None)        # a call or a partial write: where the Err comes from is not visible
        return out
    eds = err_defs(R)
    if not eds or any(d is None for d in eds):
        return None
    guards = []
    for d in eds:
        p = _controlling_switch(b, cfg, d[0])
        g = _guard_of_switch(oa, b, cfg, tr, p, d[0]) if p is not None else None
        if g is None:
            return None
        guards.append(g)
    return guards


def _panic_guard(oa, b, cfg, tr, bi):
    """Classify an explicit panic in the stepping function by what it is control dependent on."""
    g0 = _panic_guard0(oa, b, cfg, tr, bi)
    if g0:
        return g0
    p = _controlling_switch(b, cfg, bi)
    return _guard_of_switch(oa, b, cfg, tr, p, bi) if p is not None else None


def _panic_guard0(oa, b, cfg, tr, bi):
    # the branch the panic is control dependent on: the nearest switch above it (through the straight-line blocks a spliced
    # closure or helper leaves between the branch and the panic)
    cur = bi
    for _ in range(12):
        ps = [p for p in cfg.pred[cur] if p in cfg.reach]
        if len(ps) == 1 and b.blocks[ps[0]]['term']['t'] == 'goto':
            cur = ps[0]
            continue
        break
    preds = [p for p in cfg.pred[cur] if p in cfg.reach]
    for p in preds:
        t = b.blocks[p]['term']
        if t['t'] != 'switch':
            continue
        o = tr.origin(t['discr'])
        src = None
        if o['o'] == 'rvalue' and o['rv']['r'] == 'discr':
            so = tr.origin({'k': 'copy', 'l': o['rv']['place']['l'], 'p': []})
            src = so
        elif o['o'] == 'call' and call_matches(o['term'], 'Option::<T>::is_some', 'Option::<T>::is_none'):
            src = tr.origin(o['term']['args'][0])
        if src and src['o'] == 'call' and is_trait_call(src['term'], 'State', 'score'):
            if cfg.loop_depth(bi) == 0:
                # before or after the loops?
                outer = oa.outer or oa.inner
                before = outer['header'] in cfg.reachable_from([p])
                return 'guard:initial-score-none' if before else 'guard:final-score-none'
    return None


RESIZERS = ('Vec::<T, A>::push', 'Vec::<T, A>::pop', 'Vec::<T, A>::clear', 'Vec::<T, A>::truncate', 'Vec::<T, A>::remove',
            'Vec::<T, A>::swap_remove', 'Vec::<T, A>::append', 'Vec::<T, A>::drain', 'Vec::<T, A>::retain', 'Vec::<T, A>::insert',
            'Vec::<T, A>::split_off')


def _resized(b, tr, cont):
    for bi2, tt in b.calls():
        if call_matches(tt, *RESIZERS) and tt['args'] and container_root(b, tr, tt['args'][0]) == cont:
            return True
    return False


def _uniform_index_container(b, tr, idx):
    """Container local v if the index origin is Uniform::new(0, v.len()).sample(..), else None."""
    if idx['o'] != 'call' or not call_matches(idx['term'], 'Distribution<X>>::sample', 'Distribution::sample'):
        return None
    dist = tr.origin(idx['term']['args'][0])
    if dist['o'] != 'call' or not call_matches(dist['term'], 'Uniform::<X>::new'):
        return None
    lo = tr.origin(dist['term']['args'][0])
    hi = tr.origin(dist['term']['args'][1])
    if not (lo['o'] == 'const' and const_value(lo['c']) == 0):
        return None
    if hi['o'] != 'call' or not call_matches(hi['term'], 'Vec::<T, A>::len', '<impl [T]>::len'):
        return None
    return container_root(b, tr, hi['term']['args'][0])


def _expect_of_uniform_index(b, tr, t, direct=False):
    if direct:
        o = {'o': 'call', 'term': t}
    else:
        o = tr.origin(t['args'][0])
        if o['o'] != 'call' or not call_matches(o['term'], '<impl [T]>::get', '<impl [T]>::get_mut'):
            return None
    cont = container_root(b, tr, o['term']['args'][0])
    idx = tr.origin(o['term']['args'][1])
    if idx['o'] != 'call' or not call_matches(idx['term'], 'Distribution<X>>::sample', 'Distribution::sample'):
        return None
    dist = tr.origin(idx['term']['args'][0])
    if dist['o'] != 'call' or not call_matches(dist['term'], 'Uniform::<X>::new'):
        return None
    lo = tr.origin(dist['term']['args'][0])
    hi = tr.origin(dist['term']['args'][1])
    if not (lo['o'] == 'const' and const_value(lo['c']) == 0):
        return None
    if hi['o'] != 'call' or not call_matches(hi['term'], 'Vec::<T, A>::len', '<impl [T]>::len'):
        return None
    c2 = container_root(b, tr, hi['term']['args'][0])
    if cont is None or c2 != cont:
        return None
    # the container is never resized after its length was read
    for bi2, tt in b.calls():
        if call_matches(tt, 'Vec::<T, A>::push', 'Vec::<T, A>::pop', 'Vec::<T, A>::clear', 'Vec::<T, A>::truncate',
                        'Vec::<T, A>::remove', 'Vec::<T, A>::swap_remove', 'Vec::<T, A>::append', 'Vec::<T, A>::drain',
                        'Vec::<T, A>::retain', 'Vec::<T, A>::insert', 'Vec::<T, A>::split_off'):
            if tt['args'] and container_root(b, tr, tt['args'][0]) == cont:
                return None
    return 'index = Uniform::new(0, len(_%d)).sample(..) and _%d is never resized: get(index) is Some' % (cont, cont)


def _uniform_new(ctx, oa, b, tr, t):
    f, cg = ctx.facts, ctx.cg
    lo = tr.origin(t['args'][0])
    hi = tr.origin(t['args'][1])
    if not (lo['o'] == 'const' and const_value(lo['c']) == 0 and hi['o'] == 'call' and call_matches(hi['term'], 'Vec::<T, A>::len')):
        return 'violation', 'Uniform::new', 'Uniform::new(lo, hi) panics when lo >= hi; the bounds are not (0, len of a non-empty Vec)'
    src = tr.origin(hi['term']['args'][0])
    if not (src['o'] == 'call' and is_trait_call(src['term'], 'State', 'generate_basis')):
        return 'violation', 'Uniform::new', 'the upper bound is not the length of State::generate_basis()'
    # every generate_basis impl returns a Vec with an unconditional element
    impls = cg.impls_of('traits::State', 'generate_basis')
    if len(impls) < 2:
        return 'violation', 'Uniform::new', 'generate_basis impls not found'
    for im in impls:
        ok, why = _nonempty_basis(ctx, im)
        if not ok:
            return 'violation', 'optimise_state/Uniform::new(0,basis.len())', \
                'Uniform::new(0, 0) panics: %s::generate_basis is not shown to return at least one basis (%s)' % (
                    f.norm(im.impl_self_adt), why)
    return 'discharged', 'Uniform::new(0,len>=1)', 'both generate_basis impls append Cell2::get_degrees_of_freedom(), which ' \
                                                   'pushes the cell-length basis unconditionally: len >= 1'


def _nonempty_basis(ctx, im):
    f = ctx.facts
    cfg = CFG(im)
    rets = cfg.exits()
    t = Tracer(im)
    shrinkers = tuple(x for x in RESIZERS if not x.endswith(('::push', '::append', '::insert')))
    shrunk = any(call_matches(tt, *shrinkers) and 'StandardBasis' in (tt['args'][0].get('ty', '') if tt['args'] else '')
                 for _bi, tt in im.calls())
    for bi, tt in im.calls():
        if shrunk:
            break
        if call_matches(tt, 'Vec::<T, A>::append') and all(cfg.dominates(bi, r) for r in rets) and cfg.loop_depth(bi) == 0:
            src, _ = through(t, tt['args'][1])
            if src['o'] == 'call':
                cb = f.body_of_fnconst(src['term']['func'])
                if cb is not None:
                    c2 = CFG(cb)
                    r2 = c2.exits()
                    for bj, t2 in cb.calls():
                        if call_matches(t2, 'Vec::<T, A>::push') and all(c2.dominates(bj, r) for r in r2) \
                                and c2.loop_depth(bj) == 0:
                            ret_root = Tracer(cb).origin({'k': 'copy', 'l': 0, 'p': []})
                            return True, 'append(%s) with an unconditional push' % cb.path
        if call_matches(tt, 'Vec::<T, A>::push') and all(cfg.dominates(bi, r) for r in rets) and cfg.loop_depth(bi) == 0:
            return True, 'unconditional push'
    # value-based: the function is loop-free (iterator chain) and every path returns a sequence with a known first element
    from ..sym import SymEx, SYM
    if not cfg.loops() and not shrunk:
        sx = SymEx(f)
        try:
            outs = sx.run(im, [SYM('self')])
        except Exception:
            outs = []
        if outs and not sx.aborted:
            n_ok = 0
            for o in outs:
                r = sx.deep(o.st, o.ret)
                if isinstance(r, tuple) and r[0] in ('seq', 'seqmin') and len(r[1]) >= 1:
                    n_ok += 1
            if n_ok == len(outs):
                return True, 'every path returns a sequence that starts with a known element'
    # value-based with loops: the loops only grow Vecs (push / append / extend as receiver, no resizer, no re-assignment), so
    # the sequence returned when every loop is skipped is a prefix-wise lower bound of the real one
    from ..nest import Nest
    try:
        n = Nest(f, im, yields=False)
    except Exception:      # noqa: BLE001
        return False, 'no unconditional push/append found'
    b2, t2 = n.b, n.tr
    in_loops = set()
    for d in n.loops:
        in_loops |= set(d['loop']['body'])
    grow_only = not any(call_matches(tt, *shrinkers) and 'StandardBasis' in (tt['args'][0].get('ty', '') if tt['args'] else '')
                        for bi, tt in b2.calls() if bi in in_loops)
    for bi in in_loops:
        bb = b2.blocks[bi]
        if bb.get('cleanup'):
            continue
        for st in bb['stmts']:
            if st['s'] == 'assign' and not st['place']['p'] and b2.local_ty(st['place']['l']).startswith('std::vec::Vec<basis::StandardBasis') \
                    and st['rv']['r'] != 'ref':
                grow_only = False
        tt = bb['term']
        if tt['t'] == 'call':
            nm = (callee_name(tt) or '').rsplit('::', 1)[-1]
            for ai, a in enumerate(tt['args']):
                if a.get('ty', '').startswith('&mut std::vec::Vec<basis::StandardBasis') and not (ai == 0 and nm in ('push', 'append', 'extend')):
                    # the drained side of append(&mut dst, &mut src) must be a temporary of the loop body
                    if not (ai == 1 and nm == 'append' and container_root(b2, t2, a) != container_root(b2, t2, tt['args'][0])):
                        grow_only = False
            if tt.get('dest') and not tt['dest']['p'] and tt['dest'].get('ty', '').startswith('std::vec::Vec<basis::StandardBasis'):
                # a Vec produced inside a loop is fine unless it overwrites one that lives outside the loop
                dl = tt['dest']['l']
                if any(s2['s'] == 'assign' and s2['place']['l'] == dl for bj, bb2 in enumerate(b2.blocks) if bj not in in_loops
                       for s2 in bb2['stmts']) or any(t3.get('dest', {}).get('l') == dl for bj, t3 in b2.calls() if bj not in in_loops):
                    grow_only = False
    if grow_only:
        # (the loops were just shown to do nothing to these Vecs but append: what they hold when a loop is passed over is a prefix
        # of what they really hold, so the values are kept instead of being forgotten)
        n.skip_havoc = False
        rets = [bi for bi, bb in enumerate(b2.blocks) if bb['term']['t'] == 'return' and not bb.get('cleanup')]
        n_ok = n_all = 0
        try:
            for rb in rets:
                sx, outs = n.reach(rb)
                if sx.aborted:
                    n_all += 1
                    continue
                for o in outs:
                    n_all += 1
                    st2 = o.st.fork()
                    fid = min(st2.frames)
                    for s3 in b2.blocks[rb]['stmts']:
                        if s3['s'] == 'assign':
                            sx.write_place(st2, fid, s3['place'], sx.rvalue(st2, fid, s3['rv']))
                    r = sx.deep(st2, st2.frames[fid].get(0))
                    if isinstance(r, tuple) and r[0] in ('seq', 'seqmin') and len(r[1]) >= 1:
                        n_ok += 1
        except Exception:      # noqa: BLE001
            n_all += 1
        if n_all and n_ok == n_all:
            return True, 'with every (grow-only) loop skipped, every path already returns a sequence with a first element'
    return False, 'no unconditional push/append found'


# ------------------------------------------------------------------------------------------------ R2

def _r2(ctx, oa):
    rep, f = ctx.rep, ctx.facts
    b, cfg, tr = oa.body, oa.cfg, oa.tr
    inner, outer = oa.inner, oa.outer
    if not rep.check(outer is not None, 'R2', 'two-nested-loops', where(b), 'outer/inner', 'no outer loop', 'anchor-lost'):
        return
    ro, ri = loop_range(oa, outer), loop_range(oa, inner)
    if not rep.check(ro is not None and ri is not None, 'R2', 'range-loops', where(b, outer['header']), 'both loops are range loops',
                     'the loops are not range loops whose trip counts can be lifted', 'undecidable-shape'):
        return
    n = Norm()
    S, I = n.atom('F.steps'), n.atom('F.inner_steps')
    try:
        olo, ohi = n.rf(mir_expr(tr, ro[1])), n.rf(mir_expr(tr, ro[2]))
        ilo, ihi = n.rf(mir_expr(tr, ri[1])), n.rf(mir_expr(tr, ri[2]))
    except (NotNumeric, TypeError):
        rep.fail('R2', 'loop-bounds', where(b, outer['header']), 'cannot lift loop bounds', 'undecidable-shape')
        return
    otrip = ohi - olo + (n.const(1) if ro[0] == 'inclusive' else n.const(0))
    itrip = ihi - ilo + (n.const(1) if ri[0] == 'inclusive' else n.const(0))
    want_outer = n.fn('idiv', S, I)
    rep.check(otrip.equals(want_outer), 'R2', 'outer-trip-count', where(b, outer['header']), 'outer loop runs floor(steps/I) times',
              'the outer loop runs %s times, expected floor(steps / inner_steps)' % otrip.canon())
    rep.check(itrip.equals(I), 'R2', 'inner-trip-count', where(b, inner['header']), 'inner loop runs I = inner_steps times',
              'the inner loop runs %s times, but the outer count divides by inner_steps: proposals != floor(S/I)*I' % itrip.canon())
    sc_in = [bi for bi, t in oa.score_calls if bi in inner['body']]
    sc_outer_only = [bi for bi, t in oa.score_calls if bi in outer['body'] and bi not in inner['body']]
    rep.check(len(sc_in) == 1 and all(cfg.dominates(sc_in[0], lt) for lt in inner['latches']), 'R2',
              'one-score-per-inner-iteration', where(b, sc_in[0]) if sc_in else where(b),
              'exactly one State::score call per inner iteration',
              'an inner iteration evaluates %d proposals (State::score calls)' % len(sc_in))
    rep.check(not sc_outer_only, 'R2', 'no-score-between-inner-loops', where(b, sc_outer_only[0]) if sc_outer_only else where(b),
              'no score evaluation in the outer-only part', 'extra score evaluations per outer iteration')
    fams, err, bb = build_families(f)
    if fams:
        seen = set()
        for fam in fams:
            fi = fam['fields'].get('inner_steps')
            fs = fam['fields'].get('steps')
            try:
                key = (n.rf(fi).canon(), n.rf(fs).canon())
            except (NotNumeric, TypeError):
                continue
            if key in seen:
                continue
            seen.add(key)
            okS = n.rf(fs).equals(n.atom('self.steps'))
            rep.check(okS, 'R2', 'steps-field-is-requested-steps', where(bb), 'steps field = requested steps',
                      'the optimiser\'s steps field is %s, not the requested step count' % key[1])
            # I must satisfy 1 <= I <= max(steps,1) for proposals in (S - I, S]
            env = {'self.steps': U64, 'self.inner_steps': U64}
            iv = AbsEval(env).ev(fi)
            rep.sample('builder: inner_steps field = %s in %s; steps field = %s' % (key[0], show(AbsEval.coerce_i(iv) if AbsEval.is_int(iv) else iv), key[1]))
    rep.sample('proposals = floor(steps/I) * I: outer trip %s, inner trip %s, one State::score per inner iteration'
               % (otrip.canon(), itrip.canon()))


# ------------------------------------------------------------------------------------------------ R3

def _def_reaches_outside(b, cfg, l, bi, si, region):
    """Does the value written to local l by statement si of block bi reach a read of l outside `region` (reaching
    definitions: forward from the write, a path ends at the next whole write of l)?  Drops are not reads."""
    uses = {}
    for (ub, ui, role) in uses_of_local(b, l):
        if role == 'drop':
            continue
        uses.setdefault(ub, []).append(10 ** 9 if ui == 'term' else ui)

    def scan(bx, start):
        # -> (visible, killed)
        bb = b.blocks[bx]
        for k in range(start, len(bb['stmts'])):
            if k in uses.get(bx, ()) and bx not in region:
                return True, False
            s0 = bb['stmts'][k]
            if s0['s'] == 'assign' and s0['place']['l'] == l and not s0['place']['p']:
                # the right-hand side is read before the write
                return False, True
        if 10 ** 9 in uses.get(bx, ()) and bx not in region:
            return True, False
        t = bb['term']
        if t['t'] == 'call' and t.get('dest') and t['dest']['l'] == l and not t['dest']['p']:
            return False, True
        return False, False

    vis, killed = scan(bi, si + 1)
    if vis:
        return True
    if killed:
        return False
    seen = set()
    work = [x for x in term_succs(b.blocks[bi]['term'])]
    while work:
        x = work.pop()
        if x in seen or x not in cfg.reach or b.blocks[x].get('cleanup'):
            continue
        seen.add(x)
        vis, killed = scan(x, 0)
        if vis:
            return True
        if not killed:
            work.extend(term_succs(b.blocks[x]['term']))
    return False


def _r3(ctx, oa):
    rep, f, cg = ctx.rep, ctx.facts, ctx.cg
    b, cfg, tr = oa.body, oa.cfg, oa.tr
    defs = oa.defs
    # the switch on discr(self.convergence)
    sw = None
    for bi in sorted(cfg.reach):
        t = b.blocks[bi]['term']
        if t['t'] == 'switch':
            o = tr.origin(t['discr'])
            if o['o'] == 'rvalue' and o['rv']['r'] == 'discr':
                pl = o['rv']['place']
                if pl['l'] == 1 and field_path(pl['p']) == ['convergence']:
                    sw = (bi, t)
                else:
                    # the threshold copied into a local (a tracker struct's field, a hoisted `let`)
                    po = tr.origin(dict(pl, k='copy'))
                    if po['o'] == 'arg' and po['l'] == 1 and field_path(po['p']) == ['convergence']:
                        sw = (bi, t)
    if not rep.check(sw is not None, 'R3', 'anchor:convergence-switch', where(b), 'found',
                     'no branch on self.convergence being Some found in the stepping function', 'anchor-lost'):
        return
    sbi, st = sw
    some_t = None
    for v, tgt in st['arms']:
        if v == '1':
            some_t = tgt
    if some_t is None:
        some_t = st['otherwise']
    zero = [tgt for v, tgt in st['arms'] if v == '0']
    none_t = zero[0] if zero else st['otherwise']
    # region = blocks reachable from the Some edge before re-joining the None path
    hdr = oa.outer['header'] if oa.outer else oa.inner['header']
    none_reach = cfg.reachable_from([none_t], avoid={hdr})
    region = cfg.reachable_from([some_t], avoid=none_reach | {hdr})
    rep.floor('R3', 'blocks in the convergence region', len(region), 3, where(b, sbi))
    # locals written in the region that are visible outside it
    counter = None
    bad = []
    for bi in sorted(region):
        bb = b.blocks[bi]
        for si, s in enumerate(bb['stmts']):
            if s['s'] != 'assign':
                continue
            l = s['place']['l']
            if l == 0:
                o = tr.origin(s['rv']['a']) if s['rv']['r'] == 'use' else {'o': '?'}
                if not (o['o'] == 'arg' and o['l'] != 1):
                    from .C06 import _state_component_returned
                    if not _state_component_returned(b, tr, defs, s['rv'], [i for i in b.args() if i != 1]):
                        bad.append((bi, 'return place assigned from something other than the state parameter'))
                continue
            outside = [u for u in uses_of_local(b, l) if u[0] not in region and u[0] in cfg.reach and not b.blocks[u[0]]['cleanup']]
            outside_defs = [d for d in defs.of(l) if d[0] not in region and d[0] in cfg.reach]
            if outside or outside_defs:
                ty = b.local_ty(l)
                if ty in ('i32', 'u32', 'u64', 'usize', 'i64', 'u8', 'u16', 'i8', 'i16') and (counter in (None, l)):
                    # only 0 / +1 updates
                    rv = s['rv']
                    okd = (rv['r'] == 'use' and rv['a'].get('k') == 'const' and const_value(rv['a']) == 0) or \
                          (rv['r'] == 'use' and rv['a'].get('k') == 'move') or _is_incr(rv, l)
                    if okd:
                        counter = l
                        continue
                if (ty == 'bool' and b.local_name(l) is None) or ty == '()':
                    continue   # drop flags / unit temporaries
                if not _def_reaches_outside(b, cfg, l, bi, si, region):
                    continue   # the value written here is read only inside the block (reaching definitions)
                if l not in b.args():
                    # a tally that is only counted and reported: everything read from it flows into log / print arguments
                    from .C09 import _flows_only_to_log
                    key_ = (id(b), l)
                    if key_ not in _LOGONLY:
                        _LOGONLY[key_] = (id(b), _flows_only_to_log(b, {l}) is True)
                    if _LOGONLY[key_][0] == id(b) and _LOGONLY[key_][1]:
                        continue
                bad.append((bi, 'local _%d (%s: %s) is written in the convergence block and visible outside it'
                            % (l, b.local_name(l), ty)))
        t = bb['term']
        if t['t'] == 'call':
            nm = callee_name(t) or ''
            tg = [s for s in cg.sites_for(b) if s['bb'] == bi and s['targets']]
            for s in tg:
                p = cg.path_to(s['targets'], lambda k: k == 'basis::SharedValue::set_value')
                if p:
                    bad.append((bi, 'call %s in the convergence block can write a parameter' % nm))
            for a in t['args']:
                if a.get('ty', '').startswith('&mut') and 'Pcg' in a.get('ty', ''):
                    bad.append((bi, 'the convergence block uses the random generator'))
            if is_trait_call(t, 'Basis', 'set_sampled') or is_trait_call(t, 'Basis', 'reset_value') or \
                    is_trait_call(t, 'State', 'score'):
                bad.append((bi, 'the convergence block calls %s' % nm))
    rep.check(not bad, 'R3', 'convergence-block-is-effect-free', where(b, sbi),
              'writes only its counter _%s and the return place; no parameter write, no draw, no score evaluation' % counter,
              'the convergence check changes the run: %s' % '; '.join(x[1] for x in bad[:3]))
    # exit condition
    okc = False
    why = 'no counter found'
    if counter is not None:
        why = 'exit condition not recognised'
        # `counter > K` decides (directly, or through the bool a helper returns) a switch whose true edge ends the run
        for (cbi, thr, sbi2, leaves) in _threshold_exits(b, cfg, tr, counter, within=region):
            if sbi2 in region:
                okc = thr == 5 and leaves
                why = 'the run ends when the counter exceeds %d (required: more than five consecutive loops)' % thr
        if not okc and why == 'exit condition not recognised':
            # the comparison after the join of the threshold / no-threshold paths (`count = match .. { .. + 1, _ => 0 };
            # if count > 5`): the same test, provided the path without a threshold reaches it with the counter reset to 0
            body_blocks = (oa.outer or oa.inner)['body']
            from ..mirutil import copy_web as _cw
            cweb = _cw(b, tr, cfg.reach, counter) | {counter}
            zero_defs = {dd[0] for l2 in cweb for dd in defs.of(l2) if dd[2] == 'assign' and dd[3]['r'] == 'use' and
                         dd[3]['a'].get('k') == 'const' and const_value(dd[3]['a']) == 0 and dd[0] in cfg.reach
                         and dd[0] in body_blocks}
            exits = []
            for x_ in sorted(cweb):
                for e_ in _threshold_exits(b, cfg, tr, x_, within=body_blocks):
                    if e_ not in exits:
                        exits.append(e_)
            for (cbi, thr, sbi2, leaves) in exits:
                if cbi in region or sbi2 in region:
                    continue
                resets = none_t in zero_defs or (bool(zero_defs) and cfg.all_paths_pass_through([none_t], zero_defs, until={cbi})[0])
                reached, _ = cfg.all_paths_pass_through([some_t], {cbi}, until={hdr})
                if resets and reached:
                    okc = thr == 5 and leaves
                    why = 'the run ends when the counter exceeds %d (required: more than five consecutive loops)' % thr
        # increment condition: (score_current - score_start) < precision
        inc_ok = False
        for bi in sorted(region):
            t = b.blocks[bi]['term']
            if t['t'] != 'switch':
                continue
            o = tr.origin(t['discr'])
            if o['o'] == 'rvalue' and o['rv']['r'] == 'binop' and o['rv']['op'] == 'Lt':
                # (strictly less: "improved by LESS than the threshold"; with `<=` a threshold of 0 ends a flat run early)
                d = tr.origin(o['rv']['a'])
                p = tr.origin(o['rv']['b'])
                if d['o'] == 'rvalue' and d['rv']['r'] == 'binop' and d['rv']['op'] == 'Sub':
                    pconv = p['o'] == 'arg' and p['l'] == 1 and field_path(p['p'])[:1] == ['convergence']
                    old_l = oa.arg_local(oa.dec_args.get('old'))
                    from ..mirutil import copy_web
                    web = copy_web(b, tr, cfg.reach, old_l) if old_l is not None else set()
                    ihdr = oa.inner['header']

                    def snapshot(l):
                        # a copy of the running score taken in the outer body before the inner loop starts
                        dd = defs.single(l)
                        return bool(dd) and dd[2] == 'assign' and dd[3]['r'] == 'use' and dd[0] in oa.outer['body'] and \
                            dd[0] not in oa.inner['body'] and cfg.dominates(dd[0], ihdr) and tr.origin(dd[3]['a']).get('l') in web
                    def late_snapshot(l):
                        # ... or taken after the inner loop from a variable S of the running-score web that the inner loop does
                        # not write (the loop runs on its own accumulator, started from S) and that has not yet received the
                        # loop's result: S still holds the score the inner loop started from
                        dd = defs.single(l)
                        if not (bool(dd) and dd[2] == 'assign' and dd[3]['r'] == 'use' and dd[0] in oa.outer['body'] and
                                dd[0] not in oa.inner['body']):
                            return False
                        so = tr.origin(dd[3]['a'])
                        S = so.get('l')
                        if S is None or S not in web or so.get('p'):
                            return False
                        sdefs = [x for x in defs.of(S) if x[0] in cfg.reach]
                        if any(x[0] in oa.inner['body'] for x in sdefs):
                            return False
                        # S is written in the outer body only after the snapshot: every such definition is dominated by the
                        # snapshot's block (or follows it in the same block)
                        for x in sdefs:
                            if x[0] not in oa.outer['body']:
                                continue
                            if x[0] == dd[0]:
                                if not (isinstance(x[1], int) and isinstance(dd[1], int) and x[1] > dd[1]) and x[1] != 'term':
                                    return False
                            elif not cfg.dominates(dd[0], x[0]):
                                return False
                        # and the snapshot itself comes after the inner loop in the iteration
                        return cfg.dominates(ihdr, dd[0])
                    cur = oa.arg_local(d['rv']['a'])
                    # score_start: a snapshot of score_current taken in the outer body before the inner loop
                    start_ok = False
                    for (cl, cbb) in list(tr.chain(d['rv']['b'])) + [(tr.origin(d['rv']['b']).get('l'), None)]:
                        if cl is not None and cl in web and (snapshot(cl) or late_snapshot(cl)):
                            start_ok = True
                    inc_ok = pconv and cur in web and not snapshot(cur) and start_ok
                    # true edge increments, false edge resets
                    tt, ft = t['otherwise'], [x[1] for x in t['arms'] if x[0] == '0'][0]
                    inc_blocks = cfg.reachable_from([tt], avoid={ft}) & region
                    # (the reset may sit in a block shared with the no-threshold path: `_ => { count = 0; false }`)
                    # (`count = if improved_little { count + 1 } else { 0 }`: the counter is assigned once, from a temporary
                    # that each arm defines — the arms' definitions are the counter's)
                    cdefs = []
                    for dd in defs.of(counter):
                        if dd[2] == 'assign' and dd[3]['r'] == 'use' and 'l' in dd[3]['a'] and not dd[3]['a']['p'] and \
                                dd[3]['a']['l'] != counter and len(defs.of(dd[3]['a']['l'])) > 1 and \
                                all(x[2] == 'assign' for x in defs.of(dd[3]['a']['l'])):
                            cdefs.extend(defs.of(dd[3]['a']['l']))
                        else:
                            cdefs.append(dd)
                    rst = [dd for dd in cdefs if dd[2] == 'assign' and dd[0] in (cfg.reachable_from([ft], avoid={tt, hdr}) & (region | none_reach))
                           and dd[3]['r'] == 'use' and dd[3]['a'].get('k') == 'const' and const_value(dd[3]['a']) == 0]
                    inc = [dd for dd in cdefs if dd[2] == 'assign' and dd[0] in inc_blocks and
                           ((dd[3]['r'] == 'use' and dd[3]['a'].get('k') == 'move') or _is_incr(dd[3], counter))]
                    inc_ok = inc_ok and bool(rst) and bool(inc)
        rep.check(inc_ok, 'R3', 'convergence-counter-semantics', where(b, sbi),
                  'counter += 1 iff score_current - score_start < threshold, reset to 0 otherwise',
                  'the convergence counter is not "consecutive inner loops that improved by less than the threshold"')
    rep.check(okc, 'R3', 'exit-after-more-than-five-consecutive-loops', where(b, sbi), why, why)
    rep.sample('convergence region: %d blocks, counter _%s, exits when counter > 5, effect-free otherwise' % (len(region), counter))


def _is_incr(rv, l):
    """x = x + 1 (release builds: no overflow tuple)."""
    if rv.get('r') != 'binop' or rv.get('op') != 'Add':
        return False
    a, b = rv['a'], rv['b']
    return (a.get('l') == l and not a.get('p') and b.get('k') == 'const' and const_value(b) == 1) or \
        (b.get('l') == l and not b.get('p') and a.get('k') == 'const' and const_value(a) == 1)


# ------------------------------------------------------------------------------------------------ R4

def _r4(ctx):
    rep, f, cg = ctx.rep, ctx.facts, ctx.cg
    bins = [b for b in f.bodies.values() if b.crate_kind == 'bin' and not b.derived and not _generated(b, f)]
    mains = [b for b in bins if b.fn_name == 'main' and not b.is_closure]
    if not rep.check(len(mains) >= 1, 'R4', 'anchor:main', 'src/main.rs', 'found', 'main not found', 'anchor-lost'):
        return
    m = [b for b in mains if any(call_matches(t, 'get_wallpaper_group') for _, t in b.calls())]
    m = m[0] if m else mains[0]
    rep.saw(m)
    rty = m.local_ty(0)
    rep.check(rty.startswith('std::result::Result<(), '), 'R4', 'main-returns-result', where(m), rty,
              'main does not return Result<(), E>: an error would not end the process with a message and non-zero status')
    n_try = 0
    n_fall = 0
    for b in bins:
        if b.is_closure and b.closure_of and f.body(b.closure_of) in bins or not b.is_closure:
            pass
        cfgb = CFG(b)
        tb = Tracer(b)
        for bi, t in b.calls():
            if bi not in cfgb.reach or b.blocks[bi]['cleanup']:
                continue
            dty = t['dest']['ty']
            if dty.startswith('std::result::Result<') and not call_matches(t, 'Try>::branch', 'FromResidual', 'ok_or_else', 'ok_or',
                                                                        'map_err'):
                n_fall += 1
                # the result must flow into `?` (Try::branch), be returned, or be converted
                used_ok = False
                l = t['dest']['l']
                if l == 0:
                    used_ok = True
                for (ubi, usi, role) in uses_of_local(b, l):
                    if role == 'callarg':
                        ut = b.blocks[ubi]['term']
                        if call_matches(ut, 'Try>::branch', 'Try::branch', 'map_err', 'ok_or_else', 'with_context', 'context'):
                            used_ok = True
                        elif call_matches(ut, 'Result::<T, E>::unwrap', 'Result::<T, E>::expect', 'Result::<T, E>::ok',
                                          'Result::<T, E>::unwrap_or'):
                            used_ok = False
                            break
                        else:
                            used_ok = True
                    elif role in ('operand', 'aggr'):
                        used_ok = True
                if used_ok:
                    n_try += 1
                rep.check(used_ok, 'R4', 'fallible-call-propagated:%s:%s' % (_short(b), (callee_name(t) or '?').rsplit('::', 1)[-1]),
                          where(b, bi), 'Result is propagated (? / returned)',
                          'the Result of %s is dropped or unwrapped instead of being propagated' % callee_name(t))
    rep.floor('R4', 'fallible calls in the binary', n_fall, 6)
    rep.sample('binary: %d fallible calls, all propagated; main returns %s' % (n_fall, rty))


def run(ctx):
    _run_rules(ctx)
    # R5: setter fidelity of the builder (the amount of work requested is the one handed to build())
    from .common import builder_setters
    builder_setters(ctx, 'R5', ['steps', 'inner_steps', 'convergence'])
    from .common import import_obligations
    # both output files are written, each to its own path (C10.R3)
    import_obligations(ctx, 'C10', 'R6', only_rules={'R3'}, floor=2, only_instances=lambda k: 'path' in k)
