"""Harness: fact extraction (fresh, hashed, locked), obligation bookkeeping, evidence,
known-findings protocol, VIOLATION lines."""
import fcntl
import hashlib
import importlib
import json
import os
import re
import shutil
import subprocess
import sys
import time

VERIF = os.path.dirname(os.path.dirname(os.path.abspath(__file__)))
REPO = os.environ.get('VERIF_REPO', '/repo')
CACHE = os.path.join(VERIF, '.cache')
FACTS = os.path.join(VERIF, 'facts')
DRIVER_DIR = os.path.join(VERIF, 'driver')
DRIVER_BIN = os.path.join(DRIVER_DIR, 'target', 'release', 'pkfacts')

CONFIGS = {
    # name: (cargo selectors, extra rustflags, required fact files)
    'dev': (['--lib', '--bins'], '', ['packing-lib-src_lib.json', 'packing-bin-src_main.json']),
    'rel': (['--lib', '--bins'], '-C debug-assertions=off -C overflow-checks=off',
            ['packing-lib-src_lib.json', 'packing-bin-src_main.json']),
    'tests': (['--lib', '--bins', '--tests'], '', ['packing-lib-src_lib.json', 'packing-bin-src_main.json',
                                                   'packing-test-src_lib.json']),
}


class ExtractError(Exception):
    pass


def _env():
    env = dict(os.environ)
    env['CARGO_NET_OFFLINE'] = 'true'
    env.pop('RUSTC_WRAPPER', None)
    try:
        sysroot = subprocess.check_output(['rustc', '+nightly', '--print', 'sysroot'], env=env,
                                          stderr=subprocess.DEVNULL).decode().strip().splitlines()[-1]
    except Exception as e:  # pragma: no cover
        raise ExtractError('nightly toolchain not available: %s' % e)
    env['LD_LIBRARY_PATH'] = os.path.join(sysroot, 'lib') + ':' + env.get('LD_LIBRARY_PATH', '')
    return env


def ensure_driver():
    src_files = []
    for root, _, files in os.walk(os.path.join(DRIVER_DIR, 'src')):
        for f in files:
            src_files.append(os.path.join(root, f))
    src_files.append(os.path.join(DRIVER_DIR, 'Cargo.toml'))
    newest = max(os.path.getmtime(p) for p in src_files)
    if os.path.exists(DRIVER_BIN) and os.path.getmtime(DRIVER_BIN) >= newest:
        return
    os.makedirs(CACHE, exist_ok=True)
    with open(os.path.join(CACHE, 'driver.lock'), 'w') as lk:
        fcntl.flock(lk, fcntl.LOCK_EX)
        if os.path.exists(DRIVER_BIN) and os.path.getmtime(DRIVER_BIN) >= newest:
            return
        env = _env()
        p = subprocess.run(['cargo', '+nightly', 'build', '--release', '--offline'], cwd=DRIVER_DIR, env=env,
                           stdout=subprocess.PIPE, stderr=subprocess.STDOUT)
        if p.returncode != 0:
            raise ExtractError('driver build failed:\n' + p.stdout.decode()[-3000:])
        os.utime(DRIVER_BIN, None)


def tree_hash(repo):
    h = hashlib.sha256()
    paths = []
    for sub in ('src', 'tests', 'benches', '.cargo'):
        base = os.path.join(repo, sub)
        for root, dirs, files in os.walk(base):
            dirs.sort()
            for f in sorted(files):
                paths.append(os.path.join(root, f))
    for f in ('Cargo.toml', 'Cargo.lock', 'build.rs', 'rust-toolchain', 'rust-toolchain.toml'):
        p = os.path.join(repo, f)
        if os.path.exists(p):
            paths.append(p)
    for p in paths:
        h.update(os.path.relpath(p, repo).encode())
        h.update(b'\0')
        with open(p, 'rb') as fh:
            h.update(fh.read())
        h.update(b'\0')
    st = os.stat(DRIVER_BIN)
    h.update(('%d:%d' % (st.st_size, int(st.st_mtime))).encode())
    return h.hexdigest()[:16]


def extract(config='dev', repo=None):
    """Extract facts for `repo`'s current working tree; returns the facts directory."""
    repo = repo or REPO
    ensure_driver()
    sel, extra_flags, required = CONFIGS[config]
    th = tree_hash(repo)
    tag = '%s-%s' % (th, config)
    if os.path.abspath(repo) != '/repo':
        tag = 'x' + hashlib.sha256(os.path.abspath(repo).encode()).hexdigest()[:6] + '-' + tag
    d = os.path.join(FACTS, tag)
    ok = os.path.join(d, 'OK')
    if os.path.exists(ok):
        return d
    os.makedirs(FACTS, exist_ok=True)
    os.makedirs(CACHE, exist_ok=True)
    t0 = time.time()
    with open(os.path.join(CACHE, 'extract-%s.lock' % config), 'w') as lk:
        fcntl.flock(lk, fcntl.LOCK_EX)
        if os.path.exists(ok):
            return d
        tmp = d + '.tmp%d' % os.getpid()
        shutil.rmtree(tmp, ignore_errors=True)
        os.makedirs(tmp)
        target = os.path.join(CACHE, 'target-' + config)
        # cargo's freshness cache would skip the wrapper: drop the workspace members' fingerprints
        fpdir = os.path.join(target, 'debug', '.fingerprint')
        if os.path.isdir(fpdir):
            for n in os.listdir(fpdir):
                if n.startswith('packing-'):
                    shutil.rmtree(os.path.join(fpdir, n), ignore_errors=True)
        env = _env()
        env['PKFACTS_OUT'] = tmp
        env['RUSTFLAGS'] = ('-Zmir-opt-level=0 -Awarnings ' + extra_flags).strip()
        env['RUSTC_WORKSPACE_WRAPPER'] = DRIVER_BIN
        env['CARGO_TARGET_DIR'] = target
        env['CARGO_INCREMENTAL'] = '0'
        cmd = ['cargo', '+nightly', 'check', '--offline', '-j', '16'] + sel
        p = subprocess.run(cmd, cwd=repo, env=env, stdout=subprocess.PIPE, stderr=subprocess.STDOUT)
        out = p.stdout.decode(errors='replace')
        if p.returncode != 0:
            shutil.rmtree(tmp, ignore_errors=True)
            raise ExtractError('cargo check failed (the tree does not compile?):\n' + out[-4000:])
        missing = [r for r in required if not os.path.exists(os.path.join(tmp, r))]
        if missing:
            shutil.rmtree(tmp, ignore_errors=True)
            raise ExtractError('fact files missing after extraction: %s\n%s' % (missing, out[-2000:]))
        # the resolved build graph (which features each dependency is compiled with): cargo's resolution, nothing is run
        mp = subprocess.run(['cargo', 'metadata', '--offline', '--format-version', '1'], cwd=repo, env=_env(),
                            stdout=subprocess.PIPE, stderr=subprocess.PIPE)
        if mp.returncode != 0:
            shutil.rmtree(tmp, ignore_errors=True)
            raise ExtractError('cargo metadata failed:\n' + mp.stderr.decode(errors='replace')[-2000:])
        md = json.loads(mp.stdout.decode())
        idname = {p['id']: (p['name'], p['version']) for p in md['packages']}
        graph = {'root': None, 'nodes': []}
        for n in (md.get('resolve') or {}).get('nodes', []):
            nm, ver = idname.get(n['id'], (n['id'], '?'))
            graph['nodes'].append({'name': nm, 'version': ver, 'features': sorted(n.get('features', [])),
                                   'deps': sorted(idname.get(d['pkg'], (d['pkg'], '?'))[0] for d in n.get('deps', []))})
        rid = (md.get('resolve') or {}).get('root')
        graph['root'] = idname.get(rid, (None, None))[0]
        with open(os.path.join(tmp, 'BUILD.graph'), 'w') as fh:
            json.dump(graph, fh, indent=1)
        with open(os.path.join(tmp, 'META.json'), 'w') as fh:
            json.dump({'repo': repo, 'config': config, 'tree_hash': th, 'cmd': ' '.join(cmd),
                       'rustflags': env['RUSTFLAGS'], 'wall_s': round(time.time() - t0, 2)}, fh)
        shutil.rmtree(d, ignore_errors=True)
        os.rename(tmp, d)
        with open(ok, 'w') as fh:
            fh.write('ok\n')
        _prune()
    return d


def extract_fixture(name='positive'):
    """Facts of the positive-control fixture crate (compiled by the same driver)."""
    ensure_driver()
    src = os.path.join(VERIF, 'fixtures', name)
    h = hashlib.sha256()
    for root, dirs, files in os.walk(src):
        dirs[:] = sorted(d for d in dirs if d != 'target')
        for fn in sorted(files):
            with open(os.path.join(root, fn), 'rb') as fh:
                h.update(fn.encode() + b'\0' + fh.read())
    st = os.stat(DRIVER_BIN)
    h.update(('%d:%d' % (st.st_size, int(st.st_mtime))).encode())
    d = os.path.join(FACTS, 'fixture-%s-%s' % (name, h.hexdigest()[:12]))
    ok = os.path.join(d, 'OK')
    if os.path.exists(ok):
        return d
    os.makedirs(FACTS, exist_ok=True)
    os.makedirs(CACHE, exist_ok=True)
    with open(os.path.join(CACHE, 'extract-fixture.lock'), 'w') as lk:
        fcntl.flock(lk, fcntl.LOCK_EX)
        if os.path.exists(ok):
            return d
        tmp = d + '.tmp%d' % os.getpid()
        shutil.rmtree(tmp, ignore_errors=True)
        os.makedirs(tmp)
        target = os.path.join(CACHE, 'target-fixture')
        shutil.rmtree(os.path.join(target, 'debug', '.fingerprint'), ignore_errors=True)
        env = _env()
        env['PKFACTS_OUT'] = tmp
        env['RUSTFLAGS'] = '-Zmir-opt-level=0 -Awarnings'
        env['RUSTC_WORKSPACE_WRAPPER'] = DRIVER_BIN
        env['CARGO_TARGET_DIR'] = target
        p = subprocess.run(['cargo', '+nightly', 'check', '--offline', '--lib'], cwd=src, env=env,
                           stdout=subprocess.PIPE, stderr=subprocess.STDOUT)
        if p.returncode != 0 or not any(n.endswith('.json') for n in os.listdir(tmp)):
            shutil.rmtree(tmp, ignore_errors=True)
            raise ExtractError('fixture extraction failed:\n' + p.stdout.decode(errors='replace')[-2000:])
        shutil.rmtree(d, ignore_errors=True)
        os.rename(tmp, d)
        with open(ok, 'w') as fh:
            fh.write('ok\n')
    return d


def _prune(keep=8):
    try:
        ds = [os.path.join(FACTS, n) for n in os.listdir(FACTS)]
        ds = [p for p in ds if os.path.isdir(p) and '.tmp' not in p and 'fixture-' not in p]
        ds.sort(key=os.path.getmtime, reverse=True)
        for p in ds[keep:]:
            shutil.rmtree(p, ignore_errors=True)
    except OSError:
        pass


# --------------------------------------------------------------------------------------

class Report:
    """Collects obligations for one property."""

    def __init__(self, prop, tier):
        self.prop = prop
        self.tier = tier
        self.obligations = []   # dict(rule, instance, ok, construct, why, reason)
        self.floors = []
        self.samples = []
        self.notes = []
        self.assumptions = []
        self.trusted = []
        self.analysed = set()
        self.configs = []
        self.extra = {}

    def key(self, rule, instance):
        return '%s/%s/%s' % (self.prop, rule, instance)

    def ok(self, rule, instance, construct='', why=''):
        self.obligations.append({'rule': rule, 'instance': instance, 'ok': True, 'construct': construct,
                                 'why': why, 'reason': None, 'key': self.key(rule, instance)})

    def fail(self, rule, instance, construct='', why='', reason='violation'):
        self.obligations.append({'rule': rule, 'instance': instance, 'ok': False, 'construct': construct,
                                 'why': why, 'reason': reason, 'key': self.key(rule, instance)})

    def check(self, cond, rule, instance, construct='', why_ok='', why_fail='', reason='violation'):
        if cond:
            self.ok(rule, instance, construct, why_ok)
        else:
            self.fail(rule, instance, construct, why_fail or why_ok, reason)
        return cond

    def floor(self, rule, what, count, minimum, construct=''):
        """Fail closed when a rule matches fewer instances than were confirmed by hand."""
        self.floors.append({'rule': rule, 'what': what, 'count': count, 'floor': minimum})
        if count < minimum:
            self.fail(rule, 'floor:' + what, construct,
                      'matched %d instance(s) of "%s", fewer than the %d confirmed by hand on the pinned tree: '
                      'the anchor was lost or rewritten into a shape this rule does not recognise'
                      % (count, what, minimum), reason='anchor-lost')
            return False
        self.ok(rule, 'floor:' + what, construct, '%d >= %d' % (count, minimum))
        return True

    def sample(self, s):
        if len(self.samples) < 60:
            self.samples.append(s)

    def note(self, s):
        self.notes.append(s)

    def assume(self, s):
        if s not in self.assumptions:
            self.assumptions.append(s)

    def trust(self, s):
        if s not in self.trusted:
            self.trusted.append(s)

    def saw(self, body):
        if body is not None:
            self.analysed.add(body if isinstance(body, str) else body.path)


def _selfcheck(prop, rep):
    """Thorough tier (c): the property's mutant and benign catalogue on scratch copies (static only)."""
    outp = os.path.join(VERIF, 'out', 'selfcheck-%s.json' % prop)
    os.makedirs(os.path.dirname(outp), exist_ok=True)
    env = dict(os.environ)
    env.pop('VERIF_REPO', None)
    p = subprocess.run([sys.executable, os.path.join(VERIF, 'tools', 'selfcheck.py'), 'all', '--props', prop, '-j', '12',
                        '--json', outp], cwd=VERIF, env=env, stdout=subprocess.PIPE, stderr=subprocess.STDOUT)
    try:
        with open(outp) as fh:
            r = json.load(fh)
    except (OSError, ValueError):
        rep.note('selfcheck could not be run: ' + p.stdout.decode(errors='replace')[-300:])
        sys.stderr.write('SELFCHECK-WEAK %s: runner failed\n' % prop)
        return
    mut = [x for x in r['results'] if x['kind'] == 'mutant']
    ben = [x for x in r['results'] if x['kind'] == 'benign']
    summary = 'selfcheck: killed %d/%d, silent %d/%d, broken %d' % (r['killed'], len(mut), r['silent'], len(ben), r['broken'])
    rep.extra['selfcheck'] = summary
    rep.extra['selfcheck_mutants'] = [{'id': x['id'], 'reported': x['props'].get(prop, {}).get('keys', [])[:3]} for x in mut]
    rep.extra['selfcheck_benign'] = [{'id': x['id'], 'noise': {k: v['keys'][:2] for k, v in x['props'].items() if v['rc'] != 0}}
                                     for x in ben]
    rep.note(summary)
    if r['missed'] or r['noisy'] or r['broken']:
        sys.stderr.write('SELFCHECK-WEAK %s: %s\n' % (prop, summary))


def load_known():
    p = os.path.join(VERIF, 'known_findings.json')
    if not os.path.exists(p):
        return {'known': [], 'fixed': []}
    with open(p) as fh:
        return json.load(fh)


def _san(s):
    return re.sub(r'[^A-Za-z0-9_.-]+', '_', s)[:150]


def where(body, bb=None, stmt=None):
    """file:line for a body / block terminator / statement."""
    if bb is None:
        return '%s:%d (%s)' % (body.span['file'], body.span['line'], body.path)
    blk = body.blocks[bb]
    sp = blk['term']['span'] if stmt is None else blk['stmts'][stmt]['span']
    return '%s:%d (%s bb%d)' % (sp['file'], sp['line'], body.path, bb)


def _anchor_files(prop):
    """The source files the property is anchored in (properties.jsonl, anchors.files)."""
    import json
    here = os.path.dirname(os.path.dirname(os.path.abspath(__file__)))
    try:
        for ln in open(os.path.join(here, 'properties.jsonl')):
            d = json.loads(ln)
            if d.get('id') == prop:
                return list((d.get('anchors') or {}).get('files') or [])
    except OSError:
        pass
    return []


def _wiring(ctx, prop):
    """WIRE (every property): in the files the property is anchored in, a call that passes named locals to parameters of the
    same names passes them in the parameters' positions (pk/rules/common.py::named_argument_wiring)."""
    from .rules.common import named_argument_wiring
    files = set(_anchor_files(prop))
    bodies = [b for b in ctx.facts.bodies.values() if not b.is_closure and not b.derived and (b.span or {}).get('file') in files]
    named_argument_wiring(ctx, 'WIRE', bodies, min_sites=0, what='the caller')


def run_property(prop, tier='quick', explain=None):
    t0 = time.time()
    seed = int(os.environ.get('VERIF_SEED', '0') or 0)
    rep = Report(prop, tier)
    mod = importlib.import_module('pk.rules.' + prop)
    from .facts import Facts
    from .callgraph import CallGraph

    class Ctx:
        pass
    ctx = Ctx()
    ctx.tier = tier
    ctx.rep = rep
    ctx.repo = REPO
    fatal = None
    try:
        fdir = extract('dev')
        ctx.facts = Facts(fdir)
        ctx.cg = CallGraph(ctx.facts)
        ctx.facts_dir = fdir
        ctx.config = 'dev'
        rep.configs.append('dev (cargo +nightly check --lib --bins, -Zmir-opt-level=0)')
        mod.run(ctx)
        _wiring(ctx, prop)
        if tier == 'thorough':
            # same obligations on the release code-generation switches
            fdir2 = extract('rel')
            c2 = Ctx()
            c2.tier = tier
            c2.repo = REPO
            c2.facts = Facts(fdir2)
            c2.cg = CallGraph(c2.facts)
            c2.facts_dir = fdir2
            c2.config = 'rel'
            rep2 = Report(prop, tier)
            c2.rep = rep2
            mod.run(c2)
            _wiring(c2, prop)
            rep.configs.append('rel (-C debug-assertions=off -C overflow-checks=off)')
            for o in rep2.obligations:
                o = dict(o)
                o['instance'] = o['instance'] + '@rel'
                o['key'] = o['key'] + '@rel'
                o['base_key'] = rep.key(o['rule'], o['instance'][:-4])
                rep.obligations.append(o)
            if hasattr(mod, 'thorough'):
                mod.thorough(ctx)
            if not os.environ.get('VERIF_SELFCHECK') and os.path.abspath(REPO) == '/repo':
                _selfcheck(prop, rep)
    except ExtractError as e:
        fatal = str(e)
        rep.fail('R0', 'facts', REPO, 'fact extraction failed, nothing could be analysed: ' + fatal[:1500],
                 reason='facts-missing')
    except Exception as e:  # noqa: fail closed, never crash
        import traceback
        tb = traceback.format_exc()
        sys.stderr.write(tb)
        rep.fail('R0', 'rule-engine-error', 'pk/rules/%s.py' % prop,
                 'the rule engine raised %s on this tree (a shape it does not recognise): %s' % (type(e).__name__, tb[-800:]),
                 reason='undecidable-shape')
    known = load_known()
    known_keys = {k['key']: k for k in known.get('known', [])}
    # evidence/ and out/violations/ describe /repo only: a run on a scratch variant (selfcheck mutants, seeded and benign
    # variants; VERIF_REPO set) writes under out/variant/ so that it never overwrites the record of the real tree
    variant = os.path.abspath(REPO) != '/repo'
    ev_dir = os.path.join(VERIF, 'out', 'variant', 'evidence') if variant else os.path.join(VERIF, 'evidence')
    vio_rel = os.path.join('out', 'variant', 'violations') if variant else os.path.join('out', 'violations')
    os.makedirs(os.path.join(VERIF, vio_rel), exist_ok=True)
    os.makedirs(ev_dir, exist_ok=True)
    viol = []
    known_hit = []
    for o in rep.obligations:
        if o['ok']:
            continue
        k = o.get('base_key') or o['key']
        if k in known_keys:
            known_hit.append((o, known_keys[k]))
        else:
            viol.append(o)
    printed = set()
    for o, k in known_hit:
        if k['key'] in printed:
            continue
        printed.add(k['key'])
        print('KNOWN-FINDING: property=%s %s [%s]' % (prop, k['what'], k['key']))
    lines = []
    for o in viol:
        path = os.path.join(vio_rel, '%s-%s.json' % (prop, _san(o['key'])))
        with open(os.path.join(VERIF, path), 'w') as fh:
            json.dump({'property': prop, 'key': o['key'], 'rule': o['rule'], 'instance': o['instance'],
                       'reason': o['reason'], 'construct': o['construct'], 'explanation': o['why'],
                       'tier': tier, 'repo': REPO}, fh, indent=1)
        lines.append('VIOLATION property=%s replay=%s' % (prop, path))
        sys.stderr.write('  [%s] %s\n     at %s\n     %s\n' % (o['reason'], o['key'], o['construct'], o['why']))
    for ln in lines:
        print(ln)
    n_obl = len(rep.obligations)
    n_ok = sum(1 for o in rep.obligations if o['ok'])
    distinct = len({(o['rule'], o['instance'], o['construct']) for o in rep.obligations})
    level = getattr(mod, 'LEVEL', 'other')
    ev = {
        'property_id': prop,
        'tier': tier,
        'seed': seed,
        'level': level,
        'coverage': {
            'obligations': n_obl,
            'discharged': n_ok,
            'evaluations': max(n_obl, 1),
            'distinct_nontrivial': distinct,
            'rule': 'one evaluation = one static obligation (rule x instance) decided on the MIR/HIR facts of '
                    '/repo\'s current tree; distinct = distinct (rule, instance, construct) triples; '
                    'an obligation is non-trivial when it was matched against a concrete construct of the source',
            'samples': rep.samples[:40] or [o['key'] + ' @ ' + str(o['construct']) for o in rep.obligations[:10]],
            'checker_cmd': './check %s --tier %s' % (prop, tier),
            'trusted_base': rep.trusted or ['rustc nightly front end + MIR construction', 'driver/ JSON export',
                                            'pk/ rule engine'],
            'explanation': getattr(mod, 'EXPLANATION', '') + ' Obligations: %d, discharged: %d.' % (n_obl, n_ok),
            'exhaustive': bool(getattr(mod, 'EXHAUSTIVE', False)),
            'floors': rep.floors,
            'configurations': rep.configs,
            'bodies_analysed': sorted(rep.analysed),
            'notes': rep.notes,
            'failed': [{'key': o['key'], 'reason': o['reason'], 'construct': o['construct'], 'why': o['why']}
                       for o in rep.obligations if not o['ok']],
            'known_findings_hit': sorted(printed),
            'obligation_list': [{'key': o['key'], 'ok': o['ok'], 'construct': o['construct'], 'why': o['why'][:300]}
                                for o in rep.obligations],
        },
        'assumptions': rep.assumptions,
        'wall_s': round(time.time() - t0, 3),
        'violations': len(viol),
    }
    ev['coverage'].update(rep.extra)
    with open(os.path.join(ev_dir, prop + '.json'), 'w') as fh:
        json.dump(ev, fh, indent=1)
    sys.stderr.write('%s %s: %d obligations, %d discharged, %d violation(s), %d known finding(s), %.1fs\n'
                     % (prop, tier, n_obl, n_ok, len(viol), len(printed), time.time() - t0))
    return 1 if viol else 0
