"""Symbolic values (pk/sym.py) -> exact rational-function normal forms (pk/poly.py)."""
from fractions import Fraction

from .poly import RF, Ctx, Poly


class NotNumeric(Exception):
    pass


class Norm:
    def __init__(self):
        self.cx = Ctx()

    def const(self, c):
        return RF.const(Fraction(c), self.cx)

    def atom(self, a):
        return RF.atom(a, self.cx)

    def fn(self, name, *args, commutative=False):
        return self.atom(self.cx.fn_atom(name, list(args), commutative))

    def rf(self, v):
        k = v[0]
        if k == 'num':
            return self.const(v[1])
        if k == 'numf':
            return self.atom('float:' + v[1])
        if k == 'sym':
            return self.atom(v[1])
        if k == 'bool':
            return self.const(1 if v[1] else 0)
        if k == 'bin':
            op = v[1]
            a, b = self.rf(v[2]), self.rf(v[3])
            if op == 'Add':
                return a + b
            if op == 'Sub':
                return a - b
            if op == 'Mul':
                return a * b
            if op == 'Div':
                if b.is_zero():
                    return self.fn('div0', a, b)
                return a / b
            if op == 'Rem':
                return self.fn('rem', a, b)
            return self.fn('bin:' + op, a, b)
        if k == 'un' and v[1] == 'Neg':
            return -self.rf(v[2])
        if k == 'app':
            f, args = v[1], v[2]
            if f == 'powi' and args[1][0] == 'num':
                return self.rf(args[0]).pow(int(args[1][1]))
            if f.startswith('as:'):
                return self.rf(args[0])
            if f in ('min', 'max', 'imin', 'imax'):
                return self.fn(f, self.rf(args[0]), self.rf(args[1]), commutative=True)
            if f in ('sqrt', 'sin', 'cos', 'exp', 'acos', 'abs', 'to_radians', 'ln', 'tan', 'asin', 'floor'):
                return self.fn(f, self.rf(args[0]))
            if f in ('powf', 'rem_euclid', 'atan2', 'hypot', 'idiv', 'irem'):
                return self.fn(f, self.rf(args[0]), self.rf(args[1]))
            return self.atom('%s(%s)' % (f, ', '.join(self.canon_value(a) for a in args)))
        raise NotNumeric(repr(v)[:200])

    def canon_value(self, v):
        try:
            return self.rf(v).canon()
        except NotNumeric:
            pass
        k = v[0]
        if k == 'struct':
            return '%s{%s}' % (v[1], ', '.join('%s: %s' % (n, self.canon_value(x)) for n, x in v[3]))
        if k == 'cmp':
            return '%s(%s, %s)' % (v[1], self.canon_value(v[2]), self.canon_value(v[3]))
        if k == 'ref':
            return '&_%d%s' % (v[2], ''.join('.' + p for p in v[3]))
        return repr(v)

    def cond(self, pc_item):
        """Canonical form of a path-condition atom: (kind, canonical string, polarity)."""
        kind = pc_item[0]
        if kind == 'cond':
            d, pol = pc_item[1], pc_item[2]
            return self.cmp_canon(d, pol)
        if kind == 'switch':
            return ('switch', self.canon_value(pc_item[1]), pc_item[2])
        if kind == 'switch-not':
            return ('switch-not', self.canon_value(pc_item[1]), pc_item[2])
        if kind == 'assume':
            return ('assume', self.canon_value(pc_item[1]), pc_item[2])
        return (kind, repr(pc_item[1:]), None)

    def cmp_canon(self, d, pol=True):
        """Comparison -> ('cmp', op, canonical(lhs - rhs)) normalised so that  lhs-rhs OP 0."""
        if d[0] == 'un' and d[1] == 'Not':
            return self.cmp_canon(d[2], not pol)
        if d[0] == 'cmp':
            op = d[1]
            if not pol:
                op = {'Lt': 'Ge', 'Le': 'Gt', 'Gt': 'Le', 'Ge': 'Lt', 'Eq': 'Ne', 'Ne': 'Eq'}[op]
            try:
                diff = self.rf(d[2]) - self.rf(d[3])
            except NotNumeric:
                return ('cmp?', op, self.canon_value(d[2]) + ' ? ' + self.canon_value(d[3]))
            # orient: Gt/Ge -> Lt/Le by negating
            if op in ('Gt', 'Ge'):
                diff = -diff
                op = {'Gt': 'Lt', 'Ge': 'Le'}[op]
            return ('cmp', op, diff)
        return ('bool', self.canon_value(d), pol)
