"""Flow-sensitive abstract interpreter over MIR (worklist, join at merge points, widening of integer intervals at
loop heads, branch refinement through comparison temporaries).  Domains as in pk/absval.py.

Used where the flow-insensitive LocalFix is too coarse (a bound established only by a branch guard).  Both are sound
over-approximations of every execution history, so a bound holds if either proves it."""
from fractions import Fraction

from .absval import (B, BTOP, F, FTOP, IVL, TOP, AbsEval, class_of_number, fadd, fcmp, fdiv, fexp, fmin, fmul, fneg,
                     fpowf, fsub, i_bin, i_join, int_to_float, CLASSES, ORDER)
from .cfg import CFG
from .mirutil import const_value, field_path
from .optmodel import INT_RANGE, top_of


def _const_abs(op):
    v = const_value(op)
    if isinstance(v, bool):
        return B(v)
    if isinstance(v, int):
        return IVL(v, v)
    if isinstance(v, float):
        if v != v:
            return F('nan')
        if v in (float('inf'), float('-inf')):
            return F('+inf' if v > 0 else '-inf')
        if v == 0:
            import math
            return F('-0' if math.copysign(1, v) < 0 else '+0')
        return F(class_of_number(Fraction(v)))
    return top_of(op.get('ty'))


def refine_float(vals, op, cset, side):
    """Classes of x compatible with `x op c` being `side` (True/False), for c in class set cset."""
    out = set()
    for a in vals:
        res = fcmp(op, frozenset((a,)), cset)
        if side in res:
            out.add(a)
    return frozenset(out)


def refine_int(iv, op, c, side):
    lo, hi = iv[1], iv[2]
    if not side:
        op = {'Lt': 'Ge', 'Le': 'Gt', 'Gt': 'Le', 'Ge': 'Lt', 'Eq': 'Ne', 'Ne': 'Eq'}[op]
    if op == 'Lt':
        hi = c - 1 if hi is None else min(hi, c - 1)
    elif op == 'Le':
        hi = c if hi is None else min(hi, c)
    elif op == 'Gt':
        lo = c + 1 if lo is None else max(lo, c + 1)
    elif op == 'Ge':
        lo = c if lo is None else max(lo, c)
    elif op == 'Eq':
        lo = c if lo is None else max(lo, c)
        hi = c if hi is None else min(hi, c)
    if lo is not None and hi is not None and lo > hi:
        return None
    return IVL(lo, hi)


class FlowAI:
    def __init__(self, body, field_env, self_local=1, max_iter=400):
        self.body = body
        self.fenv = field_env
        self.self_local = self_local
        self.cfg = CFG(body)
        self.heads = {l['header'] for l in self.cfg.loops()}
        self.inn = {}         # block -> state dict at entry
        self.visits = {}
        self.max_iter = max_iter
        self.call_models = []
        self._run()

    # ---- state helpers ------------------------------------------------------------------------
    def join_val(self, a, b):
        if a is None:
            return b
        if b is None:
            return a
        if a[0] == 'f' and b[0] == 'f':
            return ('f', a[1] | b[1])
        if a[0] == 'i' and b[0] == 'i':
            return i_join(a, b)
        if a[0] == 'b' and b[0] == 'b':
            return ('b', a[1] | b[1])
        if a[0] == 't' and b[0] == 't' and len(a[1]) == len(b[1]):
            return ('t', tuple(self.join_val(x, y) for x, y in zip(a[1], b[1])))
        if a[0] == 'cmp' or b[0] == 'cmp':
            return a if a == b else BTOP
        if a == b:
            return a
        return TOP

    def join_state(self, s1, s2):
        if s1 is None:
            return dict(s2)
        out = {}
        for k in set(s1) | set(s2):
            if k in s1 and k in s2:
                out[k] = self.join_val(s1[k], s2[k])
            # a local defined on only one path is undefined at the merge: leave it out (reads give TOP of its type)
        return out

    def widen_state(self, old, new):
        out = {}
        for k, v in new.items():
            o = old.get(k)
            if o is not None and v is not None and v[0] == 'i' and o[0] == 'i' and v != o:
                ty = self.body.local_ty(k)
                lo, hi = INT_RANGE.get(ty, (None, None))
                out[k] = IVL(v[1] if v[1] == o[1] else lo, v[2] if v[2] == o[2] else hi)
            else:
                out[k] = v
        return out

    # ---- evaluation ---------------------------------------------------------------------------
    def read(self, st, op):
        if op.get('k') == 'const':
            return _const_abs(op)
        l, p = op['l'], op['p']
        ty = op.get('ty')
        if l == self.self_local:
            fp = field_path(p)
            if fp and fp[0] in self.fenv:
                return self.fenv[fp[0]] if len(fp) == 1 else top_of(ty)
        v = st.get(l)
        if v is None:
            return top_of(self.body.local_ty(l)) if not p else top_of(ty)
        if v[0] == 'cmp' and not p:
            return BTOP
        for e in p:
            if e == 'deref':
                continue
            if isinstance(e, dict) and 'f' in e and v is not None and v[0] == 't' and e['f'] < len(v[1]):
                v = v[1][e['f']]
            elif isinstance(e, dict) and 'downcast' in e:
                continue
            else:
                return top_of(ty)
        if v is not None and v[0] == 'cmp':
            return BTOP
        return v

    def rvalue(self, st, rv, dest_ty):
        r = rv['r']
        if r == 'use':
            a = rv['a']
            if a.get('k') != 'const' and not a['p'] and st.get(a['l'], (None,))[0] == 'cmp':
                return st[a['l']]
            return self.read(st, a)
        if r == 'binop':
            a, b = self.read(st, rv['a']), self.read(st, rv['b'])
            op = rv['op']
            ov = op.endswith('WithOverflow')
            base = op.replace('WithOverflow', '').replace('Unchecked', '')
            aty = rv['a'].get('ty', '')
            if base in ('Lt', 'Le', 'Gt', 'Ge', 'Eq', 'Ne'):
                # remember the comparison for branch refinement
                return ('cmp', base, rv['a'], rv['b'], a, b)
            if aty in INT_RANGE:
                if a[0] == 'i' and b[0] == 'i':
                    res = i_bin(base, a, b)
                    lo, hi = INT_RANGE[aty]
                    res = IVL(lo if res[1] is None else max(lo, res[1]), hi if res[2] is None else min(hi, res[2]))
                else:
                    res = top_of(aty)
                return ('t', (res, BTOP)) if ov else res
            if a[0] == 'f' and b[0] == 'f':
                fn = {'Add': fadd, 'Sub': fsub, 'Mul': fmul, 'Div': fdiv}.get(base)
                if fn:
                    return ('f', fn(a[1], b[1]))
            return top_of(dest_ty)
        if r == 'unop':
            a = self.read(st, rv['a'])
            if rv['op'] == 'Neg' and a[0] == 'f':
                return ('f', fneg(a[1]))
            if rv['op'] == 'Not':
                src = rv['a']
                if src.get('k') != 'const' and not src['p'] and st.get(src['l'], (None,))[0] == 'cmp':
                    c = st[src['l']]
                    neg = {'Lt': 'Ge', 'Le': 'Gt', 'Gt': 'Le', 'Ge': 'Lt', 'Eq': 'Ne', 'Ne': 'Eq'}[c[1]]
                    return ('cmp', neg) + c[2:]
                if a[0] == 'b':
                    return ('b', frozenset(not x for x in a[1]))
            return top_of(dest_ty)
        if r == 'cast':
            a = self.read(st, rv['a'])
            if rv['kind'].startswith('IntToFloat') and a[0] == 'i':
                return ('f', int_to_float(a))
            if rv['kind'].startswith('IntToInt') and a[0] == 'i':
                return a
            return top_of(rv['to'])
        if r == 'aggr' and rv.get('agg') == 'tuple':
            return ('t', tuple(self.read(st, o) for o in rv['ops']))
        return top_of(dest_ty)

    def call(self, st, t):
        f = t['func']
        name = (f.get('resolved') or f.get('fn') or '').replace('packing::', '')
        last = name.rsplit('::', 1)[-1]
        args = [self.read(st, a) for a in t['args']]
        dty = t['dest']['ty']
        if '<impl f64>::' in name and all(a[0] == 'f' for a in args):
            if last in ('min', 'max'):
                return ('f', fmin(args[0][1], args[1][1], last == 'min'))
            if last == 'exp':
                return ('f', fexp(args[0][1]))
            if last == 'powf':
                return ('f', fpowf(args[0][1], args[1][1]))
            if last == 'clamp' and len(args) == 3:
                return ('f', fmin(fmin(args[0][1], args[2][1], True), args[1][1], False))
        if ('Ord' in name and last in ('min', 'max')) and all(a[0] == 'i' for a in args):
            return i_bin('i' + last, args[0], args[1])
        return top_of(dty)

    def transfer(self, bi, st):
        st = dict(st)
        bb = self.body.blocks[bi]
        for s in bb['stmts']:
            if s['s'] != 'assign':
                continue
            pl = s['place']
            if pl['p']:
                # partial write into a tracked tuple: forget it
                if pl['l'] in st and 'deref' not in pl['p']:
                    st.pop(pl['l'], None)
                continue
            st[pl['l']] = self.rvalue(st, s['rv'], pl['ty'])
        return st

    def edges(self, bi, st):
        """[(succ, state)] with branch refinement."""
        t = self.body.blocks[bi]['term']
        k = t['t']
        if k == 'goto':
            return [(t['target'], st)]
        if k == 'call':
            if t.get('target') is None:
                return []
            s2 = dict(st)
            d = t['dest']
            if not d['p']:
                s2[d['l']] = self.call(st, t)
            else:
                s2.pop(d['l'], None)
            # locals passed by &mut may be changed by the callee
            for a in t['args']:
                if a.get('k') in ('move', 'copy') and a.get('ty', '').startswith('&mut'):
                    pass
            return [(t['target'], s2)]
        if k in ('drop', 'assert'):
            s2 = st
            if k == 'assert':
                s2 = self.refine_bool(st, t['cond'], t['expected'])
                if s2 is None:
                    return []
            return [(t['target'], s2)]
        if k == 'switch':
            d = t['discr']
            out = []
            if d.get('ty') == 'bool':
                for v, tgt in t['arms']:
                    s2 = self.refine_bool(st, d, bool(int(v)))
                    if s2 is not None:
                        out.append((tgt, s2))
                other = not bool(int(t['arms'][0][0])) if len(t['arms']) == 1 else None
                if other is not None:
                    s2 = self.refine_bool(st, d, other)
                    if s2 is not None:
                        out.append((t['otherwise'], s2))
                else:
                    out.append((t['otherwise'], st))
                return out
            # integer / discriminant switch
            v = self.read(st, d)
            for val, tgt in t['arms']:
                if v[0] == 'i' and not ((v[1] is None or v[1] <= int(val)) and (v[2] is None or int(val) <= v[2])):
                    continue
                out.append((tgt, st))
            out.append((t['otherwise'], st))
            return out
        return []

    def refine_bool(self, st, op, side):
        """State refined by `op == side`, or None when infeasible."""
        if op.get('k') == 'const':
            v = const_value(op)
            return st if bool(v) == side else None
        l = op['l']
        v = st.get(l)
        if v is None or op['p']:
            return st
        if v[0] == 'b':
            if side not in v[1]:
                return None
            s2 = dict(st)
            s2[l] = B(side)
            return s2
        if v[0] != 'cmp':
            return st
        _, cop, oa, ob, va, vb = v
        s2 = dict(st)
        s2[l] = B(side)
        # refine the operand locals (through single copies: temporaries hold copies of user locals)
        for (x, vx, y, vy, flip) in ((oa, va, ob, vb, False), (ob, vb, oa, va, True)):
            if x.get('k') == 'const' or x['p']:
                continue
            opx = cop if not flip else {'Lt': 'Gt', 'Le': 'Ge', 'Gt': 'Lt', 'Ge': 'Le', 'Eq': 'Eq', 'Ne': 'Ne'}[cop]
            cur = st.get(x['l'], vx)
            new = cur
            if cur is not None and cur[0] == 'f' and vy[0] == 'f':
                r = refine_float(cur[1], opx, vy[1], side)
                if not r:
                    return None
                new = ('f', r)
            elif cur is not None and cur[0] == 'i' and vy[0] == 'i' and vy[1] is not None and vy[1] == vy[2]:
                new = refine_int(cur, opx, vy[1], side)
                if new is None:
                    return None
            if new != cur:
                s2[x['l']] = new
                # propagate to the locals this temporary was copied from
                for src in self.copies_of.get(x['l'], ()):
                    s2[src] = new if s2.get(src) is None else self.meet(s2[src], new)
        return s2

    def meet(self, a, b):
        if a[0] == 'f' and b[0] == 'f':
            return ('f', a[1] & b[1]) if (a[1] & b[1]) else a
        if a[0] == 'i' and b[0] == 'i':
            lo = b[1] if a[1] is None else (a[1] if b[1] is None else max(a[1], b[1]))
            hi = b[2] if a[2] is None else (a[2] if b[2] is None else min(a[2], b[2]))
            return IVL(lo, hi)
        return a

    def _run(self):
        body = self.body
        # temporaries that are plain copies of another local in the same block (for refinement propagation)
        self.copies_of = {}
        for bi, bb in enumerate(body.blocks):
            for s in bb['stmts']:
                if s['s'] == 'assign' and not s['place']['p'] and s['rv']['r'] == 'use':
                    a = s['rv']['a']
                    if a.get('k') in ('copy', 'move') and not a['p']:
                        self.copies_of.setdefault(s['place']['l'], set()).add(a['l'])
        init = {}
        self.inn[0] = init
        work = [0]
        it = 0
        while work and it < self.max_iter * max(1, len(body.blocks)):
            it += 1
            bi = work.pop(0)
            st = self.inn.get(bi)
            if st is None or body.blocks[bi]['cleanup']:
                continue
            out = self.transfer(bi, st)
            for succ, s2 in self.edges(bi, out):
                if body.blocks[succ]['cleanup']:
                    continue
                old = self.inn.get(succ)
                new = self.join_state(old, s2)
                if succ in self.heads and old is not None:
                    self.visits[succ] = self.visits.get(succ, 0) + 1
                    if self.visits[succ] > 3:
                        new = self.widen_state(old, new)
                if old is None or new != old:
                    self.inn[succ] = new
                    if succ not in work:
                        work.append(succ)
        self.converged = not work

    # ---- queries --------------------------------------------------------------------------------
    def value_at_call(self, bb, arg_index):
        """Abstract value of the arg_index-th argument of the call terminating block bb."""
        st = self.inn.get(bb)
        if st is None:
            return None
        out = self.transfer(bb, st)
        return self.read(out, self.body.blocks[bb]['term']['args'][arg_index])

    def value_of_operand_at(self, bb, op):
        st = self.inn.get(bb)
        if st is None:
            return None
        return self.read(self.transfer(bb, st), op)
