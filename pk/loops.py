"""`for` loops in MIR: iterator source, adaptor chain and item for every natural loop driven by Iterator::next;
plus an expression lifter that also understands f64 method calls."""
from .lineage import adaptor_chain, through
from .mirutil import call_matches, callee_name, field_path
from .sym import APP, NUM, SYM, float_const, INT_TYS


def for_loops(body, cfg, tr):
    """[{header, loop, next_term, item_local, src, chain(names), chain_terms}] for loops whose header calls next()."""
    out = []
    for lp in cfg.loops():
        hdr = lp['header']
        t = body.blocks[hdr]['term']
        if t['t'] != 'call' or not (callee_name(t) or '').endswith('::next'):
            continue
        o, steps = through(tr, t['args'][0])
        # iterator local: the thing into_iter was applied to
        src, chain = adaptor_chain(tr, {'k': 'copy', 'l': o['l'], 'p': []}) if o.get('l') is not None and o['o'] in ('call', 'rvalue') \
            else adaptor_chain(tr, t['args'][0])
        out.append({'header': hdr, 'loop': lp, 'next_term': t, 'item_local': t['dest']['l'], 'src': src,
                    'chain': [c[0] for c in chain], 'chain_terms': chain, 'depth': cfg.loop_depth(hdr)})
    out.sort(key=lambda d: (d['depth'], d['header']))
    return out


def item_of(tr, op):
    """If an operand derives from the item of a for loop: (next-call bb, field path below the Some payload)."""
    o, _ = through(tr, op)
    if o['o'] == 'call' and (callee_name(o['term']) or '').endswith('::next'):
        fp = field_path(o['p'])
        # drop the Option payload projection
        if fp[:1] == ['0']:
            fp = fp[1:]
        return o['bb'], fp
    return None, None


def lift(tr, op, leaf=None, depth=0):
    """Symbolic value of an operand following single-definition temporaries through constants, binary ops, casts and
    f64 method calls.  `leaf(origin)` may return a sym value for anything else (params, loop items, opaque calls)."""
    if depth > 40:
        return None
    if op.get('k') == 'const':
        if 'int' in op:
            return NUM(int(op['int']))
        if 'bits' in op:
            return float_const(op)
        if 'bool' in op:
            return NUM(1 if op['bool'] else 0)
        if 'uneval' in op:
            return SYM('const:' + op['uneval'])
        return leaf(tr.origin(op)) if leaf else None
    o = tr.origin(op)
    if o['o'] == 'const':
        return lift(tr, o['c'], leaf, depth + 1)
    if o['o'] == 'rvalue' and (not o['p'] or (o['rv']['r'] == 'binop' and o['rv']['op'].endswith('WithOverflow')
                                             and field_path(o['p']) == ['0'])):
        rv = o['rv']
        if rv['r'] == 'binop':
            a = lift(tr, rv['a'], leaf, depth + 1)
            b = lift(tr, rv['b'], leaf, depth + 1)
            if a is None or b is None:
                return None
            opn = rv['op'].replace('WithOverflow', '')
            if opn in ('Div', 'Rem') and rv['a'].get('ty') in INT_TYS:
                return APP('i' + opn.lower(), a, b)
            if opn in ('Lt', 'Le', 'Gt', 'Ge', 'Eq', 'Ne'):
                return ('cmp', opn, a, b)
            return ('bin', opn, a, b)
        if rv['r'] == 'unop' and rv['op'] == 'Neg':
            a = lift(tr, rv['a'], leaf, depth + 1)
            return None if a is None else ('un', 'Neg', a)
        if rv['r'] == 'cast' and rv['kind'].startswith(('IntToFloat', 'IntToInt', 'FloatToFloat')):
            a = lift(tr, rv['a'], leaf, depth + 1)
            return None if a is None else APP('as:' + rv['to'], a)
    if o['o'] == 'call' and not o['p']:
        t = o['term']
        n = callee_name(t) or ''
        last = n.rsplit('::', 1)[-1]
        if '<impl f64>::' in n:
            args = [lift(tr, a, leaf, depth + 1) for a in t['args']]
            if all(a is not None for a in args):
                return APP(last, *args)
        if ('f64 as std::ops::' in n or '&f64 as std::ops::' in n) and last in ('mul', 'add', 'sub', 'div') and len(t['args']) == 2:
            a = lift(tr, t['args'][0], leaf, depth + 1)
            b = lift(tr, t['args'][1], leaf, depth + 1)
            if a is not None and b is not None:
                return ('bin', last.capitalize(), a, b)
    return leaf(o) if leaf else None
