"""Per-property registration data (single source for MANIFEST.json)."""

# id -> dict(claimed, category, text, note, technique, design_ref, na_reason)
PROPS = {}


def reg(pid, claimed, category, text, note, technique, na_reason=None):
    PROPS[pid] = dict(claimed=claimed, category=category, text=text, note=note, technique=technique,
                      design_ref='DESIGN.md §4 ' + pid, na_reason=na_reason)


reg('C06', True, 'other',
    'All-paths structural decision on the MIR CFG of the stepping function and the basis handle: exactly one '
    'parameter write per proposal (who-may-write over the resolved call graph), Basis::reset_value on every path '
    'from the decision\'s reject edge on the same container and index value, undo value = value captured before '
    'the write (dominance), returned object = the moved-in state, score_current only takes accepted scores. '
    'Quantifies over every accept/reject history because it quantifies over every CFG path.',
    'Trusted: rustc MIR construction, driver export, cfg/dataflow helpers. Assumes std Vec/slice/Option accessors '
    'return the element they are documented to return.',
    'MIR CFG dominators + must-pass-through + provenance dataflow + who-may-call over resolved call graph')

NA_DEFAULT = 'check not built yet in this round (static rules planned in DESIGN.md §4); not claimed until it exists'
